// Package mighelp holds the recording driver and recording revision store the
// executor-level checks (C09, C11, C12) run the real migrate.Executor against.
package mighelp

import (
	"context"
	"database/sql"
	"errors"
	"fmt"
	"sort"
	"strings"
	"time"

	"ariga.io/atlas/sql/migrate"
	"ariga.io/atlas/sql/schema"
)

// Driver is a migrate.Driver whose ExecContext is decided by OnExec. Everything
// the Executor does not use is left nil (embedded nil interface).
type Driver struct {
	migrate.Driver
	OnExec func(stmt string) error
	Dirty  bool
}

func (d *Driver) ExecContext(_ context.Context, q string, _ ...any) (sql.Result, error) {
	if err := d.OnExec(q); err != nil {
		return nil, err
	}
	return nil, nil
}

func (d *Driver) QueryContext(context.Context, string, ...any) (*sql.Rows, error) {
	return nil, errors.New("verif: unexpected QueryContext")
}

func (d *Driver) Lock(context.Context, string, time.Duration) (schema.UnlockFunc, error) {
	return func() error { return nil }, nil
}

func (d *Driver) CheckClean(context.Context, *migrate.TableIdent) error {
	if d.Dirty {
		return &migrate.NotCleanError{Reason: "verif: dirty"}
	}
	return nil
}

// Store is an in-memory RevisionReadWriter that deep-copies on read and write.
type Store struct {
	Revs    map[string]*migrate.Revision
	OnWrite func(r *migrate.Revision) (persist bool, err error) // nil => persist
	Writes  int
}

func NewStore() *Store { return &Store{Revs: map[string]*migrate.Revision{}} }

func CopyRev(r *migrate.Revision) *migrate.Revision {
	c := *r
	c.PartialHashes = append([]string(nil), r.PartialHashes...)
	return &c
}

func (s *Store) Ident() *migrate.TableIdent { return &migrate.TableIdent{Name: "revs"} }

func (s *Store) ReadRevisions(context.Context) ([]*migrate.Revision, error) {
	vs := make([]string, 0, len(s.Revs))
	for v := range s.Revs {
		vs = append(vs, v)
	}
	sort.Strings(vs)
	out := make([]*migrate.Revision, len(vs))
	for i, v := range vs {
		out[i] = CopyRev(s.Revs[v])
	}
	return out, nil
}

func (s *Store) ReadRevision(_ context.Context, v string) (*migrate.Revision, error) {
	r, ok := s.Revs[v]
	if !ok {
		return nil, migrate.ErrRevisionNotExist
	}
	return CopyRev(r), nil
}

func (s *Store) WriteRevision(_ context.Context, r *migrate.Revision) error {
	s.Writes++
	persist, err := true, error(nil)
	if s.OnWrite != nil {
		persist, err = s.OnWrite(r)
	}
	if persist {
		s.Revs[r.Version] = CopyRev(r)
	}
	return err
}

func (s *Store) DeleteRevision(_ context.Context, v string) error {
	delete(s.Revs, v)
	return nil
}

// Clone deep-copies the stored revisions.
func (s *Store) Clone() map[string]*migrate.Revision {
	m := map[string]*migrate.Revision{}
	for k, v := range s.Revs {
		m[k] = CopyRev(v)
	}
	return m
}

// Dir builds a MemDir with the given files (name -> content) and a sum file.
func Dir(files map[string]string) (*migrate.MemDir, error) {
	d := &migrate.MemDir{}
	for n, c := range files {
		if err := d.WriteFile(n, []byte(c)); err != nil {
			return nil, err
		}
	}
	sum, err := d.Checksum()
	if err != nil {
		return nil, err
	}
	return d, migrate.WriteSumFile(d, sum)
}

// StmtFile renders statements one per line, each terminated by ';'.
func StmtFile(stmts []string) string {
	var b strings.Builder
	for _, s := range stmts {
		b.WriteString(s)
		b.WriteString(";\n")
	}
	return b.String()
}

// RevString renders the property-relevant fields of a revision (no clocks).
func RevString(r *migrate.Revision) string {
	if r == nil {
		return "<nil>"
	}
	return fmt.Sprintf("{v=%s type=%d applied=%d total=%d nph=%d err=%q errstmt=%q hash=%s}", r.Version, r.Type, r.Applied, r.Total, len(r.PartialHashes), r.Error, r.ErrorStmt, r.Hash)
}
