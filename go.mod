module verif

go 1.23.6

require ariga.io/atlas v0.0.0

require golang.org/x/mod v0.17.0 // indirect

require (
	github.com/DATA-DOG/go-sqlmock v1.5.0
	github.com/agext/levenshtein v1.2.1 // indirect
	github.com/apparentlymart/go-textseg/v13 v13.0.0 // indirect
	github.com/apparentlymart/go-textseg/v15 v15.0.0 // indirect
	github.com/bmatcuk/doublestar v1.3.4 // indirect
	github.com/go-openapi/inflect v0.19.0 // indirect
	github.com/google/go-cmp v0.6.0 // indirect
	github.com/hashicorp/hcl/v2 v2.13.0
	github.com/mattn/go-sqlite3 v1.14.24
	github.com/mitchellh/go-wordwrap v0.0.0-20150314170334-ad45545899c7 // indirect
	github.com/zclconf/go-cty v1.14.4
	github.com/zclconf/go-cty-yaml v1.1.0 // indirect
	golang.org/x/text v0.21.0 // indirect
)

replace ariga.io/atlas => /repo
