module verif

go 1.23.6

require ariga.io/atlas v0.0.0

replace ariga.io/atlas => /repo
