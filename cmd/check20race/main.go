// Command check20race is the free-running -race pass of C20 (see checks/c20/race.go): the same operation
// bodies as check20, pairs of them run at the same time, in a binary built with the race detector.
package main

import (
	"encoding/json"
	"flag"
	"os"

	"verif/checks/c20"
)

func main() {
	pairs := flag.String("pairs", "", "i:j,i:j,...")
	tier := flag.String("tier", "quick", "")
	rounds := flag.Int("rounds", 2, "")
	flag.Parse()
	json.NewEncoder(os.Stdout).Encode(c20.RaceWorker(*pairs, *tier == "thorough", *rounds))
}
