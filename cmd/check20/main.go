// Command check20 is the C20 check, linked against the patched runtime (see c20rt/gen_overlay.sh).
package main

import (
	"encoding/json"
	"flag"
	"fmt"
	"os"
	"strconv"

	"verif/checks/c20"
	"verif/engine/report"
)

func main() {
	if len(os.Args) < 2 || os.Args[1] != "C20" {
		fmt.Fprintln(os.Stderr, "usage: check20 C20 [--tier quick|thorough] [--replay file]")
		os.Exit(2)
	}
	fs := flag.NewFlagSet("check20", flag.ExitOnError)
	tier := fs.String("tier", "quick", "")
	replay := fs.String("replay", "", "")
	worker := fs.String("worker", "", "")
	seq := fs.String("seq", "", "")
	fs.Parse(os.Args[2:])
	if t := os.Getenv("VERIF_TIER"); (t == "quick" || t == "thorough") && *worker == "" && *seq == "" {
		*tier = t
	}
	switch {
	case *worker != "":
		json.NewEncoder(os.Stdout).Encode(c20.Worker(*worker, *tier == "thorough"))
		return
	case *seq != "":
		d, _ := strconv.Atoi(*seq)
		json.NewEncoder(os.Stdout).Encode(c20.SeqWorker(d, *tier == "thorough"))
		return
	}
	r := report.New("C20", "exploration", *tier)
	if *replay != "" {
		b, err := os.ReadFile(*replay)
		if err != nil {
			fmt.Fprintln(os.Stderr, err)
			os.Exit(2)
		}
		report.ReplayMode = true
		c20.Replay(r, b)
		os.Exit(r.Finish())
	}
	c20.Run(r)
	os.Exit(r.Finish())
}
