// Command check runs one property check: check <id> [--tier quick|thorough] [--replay file]
package main

import (
	"encoding/json"
	"flag"
	"fmt"
	"os"
	"strings"
	"verif/clih"

	"verif/checks/c01"
	"verif/checks/c02"
	"verif/checks/c03"
	"verif/checks/c04"
	"verif/checks/c05"
	"verif/checks/c06"
	"verif/checks/c07"
	"verif/checks/c08"
	"verif/checks/c09"
	"verif/checks/c10"
	"verif/checks/c11"
	"verif/checks/c12"
	"verif/checks/c13"
	"verif/checks/c14"
	"verif/checks/c15"
	"verif/checks/c16"
	"verif/checks/c17"
	"verif/checks/c18"
	"verif/checks/c19"
	"verif/engine/report"
)

type check struct {
	level  string
	run    func(*report.Run)
	replay func(*report.Run, json.RawMessage)
}

var checks = map[string]check{
	"C01": {"exploration", c01.Run, c01.Replay},
	"C02": {"exploration", c02.Run, c02.Replay},
	"C03": {"exploration", c03.Run, c03.Replay},
	"C04": {"exploration", c04.Run, c04.Replay},
	"C05": {"exploration", c05.Run, c05.Replay},
	"C06": {"model_checking", c06.Run, c06.Replay},
	"C07": {"exploration", c07.Run, c07.Replay},
	"C08": {"exploration", c08.Run, c08.Replay},
	"C09": {"fault_enumeration", c09.Run, c09.Replay},
	"C10": {"fault_enumeration", c10.Run, c10.Replay},
	"C11": {"model_checking", c11.Run, c11.Replay},
	"C12": {"model_checking", c12.Run, c12.Replay},
	"C13": {"fault_enumeration", c13.Run, c13.Replay},
	"C14": {"fault_enumeration", c14.Run, c14.Replay},
	"C15": {"exploration", c15.Run, c15.Replay},
	"C16": {"exploration", c16.Run, c16.Replay},
	"C17": {"exploration", c17.Run, c17.Replay},
	"C18": {"model_checking", c18.Run, c18.Replay},
	"C19": {"exploration", c19.Run, c19.Replay},
}

func main() {
	if len(os.Args) < 2 {
		fmt.Fprintln(os.Stderr, "usage: check <id> [--tier quick|thorough] [--replay file]")
		os.Exit(2)
	}
	id := os.Args[1]
	fs := flag.NewFlagSet("check", flag.ExitOnError)
	tier := fs.String("tier", "quick", "quick|thorough")
	replay := fs.String("replay", "", "replay file")
	fs.Parse(os.Args[2:])
	if t := os.Getenv("VERIF_TIER"); t == "quick" || t == "thorough" {
		*tier = t
	}
	c, ok := checks[id]
	if !ok {
		fmt.Fprintln(os.Stderr, "unknown check", id)
		os.Exit(2)
	}
	r := report.New(id, c.level, *tier)
	if *replay != "" {
		b, err := os.ReadFile(*replay)
		if err != nil {
			fmt.Fprintln(os.Stderr, err)
			os.Exit(2)
		}
		report.ReplayMode = true
		c.replay(r, b)
		os.Exit(r.Finish())
	}
	c.run(r)
	// a Go panic of the real CLI is a violation whatever the check was looking at.
	for _, p := range clih.TakePanics() {
		r.Violate("", fmt.Sprintf("the atlas CLI panicked: atlas %s: %s", strings.Join(p.Args, " "), p.Stderr), map[string]any{"cli_panic": p})
	}
	os.Exit(r.Finish())
}
