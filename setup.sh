#!/bin/bash
# Offline build of everything the checks need; warms the Go build cache.
cd "$(dirname "$0")" || exit 2
. ./env.sh
set -e
mkdir -p bin evidence
go build -o bin/check ./cmd/check
./build_atlas.sh
./c20rt/gen_overlay.sh
go build -overlay build/overlay.json -o bin/check20 ./cmd/check20
go build -race -overlay build/overlay.json -o bin/check20race ./cmd/check20race
(V="$PWD"; cd /repo/cmd/atlas && go build -tags verif -overlay "$V/build/overlay.json" -o "$V/bin/atlas20" .)
echo "setup ok"
