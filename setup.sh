#!/bin/bash
# Offline build of everything the checks need; warms the Go build cache.
cd "$(dirname "$0")" || exit 2
. ./env.sh
set -e
mkdir -p bin evidence
go build -o bin/check ./cmd/check
./build_atlas.sh
echo "setup ok"
