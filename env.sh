# Sourced by every script in /verif. Offline Go environment; go1.23.6 is required by /repo/cmd/atlas.
VERIF_GOROOT=/root/go/pkg/mod/golang.org/toolchain@v0.0.1-go1.23.6.linux-amd64
export PATH="$VERIF_GOROOT/bin:$PATH"
export GOTOOLCHAIN=local GOPROXY=off GOFLAGS=-mod=mod GONOSUMDB='*' GONOSUMCHECK=1 GOFLAGS=-mod=mod
export CGO_ENABLED=1
export ATLAS_NO_UPDATE_NOTIFIER=1 ATLAS_NO_UPGRADE_SUGGESTIONS=1 NO_COLOR=1
