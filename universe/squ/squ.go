// Package squ is the SQLite schema universe: a small declarative model of a
// database, a catalogue of elementary features over a fixed skeleton, and two
// independent writers (SQL DDL in two spellings, Atlas HCL). Nothing here goes
// through atlas code.
package squ

import (
	"fmt"
	"regexp"
	"sort"
	"strings"
)

type Col struct {
	Name      string
	Type      string // declared type as written in DDL / HCL type name
	NotNull   bool
	Default   string // SQL literal text ('' = none). e.g. 'x' (with quotes), 7, 1.5
	DefExpr   bool   // default is an expression/keyword (CURRENT_TIMESTAMP)
	Gen       string // generated expression ('' = none)
	GenStored bool
	AutoInc   bool // INTEGER PRIMARY KEY AUTOINCREMENT
}

type Part struct {
	Col  string
	Expr string
	Desc bool
	// Bare: the DDL writes the expression as it is (a function call), not wrapped in parentheses.
	Bare bool
	// AscKw: the DDL spells the default direction out ("ASC").
	AscKw bool
}

type Idx struct {
	Name   string
	Unique bool
	Parts  []Part
	Where  string
	// LowerWhere: the DDL spells the keyword of the predicate in lower case ("where").
	LowerWhere bool
	Inline     bool // spelled as an inline/table UNIQUE constraint (auto index) in DDL spelling 1
}

type FK struct {
	Name     string
	Cols     []string
	RefTable string
	RefCols  []string
	OnUpdate string
	OnDelete string
	// Implicit: the DDL names no parent columns (REFERENCES p): the key refers to p's primary key,
	// which RefCols spells out for the HCL document.
	Implicit bool
}

func (fk FK) refList() string {
	if fk.Implicit {
		return ""
	}
	return " (" + qlist(fk.RefCols) + ")"
}

type Check struct {
	Name string
	Expr string
}

type Table struct {
	Name         string
	Cols         []Col
	PK           []string
	Idx          []Idx
	FKs          []FK
	Checks       []Check
	WithoutRowID bool
	Strict       bool
}

type DB struct {
	Tables []*Table
}

func (d *DB) Table(n string) *Table {
	for _, t := range d.Tables {
		if t.Name == n {
			return t
		}
	}
	return nil
}

func (t *Table) Col(n string) *Col {
	for i := range t.Cols {
		if t.Cols[i].Name == n {
			return &t.Cols[i]
		}
	}
	return nil
}

func (t *Table) dropCol(n string) {
	for i := range t.Cols {
		if t.Cols[i].Name == n {
			t.Cols = append(t.Cols[:i], t.Cols[i+1:]...)
			return
		}
	}
}

// Skeleton builds the base database: parent p, subject t, bystander u.
func Skeleton() *DB {
	return &DB{Tables: []*Table{
		{Name: "p", Cols: []Col{{Name: "id", Type: "integer", NotNull: true}, {Name: "k", Type: "integer", NotNull: true}}, PK: []string{"id"},
			Idx: []Idx{{Name: "p_id_k", Unique: true, Parts: []Part{{Col: "id"}, {Col: "k"}}}}},
		{Name: "t", Cols: []Col{{Name: "id", Type: "integer", NotNull: true}, {Name: "a", Type: "integer"}, {Name: "b", Type: "text"}},
			// id is always unique so that foreign keys may point at it whatever the primary key is.
			Idx: []Idx{{Name: "t_id_uq", Unique: true, Parts: []Part{{Col: "id"}}}}},
		// the bystander holds child rows of t: whatever happens to t must not cascade into it.
		{Name: "u", Cols: []Col{{Name: "id", Type: "integer", NotNull: true}, {Name: "v", Type: "text"}, {Name: "t_id", Type: "integer"}}, PK: []string{"id"},
			Idx: []Idx{{Name: "u_v", Parts: []Part{{Col: "v"}}}},
			FKs: []FK{fkTo("fk_u_t", []string{"t_id"}, "t", []string{"id"}, "", "CASCADE")}},
	}}
}

// Feature is one elementary schema feature applied on top of the skeleton.
type Feature struct {
	Name  string
	Group string // features of the same non-empty group are mutually exclusive
	Apply func(d *DB)
	// Needs lists feature groups/names that must also be present for the engine to accept the schema.
	NeedsPK bool
}

func fkTo(name string, cols []string, ref string, refCols []string, upd, del string) FK {
	return FK{Name: name, Cols: cols, RefTable: ref, RefCols: refCols, OnUpdate: upd, OnDelete: del}
}

// Features is the catalogue (order = simplest first).
var Features = []Feature{
	{Name: "col_c_null", Apply: func(d *DB) { t := d.Table("t"); t.Cols = append(t.Cols, Col{Name: "c", Type: "integer"}) }},
	{Name: "col_d_text_notnull_default", Apply: func(d *DB) {
		t := d.Table("t")
		t.Cols = append(t.Cols, Col{Name: "d", Type: "text", NotNull: true, Default: "'x'"})
	}},
	{Name: "col_e_real_default", Apply: func(d *DB) {
		t := d.Table("t")
		t.Cols = append(t.Cols, Col{Name: "e", Type: "real", NotNull: true, Default: "1.5"})
	}},
	{Name: "col_f_notnull_nodefault", Apply: func(d *DB) {
		t := d.Table("t")
		t.Cols = append(t.Cols, Col{Name: "f", Type: "integer", NotNull: true})
	}},
	{Name: "col_g_current_timestamp", Apply: func(d *DB) {
		t := d.Table("t")
		t.Cols = append(t.Cols, Col{Name: "g", Type: "datetime", NotNull: true, Default: "CURRENT_TIMESTAMP", DefExpr: true})
	}},
	// string defaults whose value begins and ends with an apostrophe / is spelled with double quotes.
	{Name: "col_q_default_apostrophe_edges", Apply: func(d *DB) {
		t := d.Table("t")
		t.Cols = append(t.Cols, Col{Name: "q", Type: "text", NotNull: true, Default: "'''tis Jones'''"})
	}},
	{Name: "col_s_default_trailing_apostrophe", Apply: func(d *DB) {
		t := d.Table("t")
		t.Cols = append(t.Cols, Col{Name: "s", Type: "text", NotNull: true, Default: "'Jones'''"})
	}},
	{Name: "col_r_default_double_quoted", Apply: func(d *DB) {
		t := d.Table("t")
		t.Cols = append(t.Cols, Col{Name: "r", Type: "text", NotNull: true, Default: "\"it's\""})
	}},
	// a string default whose text looks like a constraint.
	{Name: "col_k_default_mentions_check", Apply: func(d *DB) {
		t := d.Table("t")
		t.Cols = append(t.Cols, Col{Name: "k", Type: "text", Default: "'CHECK (x)'"})
	}},
	// numeric default spelled with an exponent; BLOB literal default.
	{Name: "col_v_default_exponent", Apply: func(d *DB) {
		t := d.Table("t")
		t.Cols = append(t.Cols, Col{Name: "v", Type: "real", Default: "1e3", DefExpr: true})
	}},
	// columns whose names read like numbers that are not in canonical form; each is indexed, so the
	// export has to refer to it.
	{Name: "col_named_007_indexed", Apply: func(d *DB) {
		t := d.Table("t")
		t.Cols = append(t.Cols, Col{Name: "007", Type: "integer"})
		t.Idx = append(t.Idx, Idx{Name: "idx_007", Parts: []Part{{Col: "007"}}})
	}},
	{Name: "col_named_1e3_and_1000_indexed", Apply: func(d *DB) {
		t := d.Table("t")
		t.Cols = append(t.Cols, Col{Name: "1e3", Type: "integer"}, Col{Name: "1000", Type: "integer"})
		t.Idx = append(t.Idx, Idx{Name: "idx_1e3", Parts: []Part{{Col: "1e3"}}})
	}},
	// column names that need escaping inside an HCL reference; each is indexed.
	{Name: "col_named_with_backslash_and_quote_indexed", Apply: func(d *DB) {
		t := d.Table("t")
		t.Cols = append(t.Cols, Col{Name: "x\\y", Type: "integer"}, Col{Name: "q\"r", Type: "integer"})
		t.Idx = append(t.Idx, Idx{Name: "idx_esc", Parts: []Part{{Col: "x\\y"}, {Col: "q\"r"}}})
	}},
	// a default expression written with parentheses of its own.
	{Name: "col_y1_default_expr_parenthesised", Apply: func(d *DB) {
		t := d.Table("t")
		t.Cols = append(t.Cols, Col{Name: "y1", Type: "integer", Default: "(1 + 1)", DefExpr: true})
	}},
	// a default expression whose text holds the template markers of HCL.
	{Name: "col_x1_default_expr_with_template_markers", Apply: func(d *DB) {
		t := d.Table("t")
		t.Cols = append(t.Cols, Col{Name: "x1", Type: "text", Default: "printf('${%s} %%{x}', 'a')", DefExpr: true})
	}},
	{Name: "col_w_default_blob", Apply: func(d *DB) {
		t := d.Table("t")
		t.Cols = append(t.Cols, Col{Name: "w", Type: "blob", Default: "X'00112233445566778899AABB'", DefExpr: true})
	}},
	{Name: "col_w2_default_long_blob_as_hcl_string", Apply: func(d *DB) {
		t := d.Table("t")
		t.Cols = append(t.Cols, Col{Name: "w2", Type: "blob", Default: "X'00112233445566778899AABB'"})
	}},
	{Name: "col_h_virtual", Apply: func(d *DB) {
		t := d.Table("t")
		t.Cols = append(t.Cols, Col{Name: "h", Type: "integer", Gen: "id + 1"})
	}},
	{Name: "col_i_stored", Apply: func(d *DB) {
		t := d.Table("t")
		t.Cols = append(t.Cols, Col{Name: "i", Type: "integer", Gen: "id * 2", GenStored: true})
	}},
	// a generated column declared before ordinary columns: rebuild copies must skip it and keep going.
	// a declared type atlas has no name for, spelled with an upper-case letter.
	{Name: "col_ut_user_type_mixed_case", Apply: func(d *DB) {
		t := d.Table("t")
		t.Cols = append(t.Cols, Col{Name: "ut", Type: "Money"})
	}},
	// generated column whose declared type has a comma.
	{Name: "col_gd_generated_decimal", Apply: func(d *DB) {
		t := d.Table("t")
		t.Cols = append(t.Cols, Col{Name: "gd", Type: "decimal(10,2)", Gen: "id * 2"})
	}},
	{Name: "col_m_virtual_middle", Apply: func(d *DB) {
		t := d.Table("t")
		t.Cols = append(t.Cols[:1:1], append([]Col{{Name: "m", Type: "integer", Gen: "id + 2"}}, t.Cols[1:]...)...)
	}},
	// two generated columns, the later one's name being a prefix of the earlier one's.
	{Name: "col_gen_name_prefix", Apply: func(d *DB) {
		t := d.Table("t")
		t.Cols = append(t.Cols, Col{Name: "hx2", Type: "integer", Gen: "id + 7"}, Col{Name: "hx", Type: "integer", Gen: "id + 9"})
	}},
	// two generated columns; the later one's name, read as a regular expression, matches the earlier one's.
	{Name: "col_gen_name_with_pattern_characters", Apply: func(d *DB) {
		t := d.Table("t")
		t.Cols = append(t.Cols, Col{Name: "hzc", Type: "integer", Gen: "id + 3"}, Col{Name: "h.c", Type: "integer", Gen: "id + 100"}, Col{Name: "tot$", Type: "integer", Gen: "id + 5"})
	}},
	{Name: "a_type_text", Group: "a", Apply: func(d *DB) { d.Table("t").Col("a").Type = "text" }},
	{Name: "a_notnull", Group: "a", Apply: func(d *DB) { d.Table("t").Col("a").NotNull = true }},
	{Name: "a_notnull_default", Group: "a", Apply: func(d *DB) { c := d.Table("t").Col("a"); c.NotNull = true; c.Default = "7" }},
	{Name: "b_notnull_default", Group: "b", Apply: func(d *DB) { c := d.Table("t").Col("b"); c.NotNull = true; c.Default = "'dflt'" }},
	{Name: "b_dropped", Group: "b", Apply: func(d *DB) { d.Table("t").dropCol("b") }},
	{Name: "b_default", Group: "b", Apply: func(d *DB) { d.Table("t").Col("b").Default = "'q'" }},
	{Name: "pk_id", Group: "pk", Apply: func(d *DB) { d.Table("t").PK = []string{"id"} }},
	{Name: "pk_id_a", Group: "pk", Apply: func(d *DB) { d.Table("t").PK = []string{"id", "a"} }},
	{Name: "pk_a_id", Group: "pk", Apply: func(d *DB) { d.Table("t").PK = []string{"a", "id"} }},
	// both table options at once (they need a primary key, hence one compound feature).
	{Name: "pk_id_without_rowid_strict", Group: "pk", Apply: func(d *DB) {
		t := d.Table("t")
		t.PK, t.WithoutRowID, t.Strict = []string{"id"}, true, true
	}},
	{Name: "pk_autoincrement", Group: "pk", Apply: func(d *DB) { t := d.Table("t"); t.PK = []string{"id"}; t.Col("id").AutoInc = true }},
	// the AUTOINCREMENT key is not the first column: an INTEGER column is declared before it.
	{Name: "pk_autoincrement_after_integer_column", Group: "pk", Apply: func(d *DB) {
		t := d.Table("t")
		t.Cols = append([]Col{{Name: "z0", Type: "integer"}}, t.Cols...)
		t.PK = []string{"id"}
		t.Col("id").AutoInc = true
	}},
	{Name: "idx_a", Apply: func(d *DB) { t := d.Table("t"); t.Idx = append(t.Idx, Idx{Name: "idx_a", Parts: []Part{{Col: "a"}}}) }},
	{Name: "uq_b", Group: "bidx", Apply: func(d *DB) {
		t := d.Table("t")
		t.Idx = append(t.Idx, Idx{Name: "uq_b", Unique: true, Parts: []Part{{Col: "b"}}})
	}},
	{Name: "idx_a_b", Apply: func(d *DB) {
		t := d.Table("t")
		t.Idx = append(t.Idx, Idx{Name: "idx_a_b", Parts: []Part{{Col: "a"}, {Col: "b"}}})
	}},
	{Name: "idx_a_desc", Apply: func(d *DB) {
		t := d.Table("t")
		t.Idx = append(t.Idx, Idx{Name: "idx_a_desc", Parts: []Part{{Col: "a", Desc: true}}})
	}},
	{Name: "idx_a_partial", Apply: func(d *DB) {
		t := d.Table("t")
		t.Idx = append(t.Idx, Idx{Name: "idx_a_part", Parts: []Part{{Col: "a"}}, Where: "a > 0"})
	}},
	// a predicate holding what HCL reads as template sequences.
	{Name: "idx_part_predicate_template_chars", Apply: func(d *DB) {
		t := d.Table("t")
		t.Idx = append(t.Idx, Idx{Name: "idx_a_tpl", Parts: []Part{{Col: "a"}}, Where: "b <> '%{x}' AND b <> '${y}'"})
	}},
	// a partial index whose keyword is spelled in lower case.
	{Name: "idx_part_lowercase_where", Apply: func(d *DB) {
		t := d.Table("t")
		t.Idx = append(t.Idx, Idx{Name: "idx_b_part", Parts: []Part{{Col: "b"}}, Where: "id > 5", LowerWhere: true})
	}},
	{Name: "idx_expr", Apply: func(d *DB) {
		t := d.Table("t")
		t.Idx = append(t.Idx, Idx{Name: "idx_expr", Parts: []Part{{Expr: "id + 1"}}})
	}},
	// the usual spelling of an expression index: CREATE INDEX ... ON t (lower(b)).
	{Name: "idx_expr_function_call_unwrapped", Apply: func(d *DB) {
		t := d.Table("t")
		t.Idx = append(t.Idx, Idx{Name: "idx_lower_b", Parts: []Part{{Expr: "lower(b)", Bare: true}}})
	}},
	{Name: "idx_expr_desc", Apply: func(d *DB) {
		t := d.Table("t")
		t.Idx = append(t.Idx, Idx{Name: "idx_expr_desc", Parts: []Part{{Col: "a"}, {Expr: "id * 2", Desc: true}}})
	}},
	// the default direction of an expression part (and of a column part) spelled out.
	{Name: "idx_expr_asc_keyword", Apply: func(d *DB) {
		t := d.Table("t")
		t.Idx = append(t.Idx, Idx{Name: "idx_expr_asc", Parts: []Part{{Expr: "id * 3", AscKw: true}, {Col: "a", AscKw: true}}})
	}},
	{Name: "uq_b_inline", Group: "bidx", Apply: func(d *DB) {
		t := d.Table("t")
		t.Idx = append(t.Idx, Idx{Name: "t_b", Unique: true, Parts: []Part{{Col: "b"}}, Inline: true})
	}},
	// two UNIQUE constraints over the same columns in another order: two automatic indexes, two names.
	{Name: "uq_inline_a_b_and_b_a", Apply: func(d *DB) {
		t := d.Table("t")
		t.Idx = append(t.Idx, Idx{Name: "t_a_b", Unique: true, Parts: []Part{{Col: "a"}, {Col: "b"}}, Inline: true},
			Idx{Name: "t_b_a", Unique: true, Parts: []Part{{Col: "b"}, {Col: "a"}}, Inline: true})
	}},
	{Name: "check_named", Group: "ck_a", Apply: func(d *DB) { t := d.Table("t"); t.Checks = append(t.Checks, Check{Name: "ck_a", Expr: "a > 0"}) }},
	// the same constraint name with another expression: between the two states only the expression changes.
	{Name: "check_named_other_expr", Group: "ck_a", Apply: func(d *DB) { t := d.Table("t"); t.Checks = append(t.Checks, Check{Name: "ck_a", Expr: "a > -10"}) }},
	{Name: "check_unnamed", Apply: func(d *DB) { t := d.Table("t"); t.Checks = append(t.Checks, Check{Expr: "id < 1000"}) }},
	// an expression whose first and last bytes are parentheses that do not match each other.
	{Name: "check_two_groups", Apply: func(d *DB) {
		t := d.Table("t")
		t.Checks = append(t.Checks, Check{Name: "ck_two", Expr: "(a > 0) AND (id > 0)"})
	}},
	// a literal that ends in a backslash (no escape character in SQLite).
	{Name: "check_literal_trailing_backslash", Apply: func(d *DB) {
		t := d.Table("t")
		t.Checks = append(t.Checks, Check{Name: "ck_bs", Expr: "b <> 'x\\'"})
	}},
	// two unnamed checks on one table.
	{Name: "check_two_unnamed", Apply: func(d *DB) {
		t := d.Table("t")
		t.Checks = append(t.Checks, Check{Expr: "id < 2000"}, Check{Expr: "id > -5"})
	}},
	{Name: "check_paren_literal", Apply: func(d *DB) {
		t := d.Table("t")
		t.Checks = append(t.Checks, Check{Name: "ck_b", Expr: "b <> ')'"})
	}},
	{Name: "fk_self", Apply: func(d *DB) {
		t := d.Table("t")
		t.FKs = append(t.FKs, fkTo("fk_self", []string{"a"}, "t", []string{"id"}, "", ""))
	}},
	{Name: "fk_parent_cascade", Group: "fkp", Apply: func(d *DB) {
		t := d.Table("t")
		t.FKs = append(t.FKs, fkTo("fk_p", []string{"a"}, "p", []string{"id"}, "", "CASCADE"))
	}},
	// REFERENCES p without a column list: the parent's primary key.
	{Name: "fk_parent_implicit_pk", Group: "fkp", Apply: func(d *DB) {
		t := d.Table("t")
		fk := fkTo("", []string{"a"}, "p", []string{"id"}, "", "")
		fk.Implicit = true
		t.FKs = append(t.FKs, fk)
	}},
	{Name: "fk_parent_setnull_setdefault", Group: "fkp", Apply: func(d *DB) {
		t := d.Table("t")
		t.FKs = append(t.FKs, fkTo("fk_p", []string{"a"}, "p", []string{"id"}, "SET NULL", "SET DEFAULT"))
	}},
	{Name: "fk_parent_restrict_noaction", Group: "fkp", Apply: func(d *DB) {
		t := d.Table("t")
		t.FKs = append(t.FKs, fkTo("fk_p", []string{"a"}, "p", []string{"id"}, "RESTRICT", "NO ACTION"))
	}},
	{Name: "fk_parent_unnamed", Group: "fkp", Apply: func(d *DB) {
		t := d.Table("t")
		t.FKs = append(t.FKs, fkTo("", []string{"a"}, "p", []string{"id"}, "CASCADE", "CASCADE"))
	}},
	{Name: "fk_cycle", Apply: func(d *DB) {
		t, p := d.Table("t"), d.Table("p")
		t.FKs = append(t.FKs, fkTo("fk_t_p", []string{"id"}, "p", []string{"id"}, "", ""))
		p.FKs = append(p.FKs, fkTo("fk_p_t", []string{"k"}, "t", []string{"id"}, "", ""))
	}},
	{Name: "fk_composite", Apply: func(d *DB) {
		t := d.Table("t")
		t.FKs = append(t.FKs, fkTo("fk_comp", []string{"id", "a"}, "p", []string{"id", "k"}, "", ""))
	}},
	{Name: "table_x", Apply: func(d *DB) {
		d.Tables = append(d.Tables, &Table{Name: "x",
			Cols:   []Col{{Name: "id", Type: "integer", NotNull: true}, {Name: "t_id", Type: "integer"}, {Name: "note", Type: "text", NotNull: true, Default: "'n'"}},
			PK:     []string{"id"},
			Idx:    []Idx{{Name: "x_t_id", Parts: []Part{{Col: "t_id"}}}},
			FKs:    []FK{fkTo("fk_x_t", []string{"t_id"}, "t", []string{"id"}, "", "SET NULL")},
			Checks: []Check{{Name: "x_note", Expr: "note <> ''"}}})
	}},
	// a created table whose UNIQUE constraint is backed by an engine-named auto index.
	{Name: "table_y_inline_unique", Apply: func(d *DB) {
		d.Tables = append(d.Tables, &Table{Name: "y",
			Cols: []Col{{Name: "id", Type: "integer", NotNull: true}, {Name: "code", Type: "text", NotNull: true}},
			PK:   []string{"id"},
			Idx:  []Idx{{Name: "y_code", Unique: true, Parts: []Part{{Col: "code"}}, Inline: true}}})
	}},
	// an in-place change of a table that sorts after t (so a plan can rebuild t and then alter u).
	{Name: "u_idx_t_id", Apply: func(d *DB) {
		u := d.Table("u")
		u.Idx = append(u.Idx, Idx{Name: "u_t_id", Parts: []Part{{Col: "t_id"}}})
	}},
	{Name: "without_rowid", NeedsPK: true, Apply: func(d *DB) { d.Table("t").WithoutRowID = true }},
	{Name: "strict", Apply: func(d *DB) { d.Table("t").Strict = true }},
}

// State is a feature set (indices into Features, sorted).
type State []int

func (s State) Names() []string {
	out := make([]string, len(s))
	for i, f := range s {
		out[i] = Features[f].Name
	}
	return out
}

func (s State) Key() string { return strings.Join(s.Names(), "+") }

// Build constructs the database of the state on a fresh skeleton.
func (s State) Build() *DB {
	d := Skeleton()
	for _, f := range s {
		Features[f].Apply(d)
	}
	return d
}

// Valid reports whether the combination is structurally meaningful (group exclusivity,
// references to dropped columns, options needing a PK). Engine validity is decided by the engine.
func (s State) Valid() bool {
	groups := map[string]bool{}
	for _, f := range s {
		if g := Features[f].Group; g != "" {
			if groups[g] {
				return false
			}
			groups[g] = true
		}
	}
	d := s.Build()
	t := d.Table("t")
	for _, f := range s {
		if Features[f].NeedsPK && len(t.PK) == 0 {
			return false
		}
	}
	has := func(n string) bool { return t.Col(n) != nil }
	for _, ix := range t.Idx {
		for _, p := range ix.Parts {
			if p.Col != "" && !has(p.Col) {
				return false
			}
		}
	}
	for _, c := range t.Checks {
		if strings.HasPrefix(c.Expr, "b ") && !has("b") {
			return false
		}
	}
	if t.Strict {
		for _, c := range t.Cols {
			switch strings.ToLower(c.Type) {
			case "integer", "int", "real", "text", "blob", "any":
			default:
				return false
			}
		}
	}
	if t.WithoutRowID && t.Col("id").AutoInc {
		return false
	}
	// STRICT and WITHOUT ROWID tables make primary-key columns implicitly NOT NULL; a desired
	// schema that declares such a column nullable contradicts itself.
	if t.Strict || t.WithoutRowID {
		for _, c := range t.PK {
			if col := t.Col(c); col != nil && !col.NotNull {
				return false
			}
		}
	}
	return true
}

// Universe returns every valid state with at most k features, simplest first.
func Universe(k int) []State {
	var out []State
	n := len(Features)
	var cur []int
	var rec func(start, left int)
	for size := 0; size <= k; size++ {
		rec = func(start, left int) {
			if left == 0 {
				s := State(append([]int(nil), cur...))
				if s.Valid() {
					out = append(out, s)
				}
				return
			}
			for i := start; i <= n-left; i++ {
				cur = append(cur, i)
				rec(i+1, left-1)
				cur = cur[:len(cur)-1]
			}
		}
		rec(0, size)
	}
	return out
}

// ---------- writers ----------

func q(s string) string { return "`" + s + "`" }

func qlist(ss []string) string {
	out := make([]string, len(ss))
	for i, s := range ss {
		out[i] = q(s)
	}
	return strings.Join(out, ", ")
}

// DDL renders CREATE statements in dependency-free order (SQLite accepts forward FK references).
// spelling 0: constraints at table level; spelling 1: inline column constraints where SQL allows.
func (d *DB) DDL(spelling int) []string {
	var out []string
	for _, t := range d.Tables {
		out = append(out, t.DDL(spelling)...)
	}
	return out
}

func (t *Table) DDL(spelling int) []string {
	var defs []string
	singlePK := len(t.PK) == 1
	inlineFK := map[string]*FK{}
	inlineUq := map[string]bool{}
	if spelling == 1 {
		for i := range t.FKs {
			if fk := &t.FKs[i]; len(fk.Cols) == 1 {
				if _, dup := inlineFK[fk.Cols[0]]; !dup {
					inlineFK[fk.Cols[0]] = fk
				}
			}
		}
	}
	for _, ix := range t.Idx {
		if ix.Inline && spelling == 1 && len(ix.Parts) == 1 {
			inlineUq[ix.Parts[0].Col] = true
		}
	}
	for _, c := range t.Cols {
		s := q(c.Name) + " " + c.Type
		if c.AutoInc {
			s += " NOT NULL PRIMARY KEY AUTOINCREMENT"
		} else {
			if c.Gen != "" {
				kind := "VIRTUAL"
				if c.GenStored {
					kind = "STORED"
				}
				if spelling == 1 {
					s += " GENERATED ALWAYS"
				}
				s += " AS (" + c.Gen + ") " + kind
			}
			if c.NotNull {
				s += " NOT NULL"
			} else if c.Gen == "" {
				s += " NULL"
			}
			if spelling == 1 && singlePK && t.PK[0] == c.Name {
				s += " PRIMARY KEY"
			}
			if c.Default != "" {
				if c.DefExpr && spelling == 1 {
					s += " DEFAULT (" + c.Default + ")"
				} else {
					s += " DEFAULT " + c.Default
				}
			}
			if inlineUq[c.Name] {
				s += " UNIQUE"
			}
			if fk, ok := inlineFK[c.Name]; ok {
				if fk.Name != "" {
					s += " CONSTRAINT " + q(fk.Name)
				}
				s += " REFERENCES " + q(fk.RefTable) + fk.refList() + fkActions(*fk)
			}
		}
		defs = append(defs, s)
	}
	autoinc := false
	for _, c := range t.Cols {
		autoinc = autoinc || c.AutoInc
	}
	if len(t.PK) > 0 && !autoinc && !(spelling == 1 && singlePK) {
		defs = append(defs, "PRIMARY KEY ("+qlist(t.PK)+")")
	}
	for _, ix := range t.Idx {
		if ix.Inline && !(spelling == 1 && len(ix.Parts) == 1) {
			var cols []string
			for _, p := range ix.Parts {
				cols = append(cols, p.Col)
			}
			defs = append(defs, "UNIQUE ("+qlist(cols)+")")
		}
	}
	for i := range t.FKs {
		fk := t.FKs[i]
		if spelling == 1 && len(fk.Cols) == 1 && inlineFK[fk.Cols[0]] == &t.FKs[i] {
			continue
		}
		s := ""
		if fk.Name != "" {
			s = "CONSTRAINT " + q(fk.Name) + " "
		}
		s += "FOREIGN KEY (" + qlist(fk.Cols) + ") REFERENCES " + q(fk.RefTable) + fk.refList() + fkActions(fk)
		defs = append(defs, s)
	}
	for _, c := range t.Checks {
		s := ""
		if c.Name != "" {
			s = "CONSTRAINT " + q(c.Name) + " "
		}
		defs = append(defs, s+"CHECK ("+c.Expr+")")
	}
	var opts []string
	if t.WithoutRowID {
		opts = append(opts, "WITHOUT ROWID")
	}
	if t.Strict {
		opts = append(opts, "STRICT")
	}
	create := "CREATE TABLE " + q(t.Name) + " (\n  " + strings.Join(defs, ",\n  ") + "\n)"
	if len(opts) > 0 {
		create += " " + strings.Join(opts, ", ")
	}
	out := []string{create}
	for _, ix := range t.Idx {
		if ix.Inline {
			continue
		}
		s := "CREATE "
		if ix.Unique {
			s += "UNIQUE "
		}
		var ps []string
		for _, p := range ix.Parts {
			x := q(p.Col)
			if p.Expr != "" {
				x = "(" + p.Expr + ")"
				if p.Bare {
					x = p.Expr
				}
			}
			if p.Desc {
				x += " DESC"
			} else if p.AscKw {
				x += " ASC"
			}
			ps = append(ps, x)
		}
		s += "INDEX " + q(ix.Name) + " ON " + q(t.Name) + " (" + strings.Join(ps, ", ") + ")"
		if ix.Where != "" && ix.LowerWhere {
			s += " where " + ix.Where
		} else if ix.Where != "" {
			s += " WHERE " + ix.Where
		}
		out = append(out, s)
	}
	return out
}

func fkActions(fk FK) string {
	s := ""
	if fk.OnUpdate != "" {
		s += " ON UPDATE " + fk.OnUpdate
	}
	if fk.OnDelete != "" {
		s += " ON DELETE " + fk.OnDelete
	}
	return s
}

func hclType(t string) string {
	// a type atlas does not know for SQLite is written as it is declared.
	if t == "Money" {
		return `sql("Money")`
	}
	return strings.ToLower(t)
}

var reBareStep = regexp.MustCompile(`^[A-Za-z_][A-Za-z0-9_]*$`)

// step renders one step of an HCL reference: .name where the name is an identifier, ["name"] otherwise.
func step(name string) string {
	if reBareStep.MatchString(name) {
		return "." + name
	}
	return "[" + hclStr(name) + "]"
}

func hclStr(s string) string {
	return `"` + strings.NewReplacer(`\`, `\\`, `"`, `\"`, "\n", `\n`, "${", "$${", "%{", "%%{").Replace(s) + `"`
}

// HCL renders the database as an Atlas HCL document (schema "main").
func (d *DB) HCL() string {
	var b strings.Builder
	b.WriteString("schema \"main\" {\n}\n")
	for _, t := range d.Tables {
		fmt.Fprintf(&b, "table %s {\n  schema = schema.main\n", hclStr(t.Name))
		for _, c := range t.Cols {
			fmt.Fprintf(&b, "  column %s {\n", hclStr(c.Name))
			fmt.Fprintf(&b, "    null = %v\n    type = %s\n", !c.NotNull && !c.AutoInc, hclType(c.Type))
			if c.Default != "" {
				switch {
				case c.DefExpr:
					fmt.Fprintf(&b, "    default = sql(%s)\n", hclStr(c.Default))
				case strings.HasPrefix(c.Default, "'"):
					fmt.Fprintf(&b, "    default = %s\n", hclStr(strings.ReplaceAll(c.Default[1:len(c.Default)-1], "''", "'")))
				case strings.HasPrefix(c.Default, "X'"):
					// a BLOB literal handed over as a plain HCL string.
					fmt.Fprintf(&b, "    default = %s\n", hclStr(c.Default))
				case strings.HasPrefix(c.Default, "\""):
					// SQLite reads a double-quoted token that names no column as a string literal.
					fmt.Fprintf(&b, "    default = %s\n", hclStr(strings.ReplaceAll(c.Default[1:len(c.Default)-1], "\"\"", "\"")))
				default:
					fmt.Fprintf(&b, "    default = %s\n", c.Default)
				}
			}
			if c.AutoInc {
				b.WriteString("    auto_increment = true\n")
			}
			if c.Gen != "" {
				kind := "VIRTUAL"
				if c.GenStored {
					kind = "STORED"
				}
				fmt.Fprintf(&b, "    as {\n      expr = %s\n      type = %s\n    }\n", hclStr(c.Gen), kind)
			}
			b.WriteString("  }\n")
		}
		if len(t.PK) > 0 {
			cols := make([]string, len(t.PK))
			for i, c := range t.PK {
				cols[i] = "column" + step(c)
			}
			fmt.Fprintf(&b, "  primary_key {\n    columns = [%s]\n  }\n", strings.Join(cols, ", "))
		}
		for _, fk := range t.FKs {
			name := fk.Name
			if name == "" {
				name = "0" // atlas' own spelling of an unnamed SQLite foreign key is its ordinal
			}
			var cols, refs []string
			for _, c := range fk.Cols {
				cols = append(cols, "column"+step(c))
			}
			for _, c := range fk.RefCols {
				if fk.RefTable == t.Name {
					refs = append(refs, "column"+step(c))
				} else {
					refs = append(refs, "table."+fk.RefTable+".column"+step(c))
				}
			}
			fmt.Fprintf(&b, "  foreign_key %s {\n    columns = [%s]\n    ref_columns = [%s]\n", hclStr(name), strings.Join(cols, ", "), strings.Join(refs, ", "))
			if fk.OnUpdate != "" {
				fmt.Fprintf(&b, "    on_update = %s\n", strings.ReplaceAll(fk.OnUpdate, " ", "_"))
			}
			if fk.OnDelete != "" {
				fmt.Fprintf(&b, "    on_delete = %s\n", strings.ReplaceAll(fk.OnDelete, " ", "_"))
			}
			b.WriteString("  }\n")
		}
		for _, ix := range t.Idx {
			fmt.Fprintf(&b, "  index %s {\n", hclStr(ix.Name))
			if ix.Unique {
				b.WriteString("    unique = true\n")
			}
			simple := true
			for _, p := range ix.Parts {
				if p.Expr != "" || p.Desc {
					simple = false
				}
			}
			if simple {
				var cols []string
				for _, p := range ix.Parts {
					cols = append(cols, "column"+step(p.Col))
				}
				fmt.Fprintf(&b, "    columns = [%s]\n", strings.Join(cols, ", "))
			} else {
				for _, p := range ix.Parts {
					b.WriteString("    on {\n")
					if p.Expr != "" {
						fmt.Fprintf(&b, "      expr = %s\n", hclStr(p.Expr))
					} else {
						fmt.Fprintf(&b, "      column = column%s\n", step(p.Col))
					}
					if p.Desc {
						b.WriteString("      desc = true\n")
					}
					b.WriteString("    }\n")
				}
			}
			if ix.Where != "" {
				fmt.Fprintf(&b, "    where = %s\n", hclStr(ix.Where))
			}
			b.WriteString("  }\n")
		}
		for _, c := range t.Checks {
			if c.Name != "" {
				fmt.Fprintf(&b, "  check %s {\n    expr = %s\n  }\n", hclStr(c.Name), hclStr(c.Expr))
			} else {
				fmt.Fprintf(&b, "  check {\n    expr = %s\n  }\n", hclStr(c.Expr))
			}
		}
		if t.WithoutRowID {
			b.WriteString("  without_rowid = true\n")
		}
		if t.Strict {
			b.WriteString("  strict = true\n")
		}
		b.WriteString("}\n")
	}
	return b.String()
}

// SortedNames is a helper for deterministic output.
func SortedNames(m map[string]bool) []string {
	var out []string
	for k := range m {
		out = append(out, k)
	}
	sort.Strings(out)
	return out
}

// HasColumn reports whether table t of the database has the column.
func (d *DB) HasColumn(table, col string) bool {
	t := d.Table(table)
	return t != nil && t.Col(col) != nil
}

// OnlyAboutColumn: every catalogue-difference line quoted in the problems ("want:/got:/original:/
// recreated:" lines) concerns the given column, and there is at least one such line.
func OnlyAboutColumn(problems []string, col string) bool {
	n := 0
	for _, p := range problems {
		for _, l := range strings.Split(p, "\n") {
			l = strings.TrimSpace(l)
			for _, pre := range []string{"want:", "got:", "original:", "recreated:", "before:", "after:"} {
				if strings.HasPrefix(l, pre) {
					if !strings.Contains(l, " column "+col+" ") {
						return false
					}
					n++
				}
			}
		}
	}
	return n > 0
}
