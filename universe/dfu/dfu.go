// Package dfu is the differ universe: per dialect a base schema built by plain
// constructor calls (called twice => two independent graphs) and a catalogue of
// elementary edits, each with the change descriptors it must produce.
package dfu

import (
	"fmt"
	"sort"
	"strings"

	"ariga.io/atlas/sql/mysql"
	"ariga.io/atlas/sql/postgres"
	"ariga.io/atlas/sql/schema"
	"ariga.io/atlas/sql/sqlite"
)

type Dialect struct {
	Name    string
	Diff    schema.Differ
	Schema  string // schema name
	Int     func() schema.Type
	BigInt  func() schema.Type
	Str     func() schema.Type
	Text    func() schema.Type
	Dec     func() schema.Type
	Comment bool // dialect has comments
}

var MySQL = &Dialect{Name: "mysql", Diff: mysql.DefaultDiff, Schema: "s1", Comment: true,
	Int:    func() schema.Type { return &schema.IntegerType{T: "int"} },
	BigInt: func() schema.Type { return &schema.IntegerType{T: "bigint"} },
	Str:    func() schema.Type { return &schema.StringType{T: "varchar", Size: 50} },
	Text:   func() schema.Type { return &schema.StringType{T: "text"} },
	Dec:    func() schema.Type { return &schema.DecimalType{T: "decimal", Precision: 10, Scale: 2} },
}

var Postgres = &Dialect{Name: "postgres", Diff: postgres.DefaultDiff, Schema: "public", Comment: true,
	Int:    func() schema.Type { return &schema.IntegerType{T: "integer"} },
	BigInt: func() schema.Type { return &schema.IntegerType{T: "bigint"} },
	Str:    func() schema.Type { return &schema.StringType{T: "character varying", Size: 50} },
	Text:   func() schema.Type { return &schema.StringType{T: "text"} },
	Dec:    func() schema.Type { return &schema.DecimalType{T: "numeric", Precision: 10, Scale: 2} },
}

var SQLite = &Dialect{Name: "sqlite", Diff: sqlite.DefaultDiff, Schema: "main",
	Int:    func() schema.Type { return &schema.IntegerType{T: "integer"} },
	BigInt: func() schema.Type { return &schema.StringType{T: "text"} }, // SQLite compares types by affinity class
	Str:    func() schema.Type { return &schema.StringType{T: "text"} },
	Text:   func() schema.Type { return &schema.StringType{T: "text"} },
	Dec:    func() schema.Type { return &schema.DecimalType{T: "decimal"} },
}

var Dialects = []*Dialect{MySQL, Postgres, SQLite}

func col(name string, t schema.Type, null bool) *schema.Column {
	return &schema.Column{Name: name, Type: &schema.ColumnType{Type: t, Null: null}}
}

func part(seq int, c *schema.Column) *schema.IndexPart { return &schema.IndexPart{SeqNo: seq, C: c} }

// Base builds the dialect's base schema (inside a realm).
func Base(d *Dialect) *schema.Schema {
	s := schema.New(d.Schema)
	r := schema.NewRealm(s)
	_ = r
	// parent
	p := schema.NewTable("p")
	pid, pk, puid := col("id", d.Int(), false), col("k", d.Int(), false), col("uid", d.Int(), false)
	p.AddColumns(pid, pk, puid)
	p.SetPrimaryKey(schema.NewPrimaryKey(pid))
	p.AddIndexes(schema.NewUniqueIndex("p_k").AddParts(part(1, pk)), schema.NewUniqueIndex("p_uid").AddParts(part(1, puid)),
		schema.NewUniqueIndex("p_k_uid").AddParts(part(1, pk), part(2, puid)))
	// bystander
	u := schema.NewTable("u")
	uuid, uv := col("uid", d.Int(), false), col("v", d.Text(), true)
	u.AddColumns(uuid, uv)
	u.SetPrimaryKey(schema.NewPrimaryKey(uuid))
	// subject
	t := schema.NewTable("t")
	id, a, b, c, dd := col("id", d.Int(), false), col("a", d.Int(), true), col("b", d.Str(), true), col("c", d.Dec(), true), col("d", d.Int(), true)
	b.SetDefault(&schema.Literal{V: "'a'"})
	z1 := col("z1", d.Int(), true)
	t.AddColumns(id, a, b, c, dd, col("z0", d.Int(), true), z1)
	t.SetPrimaryKey(schema.NewPrimaryKey(id))
	t.AddIndexes(
		schema.NewIndex("idx_a").AddParts(part(1, a)),
		schema.NewUniqueIndex("uq_b").AddParts(part(1, b)),
		schema.NewIndex("idx_ab").AddParts(part(1, a), part(2, b)),
	)
	fk := &schema.ForeignKey{Symbol: "fk_a", Table: t, Columns: []*schema.Column{a}, RefTable: p, RefColumns: []*schema.Column{pid},
		OnUpdate: schema.SetNull, OnDelete: schema.Cascade}
	fk2 := &schema.ForeignKey{Symbol: "fk_d2", Table: t, Columns: []*schema.Column{dd}, RefTable: p, RefColumns: []*schema.Column{puid}, OnDelete: schema.NoAction}
	// composite key: the pairing of columns is positional, so a permutation on one side only is a change.
	fk3 := &schema.ForeignKey{Symbol: "fk_comp", Table: t, Columns: []*schema.Column{dd, z1}, RefTable: p, RefColumns: []*schema.Column{pk, puid}, OnDelete: schema.NoAction}
	t.AddForeignKeys(fk, fk2, fk3)
	t.AddChecks(schema.NewCheck().SetName("ck_a").SetExpr("a > 0"))
	if d.Comment {
		t.SetComment("t table")
		a.SetComment("a column")
		t.Indexes[0].SetComment("idx_a index")
	}
	switch d {
	case MySQL:
		t.AddIndexes(schema.NewIndex("c").AddParts(part(1, c))) // name MySQL generates for an unnamed key on (c)
		// every level states a charset different from its parent, so nothing is inherited silently.
		s.SetCharset("utf8mb4").SetCollation("utf8mb4_0900_ai_ci")
		t.SetCharset("latin1").SetCollation("latin1_swedish_ci")
		b.SetCharset("utf8mb4").SetCollation("utf8mb4_0900_ai_ci")
		id.AddAttrs(&mysql.AutoIncrement{})
		t.AddAttrs(&mysql.AutoIncrement{V: 100}, &mysql.Engine{V: "InnoDB"})
		e := col("e", &schema.EnumType{T: "enum", Values: []string{"x", "y"}}, true)
		ts := col("ts", &schema.TimeType{T: "timestamp"}, false)
		ts.SetDefault(&schema.RawExpr{X: "CURRENT_TIMESTAMP"})
		ts.AddAttrs(&mysql.OnUpdate{A: "CURRENT_TIMESTAMP"})
		g := col("g", d.Int(), true)
		g.SetGeneratedExpr(&schema.GeneratedExpr{Expr: "a + 1", Type: "STORED"})
		// a JSON column with a check that starts like, and is named like, the check MariaDB generates for it.
		js := col("js", &schema.JSONType{T: "json"}, true)
		t.AddColumns(e, ts, g, js)
		t.AddChecks(schema.NewCheck().SetName("js").SetExpr("json_valid(`js`) and json_length(`js`) < 10"))
		t.AddIndexes(
			schema.NewIndex("idx_b_prefix").AddParts(&schema.IndexPart{SeqNo: 1, C: b, Attrs: []schema.Attr{&mysql.SubPart{Len: 10}}}),
			schema.NewIndex("idx_d").AddParts(part(1, dd)).AddAttrs(&mysql.IndexType{T: "BTREE"}),
		)
	case Postgres:
		t.AddIndexes(schema.NewUniqueIndex("t_c_key").AddParts(part(1, c))) // name PostgreSQL generates for UNIQUE (c)
		id.AddAttrs(&postgres.Identity{Generation: "ALWAYS", Sequence: &postgres.Sequence{Start: 1, Increment: 1}})
		en := &schema.EnumType{T: "status", Values: []string{"x", "y"}, Schema: s}
		s.AddObjects(en)
		e := col("e", en, true)
		g := col("g", d.Int(), true)
		g.SetGeneratedExpr(&schema.GeneratedExpr{Expr: "a + 1", Type: "STORED"})
		// a column of an extension / user-defined type, and an array of the enum.
		ud := col("ud", &postgres.UserDefinedType{T: "ltree"}, true)
		ea := col("ea", &postgres.ArrayType{Type: en, T: "status[]"}, true)
		// bit strings: "bit varying" without a length is unlimited, "bit" without a length is bit(1).
		bv := col("bv", &postgres.BitType{T: "bit varying"}, true)
		bt := col("bt", &postgres.BitType{T: "bit", Len: 1}, true)
		t.AddColumns(e, g, ud, ea, bv, bt)
		t.AddIndexes(
			schema.NewIndex("idx_d_inc").AddParts(part(1, dd)).AddAttrs(&postgres.IndexInclude{Columns: []*schema.Column{c}}),
			schema.NewIndex("idx_d_part").AddParts(part(1, dd)).AddAttrs(&postgres.IndexPredicate{P: "d > 0"}),
			schema.NewIndex("idx_d_hash").AddParts(part(1, dd)).AddAttrs(&postgres.IndexType{T: "HASH"}),
			// operator classes: the access method's default one is spelled out (and must be treated as absent),
			// first on an index without a method, then on one with a method whose defaults differ.
			schema.NewIndex("idx_a_ops").AddParts(&schema.IndexPart{SeqNo: 1, C: a, Attrs: []schema.Attr{&postgres.IndexOpClass{Name: "int4_ops"}}}),
			schema.NewIndex("idx_d_brin").AddParts(&schema.IndexPart{SeqNo: 1, C: dd, Attrs: []schema.Attr{&postgres.IndexOpClass{Name: "int4_minmax_ops"}}}).AddAttrs(&postgres.IndexType{T: "BRIN"}),
			schema.NewIndex("idx_b_pattern").AddParts(&schema.IndexPart{SeqNo: 1, C: b, Attrs: []schema.Attr{&postgres.IndexOpClass{Name: "text_pattern_ops"}}}),
		)
		s.SetComment("schema comment")
	case SQLite:
		g := col("g", d.Int(), true)
		g.SetGeneratedExpr(&schema.GeneratedExpr{Expr: "a + 1", Type: "STORED"})
		t.AddColumns(g)
		t.AddIndexes(schema.NewIndex("idx_d_part").AddParts(part(1, dd)).AddAttrs(&sqlite.IndexPredicate{P: "d > 0"}))
		t.AddChecks(schema.NewCheck().SetExpr("d < 100")) // unnamed check
		// two unnamed foreign keys, as SQLite reports them: numbered in reverse declaration order.
		r1, r2 := col("r1", d.Int(), true), col("r2", d.Int(), true)
		u.AddColumns(r1, r2)
		u.AddForeignKeys(
			&schema.ForeignKey{Symbol: "0", Table: u, Columns: []*schema.Column{r2}, RefTable: p, RefColumns: []*schema.Column{pk}, OnDelete: schema.NoAction, OnUpdate: schema.NoAction},
			&schema.ForeignKey{Symbol: "1", Table: u, Columns: []*schema.Column{r1}, RefTable: p, RefColumns: []*schema.Column{pid}, OnDelete: schema.NoAction, OnUpdate: schema.NoAction},
		)
	}
	s.AddTables(p, u, t)
	return s
}

// ---------- helpers on a graph ----------

func T(s *schema.Schema, n string) *schema.Table { t, _ := s.Table(n); return t }
func C(t *schema.Table, n string) *schema.Column { c, _ := t.Column(n); return c }
func I(t *schema.Table, n string) *schema.Index  { i, _ := t.Index(n); return i }
func F(t *schema.Table, n string) *schema.ForeignKey {
	f, _ := t.ForeignKey(n)
	return f
}

func dropCol(t *schema.Table, n string) {
	for i, c := range t.Columns {
		if c.Name == n {
			t.Columns = append(t.Columns[:i:i], t.Columns[i+1:]...)
			return
		}
	}
}

func dropIdx(t *schema.Table, n string) {
	for i, c := range t.Indexes {
		if c.Name == n {
			t.Indexes = append(t.Indexes[:i:i], t.Indexes[i+1:]...)
			return
		}
	}
}

func dropFK(t *schema.Table, n string) {
	for i, c := range t.ForeignKeys {
		if c.Symbol == n {
			t.ForeignKeys = append(t.ForeignKeys[:i:i], t.ForeignKeys[i+1:]...)
			return
		}
	}
}

func dropTable(s *schema.Schema, n string) {
	for i, c := range s.Tables {
		if c.Name == n {
			s.Tables = append(s.Tables[:i:i], s.Tables[i+1:]...)
			return
		}
	}
}

func checkOf(t *schema.Table, name string) (*schema.Check, int) {
	for i, a := range t.Attrs {
		if c, ok := a.(*schema.Check); ok && c.Name == name {
			return c, i
		}
	}
	return nil, -1
}

func dropAttr[A schema.Attr](attrs []schema.Attr) []schema.Attr {
	var out []schema.Attr
	for _, a := range attrs {
		if _, ok := a.(A); !ok {
			out = append(out, a)
		}
	}
	return out
}

// Edit is one elementary edit of the desired schema.
type Edit struct {
	Name    string
	Touches []string // elements touched: two edits touching the same element are not combined
	Apply   func(s *schema.Schema)
	Expect  []string // flattened change descriptors this edit alone must produce (nil = no change)
}

func mt(sub string) string { return "ModifyTable(t)/" + sub }

// Edits returns the dialect's catalogue.
func Edits(d *Dialect) []Edit {
	es := []Edit{
		{"add_table", []string{"table:x"}, func(s *schema.Schema) {
			x := schema.NewTable("x")
			xc := col("id", d.Int(), false)
			x.AddColumns(xc).SetPrimaryKey(schema.NewPrimaryKey(xc))
			s.AddTables(x)
		}, []string{"AddTable(x)"}},
		{"drop_table", []string{"table:u"}, func(s *schema.Schema) { dropTable(s, "u") }, []string{"DropTable(u)"}},
		{"add_column", []string{"col:z"}, func(s *schema.Schema) { T(s, "t").AddColumns(col("z", d.Int(), true)) }, []string{mt("AddColumn(z)")}},
		{"drop_column", []string{"col:z0"}, func(s *schema.Schema) { dropCol(T(s, "t"), "z0") }, []string{mt("DropColumn(z0)")}},
		{"col_null_to_notnull", []string{"col:d"}, func(s *schema.Schema) { C(T(s, "t"), "d").Type.Null = false }, []string{mt("ModifyColumn(d)[null]")}},
		{"col_type", []string{"col:d"}, func(s *schema.Schema) { C(T(s, "t"), "d").Type.Type = d.BigInt() }, []string{mt("ModifyColumn(d)[type]")}},
		{"col_default_changed", []string{"col:b"}, func(s *schema.Schema) { C(T(s, "t"), "b").Default = &schema.Literal{V: "'b'"} }, []string{mt("ModifyColumn(b)[default]")}},
		// a raw default expression whose text holds the template markers of HCL.
		{"col_default_raw_expr_with_template_markers", []string{"col:b"}, func(s *schema.Schema) {
			C(T(s, "t"), "b").Default = &schema.RawExpr{X: "concat('${', 'x %{y}')"}
		}, []string{mt("ModifyColumn(b)[default]")}},
		{"col_default_removed", []string{"col:b"}, func(s *schema.Schema) { C(T(s, "t"), "b").Default = nil }, []string{mt("ModifyColumn(b)[default]")}},
		{"col_default_added", []string{"col:d"}, func(s *schema.Schema) { C(T(s, "t"), "d").Default = &schema.Literal{V: "5"} }, []string{mt("ModifyColumn(d)[default]")}},
		// a non-integer numeric default with more digits than a float prints by default.
		{"col_default_many_digits", []string{"col:c"}, func(s *schema.Schema) {
			C(T(s, "t"), "c").Default = &schema.Literal{V: "3.14159265358979"}
		}, []string{mt("ModifyColumn(c)[default]")}},
		// a numeric default spelled with an exponent (what SQLite reports for DEFAULT 1e3).
		{"col_default_exponent", []string{"col:c"}, func(s *schema.Schema) {
			C(T(s, "t"), "c").Default = &schema.Literal{V: "1e3"}
		}, []string{mt("ModifyColumn(c)[default]")}},
		{"col_null_and_default", []string{"col:d"}, func(s *schema.Schema) {
			c := C(T(s, "t"), "d")
			c.Type.Null = false
			c.Default = &schema.Literal{V: "5"}
		}, []string{mt("ModifyColumn(d)[default,null]")}},
		{"add_index", []string{"idx:idx_c", "col:c"}, func(s *schema.Schema) {
			t := T(s, "t")
			t.AddIndexes(schema.NewIndex("idx_c").AddParts(part(1, C(t, "c"))))
		}, []string{mt("AddIndex(idx_c)")}},
		{"drop_index", []string{"idx:idx_a"}, func(s *schema.Schema) { dropIdx(T(s, "t"), "idx_a") }, []string{mt("DropIndex(idx_a)")}},
		{"index_unique", []string{"idx:idx_a"}, func(s *schema.Schema) { I(T(s, "t"), "idx_a").Unique = true }, []string{mt("ModifyIndex(idx_a)[unique]")}},
		{"index_parts_order", []string{"idx:idx_ab"}, func(s *schema.Schema) {
			i := I(T(s, "t"), "idx_ab")
			i.Parts[0].C, i.Parts[1].C = i.Parts[1].C, i.Parts[0].C
		}, []string{mt("ModifyIndex(idx_ab)[parts]")}},
		{"index_part_desc", []string{"idx:idx_ab"}, func(s *schema.Schema) { I(T(s, "t"), "idx_ab").Parts[1].Desc = true }, []string{mt("ModifyIndex(idx_ab)[parts]")}},
		{"index_part_added", []string{"idx:idx_ab"}, func(s *schema.Schema) {
			t := T(s, "t")
			I(t, "idx_ab").AddParts(part(3, C(t, "d")))
		}, []string{mt("ModifyIndex(idx_ab)[parts]")}},
		{"index_part_to_expr", []string{"idx:idx_ab"}, func(s *schema.Schema) {
			p := I(T(s, "t"), "idx_ab").Parts[1]
			p.C, p.X = nil, &schema.RawExpr{X: "(a + 1)"}
		}, []string{mt("ModifyIndex(idx_ab)[parts]")}},
		// an index part that is an expression and descending at the same time.
		{"index_part_to_expr_desc", []string{"idx:idx_ab"}, func(s *schema.Schema) {
			p := I(T(s, "t"), "idx_ab").Parts[1]
			p.C, p.X, p.Desc = nil, &schema.RawExpr{X: "(a + 1)"}, true
		}, []string{mt("ModifyIndex(idx_ab)[parts]")}},
		{"pk_dropped", []string{"pk"}, func(s *schema.Schema) { T(s, "t").PrimaryKey = nil }, []string{mt("DropPrimaryKey")}},
		{"pk_parts", []string{"pk"}, func(s *schema.Schema) {
			t := T(s, "t")
			t.PrimaryKey.AddParts(part(2, C(t, "d")))
		}, []string{mt("ModifyPrimaryKey[parts]")}},
		{"add_fk", []string{"fk:fk_new", "fk-d-to-k"}, func(s *schema.Schema) {
			t, p := T(s, "t"), T(s, "p")
			t.AddForeignKeys(&schema.ForeignKey{Symbol: "fk_new", Table: t, Columns: []*schema.Column{C(t, "d")}, RefTable: p, RefColumns: []*schema.Column{C(p, "k")}, OnDelete: schema.SetNull})
		}, []string{mt("AddForeignKey(fk_new)")}},
		{"drop_fk", []string{"fk:fk_a"}, func(s *schema.Schema) { dropFK(T(s, "t"), "fk_a") }, []string{mt("DropForeignKey(fk_a)")}},
		{"fk_delete_action", []string{"fk:fk_a"}, func(s *schema.Schema) { F(T(s, "t"), "fk_a").OnDelete = schema.SetNull }, []string{mt("ModifyForeignKey(fk_a)[delete_action]")}},
		{"fk_update_action", []string{"fk:fk_a"}, func(s *schema.Schema) { F(T(s, "t"), "fk_a").OnUpdate = schema.Cascade }, []string{mt("ModifyForeignKey(fk_a)[update_action]")}},
		{"fk_both_actions", []string{"fk:fk_a"}, func(s *schema.Schema) {
			f := F(T(s, "t"), "fk_a")
			f.OnUpdate, f.OnDelete = schema.Cascade, schema.SetNull
		}, []string{mt("ModifyForeignKey(fk_a)[delete_action,update_action]")}},
		{"fk_ref_column", []string{"fk:fk_a"}, func(s *schema.Schema) {
			F(T(s, "t"), "fk_a").RefColumns = []*schema.Column{C(T(s, "p"), "k")}
		}, []string{mt("ModifyForeignKey(fk_a)[ref_column]")}},
		{"fk_column", []string{"fk:fk_a"}, func(s *schema.Schema) {
			t := T(s, "t")
			F(t, "fk_a").Columns = []*schema.Column{C(t, "d")}
		}, []string{mt("ModifyForeignKey(fk_a)[column]")}},
		{"fk_comp_columns_permuted", []string{"fk:fk_comp"}, func(s *schema.Schema) {
			f := F(T(s, "t"), "fk_comp")
			f.Columns = []*schema.Column{f.Columns[1], f.Columns[0]}
		}, []string{mt("ModifyForeignKey(fk_comp)[column]")}},
		{"fk_comp_ref_columns_permuted", []string{"fk:fk_comp"}, func(s *schema.Schema) {
			f := F(T(s, "t"), "fk_comp")
			f.RefColumns = []*schema.Column{f.RefColumns[1], f.RefColumns[0]}
		}, []string{mt("ModifyForeignKey(fk_comp)[ref_column]")}},
		{"fk_comp_column_replaced", []string{"fk:fk_comp"}, func(s *schema.Schema) {
			t := T(s, "t")
			F(t, "fk_comp").Columns[1] = C(t, "a")
		}, []string{mt("ModifyForeignKey(fk_comp)[column]")}},
		// (shares a tag with add_fk: together they would declare the same key twice under two names)
		{"fk_comp_column_removed", []string{"fk:fk_comp", "fk-d-to-k"}, func(s *schema.Schema) {
			f := F(T(s, "t"), "fk_comp")
			f.Columns, f.RefColumns = f.Columns[:1], f.RefColumns[:1]
		}, []string{mt("ModifyForeignKey(fk_comp)[column,ref_column]")}},
		{"fk_ref_table", []string{"fk:fk_a", "table:u"}, func(s *schema.Schema) {
			f, u := F(T(s, "t"), "fk_a"), T(s, "u")
			f.RefTable, f.RefColumns = u, []*schema.Column{C(u, "uid")}
		}, []string{mt("ModifyForeignKey(fk_a)[ref_column,ref_table]")}},
		{"add_check", []string{"check:ck_c", "col:c"}, func(s *schema.Schema) { T(s, "t").AddChecks(schema.NewCheck().SetName("ck_c").SetExpr("c > 0")) }, []string{mt("AddCheck(ck_c)")}},
		// an unnamed check (its addition cannot be reversed) followed by a named one in the same ALTER.
		{"add_unnamed_then_named_check", []string{"check:ck_d", "check:unnamed", "col:d"}, func(s *schema.Schema) {
			T(s, "t").AddChecks(schema.NewCheck().SetExpr("d > 1"), schema.NewCheck().SetName("ck_d").SetExpr("d > 2"))
		}, []string{mt("AddCheck()"), mt("AddCheck(ck_d)")}},
		{"drop_check", []string{"check:ck_a"}, func(s *schema.Schema) {
			t := T(s, "t")
			_, i := checkOf(t, "ck_a")
			t.Attrs = append(t.Attrs[:i:i], t.Attrs[i+1:]...)
		}, []string{mt("DropCheck(ck_a)")}},
		{"modify_check", []string{"check:ck_a"}, func(s *schema.Schema) {
			c, _ := checkOf(T(s, "t"), "ck_a")
			c.Expr = "a > 1"
		}, []string{mt("ModifyCheck(ck_a)")}},
		// a named check is modified while an unnamed check with the named one's old expression is
		// declared in front of it: each desired check has its own counterpart (or none).
		{"modify_check_behind_unnamed_twin_of_its_old_self", []string{"check:ck_a", "check:unnamed", "check:"}, func(s *schema.Schema) {
			t := T(s, "t")
			c, i := checkOf(t, "ck_a")
			twin := schema.NewCheck().SetExpr(c.Expr)
			c.Expr = "a > 1"
			t.Attrs = append(t.Attrs[:i:i], append([]schema.Attr{twin}, t.Attrs[i:]...)...)
		}, []string{mt("ModifyCheck(ck_a)"), mt("AddCheck()")}},
		{"check_renamed", []string{"check:ck_a"}, func(s *schema.Schema) {
			c, _ := checkOf(T(s, "t"), "ck_a")
			c.Name = "ck_a2"
		}, []string{mt("DropCheck(ck_a)"), mt("AddCheck(ck_a2)")}},
		{"col_type_and_default", []string{"col:d"}, func(s *schema.Schema) {
			c := C(T(s, "t"), "d")
			c.Type.Type = d.BigInt()
			c.Default = &schema.Literal{V: "5"}
		}, []string{mt("ModifyColumn(d)[default,type]")}},
		{"col_null_type_default", []string{"col:d"}, func(s *schema.Schema) {
			c := C(T(s, "t"), "d")
			c.Type.Null = false
			c.Type.Type = d.BigInt()
			c.Default = &schema.Literal{V: "5"}
		}, []string{mt("ModifyColumn(d)[default,null,type]")}},
		{"index_unique_and_parts", []string{"idx:idx_ab"}, func(s *schema.Schema) {
			i := I(T(s, "t"), "idx_ab")
			i.Unique = true
			i.Parts[1].Desc = true
		}, []string{mt("ModifyIndex(idx_ab)[parts,unique]")}},
		{"col_generated_changed", []string{"col:g"}, func(s *schema.Schema) {
			c := C(T(s, "t"), "g")
			c.Attrs = dropAttr[*schema.GeneratedExpr](c.Attrs)
			c.SetGeneratedExpr(&schema.GeneratedExpr{Expr: "a + 2", Type: "STORED"})
		}, []string{mt("ModifyColumn(g)[generated]")}},
	}
	// text-like columns whose default is a bare literal that looks like a number but is not in canonical
	// form: its exact spelling is the value (what evaluating `default = "007"` from HCL produces).
	for i, lit := range []string{"007", "2.50", "1e3"} {
		lit := lit
		es = append(es, Edit{fmt.Sprintf("str_default_numeric_like_%d", i), []string{"col:b"}, func(s *schema.Schema) {
			C(T(s, "t"), "b").Default = &schema.Literal{V: lit}
		}, []string{mt("ModifyColumn(b)[default]")}})
		if d != SQLite {
			es = append(es, Edit{fmt.Sprintf("enum_default_numeric_like_%d", i), []string{"col:e", "enum:status"}, func(s *schema.Schema) {
				c := C(T(s, "t"), "e")
				et := c.Type.Type.(*schema.EnumType)
				et.Values = append(et.Values, lit)
				c.Default = &schema.Literal{V: lit}
			}, map[*Dialect][]string{MySQL: {mt("ModifyColumn(e)[default,type]")}, Postgres: {"ModifyObject(status)", mt("ModifyColumn(e)[default]")}}[d]})
		}
	}
	if d != Postgres {
		// same expression, other storage kind (PostgreSQL has STORED only).
		es = append(es, Edit{"col_generated_kind", []string{"col:g"}, func(s *schema.Schema) {
			c := C(T(s, "t"), "g")
			c.Attrs = dropAttr[*schema.GeneratedExpr](c.Attrs)
			c.SetGeneratedExpr(&schema.GeneratedExpr{Expr: "a + 1", Type: "VIRTUAL"})
		}, []string{mt("ModifyColumn(g)[generated]")}})
	}
	if d == Postgres {
		// PostgreSQL cannot change a generation expression in place: the differ reports an error.
		for i := range es {
			if es[i].Name == "col_generated_changed" {
				es[i].Expect = []string{"ERROR"}
			}
		}
		es = append(es, Edit{"col_generated_dropped", []string{"col:g"}, func(s *schema.Schema) {
			c := C(T(s, "t"), "g")
			c.Attrs = dropAttr[*schema.GeneratedExpr](c.Attrs)
		}, []string{mt("ModifyColumn(g)[generated]")}})
	}
	if d.Comment {
		es = append(es,
			Edit{"col_comment", []string{"col:a"}, func(s *schema.Schema) {
				c := C(T(s, "t"), "a")
				c.Attrs = dropAttr[*schema.Comment](c.Attrs)
				c.SetComment("other")
			}, []string{mt("ModifyColumn(a)[comment]")}},
			Edit{"index_comment", []string{"idx:idx_a"}, func(s *schema.Schema) {
				i := I(T(s, "t"), "idx_a")
				i.Attrs = dropAttr[*schema.Comment](i.Attrs)
				i.SetComment("other")
			}, []string{mt("ModifyIndex(idx_a)[comment]")}},
			Edit{"col_comment_and_null", []string{"col:a"}, func(s *schema.Schema) {
				c := C(T(s, "t"), "a")
				c.Attrs = dropAttr[*schema.Comment](c.Attrs)
				c.SetComment("other")
				c.Type.Null = false
			}, []string{mt("ModifyColumn(a)[comment,null]")}},
			Edit{"index_comment_and_unique", []string{"idx:idx_a"}, func(s *schema.Schema) {
				i := I(T(s, "t"), "idx_a")
				i.Attrs = dropAttr[*schema.Comment](i.Attrs)
				i.SetComment("other")
				i.Unique = true
			}, []string{mt("ModifyIndex(idx_a)[comment,unique]")}},
			Edit{"table_comment_modified", []string{"tattr:comment"}, func(s *schema.Schema) {
				t := T(s, "t")
				t.Attrs = dropAttr[*schema.Comment](t.Attrs)
				t.SetComment("other")
			}, []string{mt("ModifyAttr(Comment)")}},
			Edit{"table_comment_dropped", []string{"tattr:comment"}, func(s *schema.Schema) {
				t := T(s, "t")
				t.Attrs = dropAttr[*schema.Comment](t.Attrs)
			}, []string{mt("ModifyAttr(Comment)")}},
			Edit{"table_comment_added_on_u", []string{"table:u"}, func(s *schema.Schema) { T(s, "u").SetComment("u table") }, []string{"ModifyTable(u)/AddAttr(Comment)"}},
		)
	}
	switch d {
	case MySQL:
		es = append(es,
			Edit{"col_charset_collate", []string{"col:b"}, func(s *schema.Schema) {
				c := C(T(s, "t"), "b")
				c.Attrs = dropAttr[*schema.Collation](dropAttr[*schema.Charset](c.Attrs))
				c.SetCharset("ascii").SetCollation("ascii_general_ci")
			}, []string{mt("ModifyColumn(b)[charset,collate]")}},
			// the column keeps the table's charset and overrides only its collation.
			Edit{"col_collate_only", []string{"col:b"}, func(s *schema.Schema) {
				c := C(T(s, "t"), "b")
				c.Attrs = dropAttr[*schema.Collation](dropAttr[*schema.Charset](c.Attrs))
				c.SetCharset("latin1").SetCollation("latin1_bin")
			}, []string{mt("ModifyColumn(b)[charset,collate]")}},
			Edit{"table_charset_collate", []string{"tattr:charset"}, func(s *schema.Schema) {
				t := T(s, "t")
				t.Attrs = dropAttr[*schema.Collation](dropAttr[*schema.Charset](t.Attrs))
				t.SetCharset("ascii").SetCollation("ascii_general_ci")
			}, []string{mt("ModifyAttr(Charset)"), mt("ModifyAttr(Collation)")}},
			Edit{"engine", []string{"tattr:engine"}, func(s *schema.Schema) {
				t := T(s, "t")
				t.Attrs = dropAttr[*mysql.Engine](t.Attrs)
				t.AddAttrs(&mysql.Engine{V: "MyISAM"})
			}, []string{mt("ModifyAttr(Engine)")}},
			Edit{"table_auto_increment_raised", []string{"tattr:autoinc"}, func(s *schema.Schema) {
				t := T(s, "t")
				t.Attrs = dropAttr[*mysql.AutoIncrement](t.Attrs)
				t.AddAttrs(&mysql.AutoIncrement{V: 200})
			}, []string{mt("ModifyAttr(AutoIncrement)")}},
			Edit{"index_prefix", []string{"idx:idx_b_prefix"}, func(s *schema.Schema) {
				I(T(s, "t"), "idx_b_prefix").Parts[0].Attrs = []schema.Attr{&mysql.SubPart{Len: 20}}
			}, []string{mt("ModifyIndex(idx_b_prefix)[parts]")}},
			// a column goes together with the index over it (MySQL drops that index implicitly), and the
			// same ALTER adds another index afterwards.
			Edit{"drop_indexed_column_and_add_index", []string{"col:c", "idx:c", "idx:idx_after", "col:d"}, func(s *schema.Schema) {
				t := T(s, "t")
				dropIdx(t, "c")
				dropCol(t, "c")
				t.AddIndexes(schema.NewIndex("idx_after").AddParts(part(1, C(t, "d"))))
			}, []string{mt("DropColumn(c)"), mt("DropIndex(c)"), mt("AddIndex(idx_after)")}},
			// primary-key parts that cannot be written as a plain column list: a prefix, a descending part.
			Edit{"pk_part_with_prefix", []string{"pk", "col:b"}, func(s *schema.Schema) {
				t := T(s, "t")
				t.PrimaryKey.AddParts(&schema.IndexPart{SeqNo: 2, C: C(t, "b"), Attrs: []schema.Attr{&mysql.SubPart{Len: 8}}})
			}, []string{mt("ModifyPrimaryKey[parts]")}},
			Edit{"pk_part_desc", []string{"pk"}, func(s *schema.Schema) { T(s, "t").PrimaryKey.Parts[0].Desc = true }, []string{mt("ModifyPrimaryKey[parts]")}},
			Edit{"index_type", []string{"idx:idx_d"}, func(s *schema.Schema) {
				I(T(s, "t"), "idx_d").Attrs = []schema.Attr{&mysql.IndexType{T: "HASH"}}
			}, []string{mt("ModifyIndex(idx_d)[attr]")}},
			Edit{"enum_value_with_template_markers", []string{"col:e"}, func(s *schema.Schema) {
				C(T(s, "t"), "e").Type.Type = &schema.EnumType{T: "enum", Values: []string{"x", "y", "${c} %{d}"}}
			}, []string{mt("ModifyColumn(e)[type]")}},
			Edit{"enum_values", []string{"col:e"}, func(s *schema.Schema) {
				C(T(s, "t"), "e").Type.Type = &schema.EnumType{T: "enum", Values: []string{"x", "y", "z"}}
			}, []string{mt("ModifyColumn(e)[type]")}},
			Edit{"json_check_named_like_its_column_dropped", []string{"check:js"}, func(s *schema.Schema) {
				t := T(s, "t")
				_, i := checkOf(t, "js")
				t.Attrs = append(t.Attrs[:i:i], t.Attrs[i+1:]...)
			}, []string{mt("DropCheck(js)")}},
			Edit{"check_not_enforced", []string{"check:ck_a"}, func(s *schema.Schema) {
				c, _ := checkOf(T(s, "t"), "ck_a")
				c.AddAttrs(&mysql.Enforced{V: false})
			}, []string{mt("ModifyCheck(ck_a)")}},
			Edit{"col_auto_increment_dropped", []string{"col:id", "mysql-col-attr"}, func(s *schema.Schema) {
				c := C(T(s, "t"), "id")
				c.Attrs = dropAttr[*mysql.AutoIncrement](c.Attrs)
			}, []string{mt("ModifyColumn(id)[attr]")}},
			Edit{"col_on_update_dropped", []string{"col:ts", "mysql-col-attr"}, func(s *schema.Schema) {
				c := C(T(s, "t"), "ts")
				c.Attrs = dropAttr[*mysql.OnUpdate](c.Attrs)
			}, []string{mt("ModifyColumn(ts)[attr]")}},
			Edit{"generated_name_index_unnamed_unique", []string{"idx:c"}, func(s *schema.Schema) {
				i := I(T(s, "t"), "c")
				i.Name, i.Unique = "", true
			}, []string{mt("DropIndex(c)"), mt("AddIndex()")}},
			Edit{"schema_charset_collate", []string{"schema"}, func(s *schema.Schema) {
				s.Attrs = dropAttr[*schema.Collation](dropAttr[*schema.Charset](s.Attrs))
				s.SetCharset("cp1251").SetCollation("cp1251_general_ci")
			}, []string{"ModifySchema(s1)/ModifyAttr(Charset)", "ModifySchema(s1)/ModifyAttr(Collation)"}},
		)
	case Postgres:
		es = append(es,
			Edit{"user_defined_type_changed", []string{"col:ud"}, func(s *schema.Schema) {
				C(T(s, "t"), "ud").Type.Type = &postgres.UserDefinedType{T: "citext"}
			}, []string{mt("ModifyColumn(ud)[type]")}},
			// the NULLS ordering of an index part, on a part without an operator class.
			Edit{"index_part_desc_nulls_last", []string{"idx:idx_a"}, func(s *schema.Schema) {
				p := I(T(s, "t"), "idx_a").Parts[0]
				p.Desc = true
				p.Attrs = append(p.Attrs, &postgres.IndexColumnProperty{NullsLast: true})
			}, []string{mt("ModifyIndex(idx_a)[parts]")}},
			Edit{"index_part_asc_nulls_first", []string{"idx:idx_a"}, func(s *schema.Schema) {
				p := I(T(s, "t"), "idx_a").Parts[0]
				p.Attrs = append(p.Attrs, &postgres.IndexColumnProperty{NullsFirst: true})
			}, []string{mt("ModifyIndex(idx_a)[parts]")}},
			// NULLS NOT DISTINCT spelled on the desired side only (the current side says nothing, i.e. distinct).
			Edit{"unique_index_nulls_not_distinct", []string{"idx:uq_b"}, func(s *schema.Schema) {
				I(T(s, "t"), "uq_b").AddAttrs(&postgres.IndexNullsDistinct{V: false})
			}, []string{mt("ModifyIndex(uq_b)[attr]")}},
			Edit{"varbit_unlimited_to_len_1", []string{"col:bv"}, func(s *schema.Schema) { C(T(s, "t"), "bv").Type.Type = &postgres.BitType{T: "bit varying", Len: 1} }, []string{mt("ModifyColumn(bv)[type]")}},
			Edit{"varbit_unlimited_to_len_8", []string{"col:bv"}, func(s *schema.Schema) { C(T(s, "t"), "bv").Type.Type = &postgres.BitType{T: "bit varying", Len: 8} }, []string{mt("ModifyColumn(bv)[type]")}},
			Edit{"bit_1_to_bit_8", []string{"col:bt"}, func(s *schema.Schema) { C(T(s, "t"), "bt").Type.Type = &postgres.BitType{T: "bit", Len: 8} }, []string{mt("ModifyColumn(bt)[type]")}},
			Edit{"enum_array_to_text_array", []string{"col:ea"}, func(s *schema.Schema) {
				C(T(s, "t"), "ea").Type.Type = &postgres.ArrayType{Type: &schema.StringType{T: "text"}, T: "text[]"}
			}, []string{mt("ModifyColumn(ea)[type]")}},
			// two kinds of change on one column at once: the flags must accumulate.
			Edit{"identity_and_type_and_comment", []string{"col:id"}, func(s *schema.Schema) {
				c := C(T(s, "t"), "id")
				c.Attrs = dropAttr[*postgres.Identity](c.Attrs)
				c.AddAttrs(&postgres.Identity{Generation: "BY DEFAULT", Sequence: &postgres.Sequence{Start: 1, Increment: 1}})
				c.Type.Type = d.BigInt()
				c.SetComment("id column")
			}, []string{mt("ModifyColumn(id)[attr,comment,type]")}},
			Edit{"identity_changed", []string{"col:id"}, func(s *schema.Schema) {
				c := C(T(s, "t"), "id")
				c.Attrs = dropAttr[*postgres.Identity](c.Attrs)
				c.AddAttrs(&postgres.Identity{Generation: "BY DEFAULT", Sequence: &postgres.Sequence{Start: 1, Increment: 1}})
			}, []string{mt("ModifyColumn(id)[attr]")}},
			Edit{"identity_increment", []string{"col:id"}, func(s *schema.Schema) {
				c := C(T(s, "t"), "id")
				c.Attrs = dropAttr[*postgres.Identity](c.Attrs)
				c.AddAttrs(&postgres.Identity{Generation: "ALWAYS", Sequence: &postgres.Sequence{Start: 1, Increment: 5}})
			}, []string{mt("ModifyColumn(id)[attr]")}},
			Edit{"identity_dropped", []string{"col:id"}, func(s *schema.Schema) {
				c := C(T(s, "t"), "id")
				c.Attrs = dropAttr[*postgres.Identity](c.Attrs)
			}, []string{mt("ModifyColumn(id)[attr]")}},
			Edit{"index_include", []string{"idx:idx_d_inc"}, func(s *schema.Schema) {
				t := T(s, "t")
				I(t, "idx_d_inc").Attrs = []schema.Attr{&postgres.IndexInclude{Columns: []*schema.Column{C(t, "a")}}}
			}, []string{mt("ModifyIndex(idx_d_inc)[attr]")}},
			Edit{"index_predicate", []string{"idx:idx_d_part"}, func(s *schema.Schema) {
				I(T(s, "t"), "idx_d_part").Attrs = []schema.Attr{&postgres.IndexPredicate{P: "d > 1"}}
			}, []string{mt("ModifyIndex(idx_d_part)[attr]")}},
			Edit{"index_predicate_template_chars", []string{"idx:idx_d_part"}, func(s *schema.Schema) {
				I(T(s, "t"), "idx_d_part").Attrs = []schema.Attr{&postgres.IndexPredicate{P: "b <> '%{x}' AND b <> '${y}'"}}
			}, []string{mt("ModifyIndex(idx_d_part)[attr]")}},
			Edit{"index_type", []string{"idx:idx_d_hash"}, func(s *schema.Schema) {
				I(T(s, "t"), "idx_d_hash").Attrs = []schema.Attr{&postgres.IndexType{T: "BTREE"}}
			}, []string{mt("ModifyIndex(idx_d_hash)[attr]")}},
			Edit{"enum_value_added", []string{"enum:status"}, func(s *schema.Schema) {
				s.Objects[0].(*schema.EnumType).Values = []string{"x", "y", "z"}
			}, []string{"ModifyObject(status)"}},
			Edit{"enum_added", []string{"enum:mood"}, func(s *schema.Schema) {
				s.AddObjects(&schema.EnumType{T: "mood", Values: []string{"ok"}, Schema: s})
			}, []string{"AddObject(mood)"}},
			Edit{"check_no_inherit", []string{"check:ck_a"}, func(s *schema.Schema) {
				c, _ := checkOf(T(s, "t"), "ck_a")
				c.AddAttrs(&postgres.NoInherit{})
			}, []string{mt("ModifyCheck(ck_a)")}},
			Edit{"generated_name_index_unnamed_nonunique", []string{"idx:t_c_key"}, func(s *schema.Schema) {
				i := I(T(s, "t"), "t_c_key")
				i.Name, i.Unique = "", false
			}, []string{mt("DropIndex(t_c_key)"), mt("AddIndex()")}},
			Edit{"schema_comment", []string{"schema"}, func(s *schema.Schema) {
				s.Attrs = dropAttr[*schema.Comment](s.Attrs)
				s.SetComment("other")
			}, []string{"ModifySchema(public)/ModifyAttr(Comment)"}},
		)
	case SQLite:
		es = append(es,
			// in SQLite RESTRICT is not NO ACTION (it fires immediately, even for deferred constraints).
			Edit{"fk_delete_action_restrict", []string{"fk:fk_d2"}, func(s *schema.Schema) { F(T(s, "t"), "fk_d2").OnDelete = schema.Restrict }, []string{mt("ModifyForeignKey(fk_d2)[delete_action]")}},
			Edit{"fk_update_action_restrict", []string{"fk:fk_d2"}, func(s *schema.Schema) { F(T(s, "t"), "fk_d2").OnUpdate = schema.Restrict }, []string{mt("ModifyForeignKey(fk_d2)[update_action]")}},
			// a named foreign key moves to another column and a new key takes over its old columns.
			Edit{"fk_moved_and_new_fk_over_its_old_columns", []string{"fk:fk_a", "fk:fk_b", "col:z0", "col:a"}, func(s *schema.Schema) {
				t, p := T(s, "t"), T(s, "p")
				F(t, "fk_a").Columns = []*schema.Column{C(t, "z0")}
				t.AddForeignKeys(&schema.ForeignKey{Symbol: "fk_b", Table: t, Columns: []*schema.Column{C(t, "a")}, RefTable: p, RefColumns: []*schema.Column{C(p, "id")},
					OnUpdate: schema.SetNull, OnDelete: schema.Cascade})
			}, []string{mt("ModifyForeignKey(fk_a)[column]"), mt("AddForeignKey(fk_b)")}},
			// the last declared unnamed foreign key (ordinal 0) is dropped: a fresh inspection numbers the
			// remaining one 0.
			Edit{"unnamed_fk_last_declared_dropped", []string{"table:u"}, func(s *schema.Schema) {
				u := T(s, "u")
				dropFK(u, "0")
				F(u, "1").Symbol = "0"
			}, []string{"ModifyTable(u)/DropForeignKey(1)"}},
			Edit{"unnamed_fk_first_declared_dropped", []string{"table:u"}, func(s *schema.Schema) { dropFK(T(s, "u"), "1") }, []string{"ModifyTable(u)/DropForeignKey(1)"}},
			Edit{"without_rowid_added", []string{"tattr:rowid"}, func(s *schema.Schema) { T(s, "t").AddAttrs(&sqlite.WithoutRowID{}) }, []string{mt("AddAttr(WithoutRowID)")}},
			Edit{"strict_added", []string{"tattr:strict"}, func(s *schema.Schema) { T(s, "t").AddAttrs(&sqlite.Strict{}) }, []string{mt("AddAttr(Strict)")}},
			Edit{"index_predicate", []string{"idx:idx_d_part"}, func(s *schema.Schema) {
				I(T(s, "t"), "idx_d_part").Attrs = []schema.Attr{&sqlite.IndexPredicate{P: "d > 1"}}
			}, []string{mt("ModifyIndex(idx_d_part)[attr]")}},
			Edit{"index_predicate_template_chars", []string{"idx:idx_d_part"}, func(s *schema.Schema) {
				I(T(s, "t"), "idx_d_part").Attrs = []schema.Attr{&sqlite.IndexPredicate{P: "b <> '%{x}' AND b <> '${y}'"}}
			}, []string{mt("ModifyIndex(idx_d_part)[attr]")}},
			Edit{"autoincrement_added", []string{"col:id"}, func(s *schema.Schema) { C(T(s, "t"), "id").AddAttrs(&sqlite.AutoIncrement{}) }, []string{mt("ModifyColumn(id)[attr]")}},
			Edit{"unnamed_check_dropped", []string{"check:"}, func(s *schema.Schema) {
				t := T(s, "t")
				_, i := checkOf(t, "")
				t.Attrs = append(t.Attrs[:i:i], t.Attrs[i+1:]...)
			}, []string{mt("DropCheck()")}},
			Edit{"unnamed_check_added", []string{"check:new"}, func(s *schema.Schema) { T(s, "t").AddChecks(schema.NewCheck().SetExpr("d > -5")) }, []string{mt("AddCheck()")}},
		)
	}
	return es
}

// Equivalences are edits the dialect documents as no change.
func Equivalences(d *Dialect) []Edit {
	var es []Edit
	switch d {
	case MySQL:
		es = append(es,
			Edit{"fk_noaction_spelled_restrict", nil, func(s *schema.Schema) { F(T(s, "t"), "fk_d2").OnDelete = schema.Restrict }, nil},
			Edit{"fk_omitted_action_spelled_noaction", nil, func(s *schema.Schema) { F(T(s, "t"), "fk_d2").OnUpdate = schema.NoAction }, nil},
			Edit{"index_type_btree_explicit", nil, func(s *schema.Schema) { I(T(s, "t"), "idx_a").AddAttrs(&mysql.IndexType{T: "BTREE"}) }, nil},
			Edit{"generated_name_index_left_unnamed", nil, func(s *schema.Schema) { I(T(s, "t"), "c").Name = "" }, nil},
			// the server's default engine spelled out on a table that did not state one.
			// a column that spells only its collation (the character set follows from it) or only its
			// character set (whose default collation it has) is the same column.
			Edit{"col_collation_without_charset", nil, func(s *schema.Schema) {
				c := C(T(s, "t"), "b")
				c.Attrs = dropAttr[*schema.Charset](c.Attrs)
			}, nil},
			Edit{"col_charset_without_collation", nil, func(s *schema.Schema) {
				c := C(T(s, "t"), "b")
				c.Attrs = dropAttr[*schema.Collation](c.Attrs)
			}, nil},
			Edit{"engine_default_spelled_out", nil, func(s *schema.Schema) { T(s, "p").AddAttrs(&mysql.Engine{V: "InnoDB"}) }, nil},
			Edit{"engine_case", nil, func(s *schema.Schema) {
				t := T(s, "t")
				t.Attrs = dropAttr[*mysql.Engine](t.Attrs)
				t.AddAttrs(&mysql.Engine{V: "INNODB"})
			}, nil},
			Edit{"table_auto_increment_lowered", nil, func(s *schema.Schema) {
				t := T(s, "t")
				t.Attrs = dropAttr[*mysql.AutoIncrement](t.Attrs)
				t.AddAttrs(&mysql.AutoIncrement{V: 50})
			}, nil},
		)
	case Postgres:
		es = append(es,
			Edit{"fk_omitted_action_spelled_noaction", nil, func(s *schema.Schema) { F(T(s, "t"), "fk_d2").OnUpdate = schema.NoAction }, nil},
			Edit{"identity_defaults_spelled_zero", nil, func(s *schema.Schema) {
				c := C(T(s, "t"), "id")
				c.Attrs = dropAttr[*postgres.Identity](c.Attrs)
				c.AddAttrs(&postgres.Identity{Generation: "ALWAYS"})
			}, nil},
			Edit{"unique_index_nulls_distinct_spelled_out", nil, func(s *schema.Schema) {
				I(T(s, "t"), "uq_b").AddAttrs(&postgres.IndexNullsDistinct{V: true})
			}, nil},
			Edit{"index_type_btree_explicit", nil, func(s *schema.Schema) { I(T(s, "t"), "idx_a").AddAttrs(&postgres.IndexType{T: "BTREE"}) }, nil},
			Edit{"index_predicate_wrapped", nil, func(s *schema.Schema) {
				I(T(s, "t"), "idx_d_part").Attrs = []schema.Attr{&postgres.IndexPredicate{P: "(d > 0)"}}
			}, nil},
			Edit{"generated_name_index_left_unnamed", nil, func(s *schema.Schema) { I(T(s, "t"), "t_c_key").Name = "" }, nil},
			Edit{"check_expr_wrapped", nil, func(s *schema.Schema) {
				c, _ := checkOf(T(s, "t"), "ck_a")
				c.Expr = "(a > 0)"
			}, nil},
		)
	case SQLite:
		es = append(es,
			Edit{"fk_omitted_action_spelled_noaction", nil, func(s *schema.Schema) { F(T(s, "t"), "fk_d2").OnUpdate = schema.NoAction }, nil},
			Edit{"type_same_affinity_class", nil, func(s *schema.Schema) { C(T(s, "t"), "d").Type.Type = &schema.IntegerType{T: "bigint"} }, nil},
			Edit{"check_expr_wrapped", nil, func(s *schema.Schema) {
				c, _ := checkOf(T(s, "t"), "ck_a")
				c.Expr = "(a > 0)"
			}, nil},
			Edit{"comment_ignored", nil, func(s *schema.Schema) { T(s, "t").SetComment("x") }, nil},
			Edit{"index_predicate_wrapped", nil, func(s *schema.Schema) {
				I(T(s, "t"), "idx_d_part").Attrs = []schema.Attr{&sqlite.IndexPredicate{P: "(d > 0)"}}
			}, nil},
		)
	}
	return es
}

// Compatible reports whether two edits touch disjoint elements.
func Compatible(a, b Edit) bool {
	for _, x := range a.Touches {
		for _, y := range b.Touches {
			if x == y {
				return false
			}
		}
	}
	// dropping a column/table that another edit's new element references
	return true
}

var kindNames = []struct {
	k schema.ChangeKind
	n string
}{
	{schema.ChangeAttr, "attr"}, {schema.ChangeCharset, "charset"}, {schema.ChangeCollate, "collate"}, {schema.ChangeComment, "comment"},
	{schema.ChangeNull, "null"}, {schema.ChangeType, "type"}, {schema.ChangeDefault, "default"}, {schema.ChangeGenerated, "generated"},
	{schema.ChangeUnique, "unique"}, {schema.ChangeParts, "parts"}, {schema.ChangeColumn, "column"}, {schema.ChangeRefColumn, "ref_column"},
	{schema.ChangeRefTable, "ref_table"}, {schema.ChangeUpdateAction, "update_action"}, {schema.ChangeDeleteAction, "delete_action"},
}

func Kinds(k schema.ChangeKind) string {
	var out []string
	rest := k
	for _, kn := range kindNames {
		if k&kn.k != 0 {
			out = append(out, kn.n)
			rest &^= kn.k
		}
	}
	if rest != 0 {
		out = append(out, fmt.Sprintf("unknown(%d)", rest))
	}
	sort.Strings(out)
	return "[" + strings.Join(out, ",") + "]"
}

func attrName(a schema.Attr) string {
	s := fmt.Sprintf("%T", a)
	return s[strings.LastIndex(s, ".")+1:]
}

// Flatten renders a change tree as sorted descriptors.
func Flatten(cs []schema.Change) []string {
	var out []string
	var rec func(prefix string, cs []schema.Change)
	rec = func(prefix string, cs []schema.Change) {
		for _, c := range cs {
			switch c := c.(type) {
			case *schema.AddSchema:
				out = append(out, prefix+"AddSchema("+c.S.Name+")")
			case *schema.DropSchema:
				out = append(out, prefix+"DropSchema("+c.S.Name+")")
			case *schema.ModifySchema:
				rec(prefix+"ModifySchema("+c.S.Name+")/", c.Changes)
			case *schema.AddTable:
				out = append(out, prefix+"AddTable("+c.T.Name+")")
			case *schema.DropTable:
				out = append(out, prefix+"DropTable("+c.T.Name+")")
			case *schema.ModifyTable:
				if len(c.Changes) == 0 {
					out = append(out, prefix+"ModifyTable("+c.T.Name+")/<empty>")
				}
				rec(prefix+"ModifyTable("+c.T.Name+")/", c.Changes)
			case *schema.AddObject:
				out = append(out, prefix+"AddObject("+objName(c.O)+")")
			case *schema.DropObject:
				out = append(out, prefix+"DropObject("+objName(c.O)+")")
			case *schema.ModifyObject:
				out = append(out, prefix+"ModifyObject("+objName(c.To)+")")
			case *schema.AddColumn:
				out = append(out, prefix+"AddColumn("+c.C.Name+")")
			case *schema.DropColumn:
				out = append(out, prefix+"DropColumn("+c.C.Name+")")
			case *schema.ModifyColumn:
				out = append(out, prefix+"ModifyColumn("+c.To.Name+")"+Kinds(c.Change))
			case *schema.AddIndex:
				out = append(out, prefix+"AddIndex("+c.I.Name+")")
			case *schema.DropIndex:
				out = append(out, prefix+"DropIndex("+c.I.Name+")")
			case *schema.ModifyIndex:
				out = append(out, prefix+"ModifyIndex("+c.To.Name+")"+Kinds(c.Change))
			case *schema.AddPrimaryKey:
				out = append(out, prefix+"AddPrimaryKey")
			case *schema.DropPrimaryKey:
				out = append(out, prefix+"DropPrimaryKey")
			case *schema.ModifyPrimaryKey:
				out = append(out, prefix+"ModifyPrimaryKey"+Kinds(c.Change))
			case *schema.AddForeignKey:
				out = append(out, prefix+"AddForeignKey("+c.F.Symbol+")")
			case *schema.DropForeignKey:
				out = append(out, prefix+"DropForeignKey("+c.F.Symbol+")")
			case *schema.ModifyForeignKey:
				out = append(out, prefix+"ModifyForeignKey("+c.To.Symbol+")"+Kinds(c.Change))
			case *schema.AddCheck:
				out = append(out, prefix+"AddCheck("+c.C.Name+")")
			case *schema.DropCheck:
				out = append(out, prefix+"DropCheck("+c.C.Name+")")
			case *schema.ModifyCheck:
				out = append(out, prefix+"ModifyCheck("+c.To.Name+")")
			case *schema.AddAttr:
				out = append(out, prefix+"AddAttr("+attrName(c.A)+")")
			case *schema.DropAttr:
				out = append(out, prefix+"DropAttr("+attrName(c.A)+")")
			case *schema.ModifyAttr:
				out = append(out, prefix+"ModifyAttr("+attrName(c.To)+")")
			default:
				out = append(out, prefix+fmt.Sprintf("%T", c))
			}
		}
	}
	rec("", cs)
	sort.Strings(out)
	return out
}

func objName(o schema.Object) string {
	if e, ok := o.(*schema.EnumType); ok {
		return e.T
	}
	return fmt.Sprintf("%T", o)
}

// Permute reorders tables, indexes, foreign keys and check attributes (not columns: their order is semantic).
func Permute(s *schema.Schema, variant int) {
	rev := func(n int, swap func(i, j int)) {
		for i, j := 0, n-1; i < j; i, j = i+1, j-1 {
			swap(i, j)
		}
	}
	rot := func(n int, swap func(i, j int)) {
		for i := 0; i+1 < n; i++ {
			swap(i, i+1)
		}
	}
	f := rev
	if variant == 1 {
		f = rot
	}
	f(len(s.Tables), func(i, j int) { s.Tables[i], s.Tables[j] = s.Tables[j], s.Tables[i] })
	for _, t := range s.Tables {
		t := t
		f(len(t.Indexes), func(i, j int) { t.Indexes[i], t.Indexes[j] = t.Indexes[j], t.Indexes[i] })
		f(len(t.ForeignKeys), func(i, j int) { t.ForeignKeys[i], t.ForeignKeys[j] = t.ForeignKeys[j], t.ForeignKeys[i] })
		f(len(t.Attrs), func(i, j int) { t.Attrs[i], t.Attrs[j] = t.Attrs[j], t.Attrs[i] })
		// index parts carry their position in SeqNo: listing them in another order is the same index.
		for _, ix := range append(append([]*schema.Index(nil), t.Indexes...), t.PrimaryKey) {
			if ix == nil {
				continue
			}
			ix := ix
			f(len(ix.Parts), func(i, j int) { ix.Parts[i], ix.Parts[j] = ix.Parts[j], ix.Parts[i] })
		}
	}
}
