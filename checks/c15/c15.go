// Package c15: HCL round trip returns an equivalent schema, for every dialect and column type.
package c15

import (
	"encoding/json"
	"fmt"
	"regexp"
	"sort"
	"strings"

	"ariga.io/atlas/schemahcl"
	"ariga.io/atlas/sql/mysql"
	"ariga.io/atlas/sql/postgres"
	"ariga.io/atlas/sql/schema"
	"ariga.io/atlas/sql/sqlite"

	"github.com/zclconf/go-cty/cty"

	"verif/engine/report"
	"verif/universe/dfu"
)

type codec struct {
	name     string
	d        *dfu.Dialect
	registry *schemahcl.TypeRegistry
	marshal  func(any) ([]byte, error)
	eval     func([]byte, any, map[string]cty.Value) error
	format   func(schema.Type) (string, error)
	parse    func(string) (schema.Type, error)
}

var codecs = []codec{
	{"mysql", dfu.MySQL, mysql.TypeRegistry, func(v any) ([]byte, error) { return mysql.MarshalHCL.MarshalSpec(v) }, mysql.EvalHCLBytes, mysql.FormatType, mysql.ParseType},
	{"postgres", dfu.Postgres, postgres.TypeRegistry, func(v any) ([]byte, error) { return postgres.MarshalHCL.MarshalSpec(v) }, postgres.EvalHCLBytes, postgres.FormatType, postgres.ParseType},
	{"sqlite", dfu.SQLite, sqlite.TypeRegistry, func(v any) ([]byte, error) { return sqlite.MarshalHCL.MarshalSpec(v) }, sqlite.EvalHCLBytes, sqlite.FormatType, sqlite.ParseType},
}

func codecOf(n string) codec {
	for _, c := range codecs {
		if c.name == n {
			return c
		}
	}
	return codecs[0]
}

type Case struct {
	Dialect string   `json:"dialect"`
	Type    string   `json:"type,omitempty"`  // (a) column type string
	Edits   []string `json:"edits,omitempty"` // (b) dfu state: base + edits
	Kind    string   `json:"kind"`
}

// typeStrings builds the parameter grid of one registered type spec as SQL type strings.
func typeStrings(spec *schemahcl.TypeSpec) []string {
	has := map[string]bool{}
	required := false
	for _, a := range spec.Attributes {
		has[a.Name] = true
		required = required || a.Required
	}
	base := []string{spec.T}
	if required {
		base = nil // the bare name is not a valid type (e.g. varchar without a size)
	}
	switch {
	case has["values"]:
		base = []string{spec.T + "('a')", spec.T + "('a','b c','d')"}
	case has["precision"] && has["scale"]:
		base = append(base, spec.T+"(10)", spec.T+"(10,2)", spec.T+"(10,0)", spec.T+"(5,5)")
	case has["precision"]:
		base = append(base, spec.T+"(0)", spec.T+"(3)", spec.T+"(6)")
	case has["size"]:
		base = append(base, spec.T+"(0)", spec.T+"(1)", spec.T+"(255)")
	case has["len"]:
		base = append(base, spec.T+"(1)", spec.T+"(8)")
	}
	out := append([]string(nil), base...)
	if has["unsigned"] {
		for _, b := range base {
			out = append(out, b+" unsigned")
		}
	}
	return out
}

func evalType(c Case) (problems []string, skipped string) {
	bad := func(f string, a ...any) { problems = append(problems, fmt.Sprintf(f, a...)) }
	cd := codecOf(c.Dialect)
	defer func() {
		if p := recover(); p != nil {
			bad("panic: %v", p)
		}
	}()
	t0, err := cd.parse(c.Type)
	if err != nil {
		return nil, "ParseType rejects the string: " + err.Error()
	}
	if _, ok := t0.(*postgres.UserDefinedType); ok {
		return nil, "not a type of its own (parsed as a user-defined type name)"
	}
	if u, ok := t0.(*sqlite.UserDefinedType); ok {
		// the name is all there is to such a type: it is kept as written, and the round trip below starts
		// from a value holding the name as written (what a program, or an inspection, puts there).
		if u.T != c.Type {
			bad("ParseType(%q) keeps the user-defined type as %q", c.Type, u.T)
		}
		t0 = &sqlite.UserDefinedType{T: c.Type}
	}
	f0, err := cd.format(t0)
	if err != nil {
		return nil, "FormatType rejects the parsed type: " + err.Error()
	}
	// (c) format/parse fixpoint.
	t1, err := cd.parse(f0)
	if err != nil {
		bad("ParseType(FormatType(t)) fails for %q: %v", f0, err)
		return
	}
	if f1, err := cd.format(t1); err != nil || f1 != f0 {
		bad("FormatType/ParseType is not a fixpoint: %q -> %q (%v)", f0, f1, err)
	}
	// (a) a column of that type through HCL and back.
	s := schema.New(cd.d.Schema)
	schema.NewRealm(s)
	tt := schema.NewTable("tt")
	col := &schema.Column{Name: "x", Type: &schema.ColumnType{Type: t0, Null: true}}
	tt.AddColumns(col)
	s.AddTables(tt)
	hcl, err := cd.marshal(s)
	if err != nil {
		bad("MarshalHCL fails for a column of type %q: %v", f0, err)
		return
	}
	var back schema.Schema
	if err := cd.eval(hcl, &back, nil); err != nil {
		bad("exported HCL does not evaluate for type %q: %v\n%s", f0, err, hcl)
		return
	}
	bt, ok := back.Table("tt")
	if !ok || len(bt.Columns) != 1 {
		bad("table/column lost in the round trip")
		return
	}
	fb, err := cd.format(bt.Columns[0].Type.Type)
	if err != nil || fb != f0 {
		bad("type %q comes back from HCL as %q (%v)\n%s", f0, fb, err, hcl)
	}
	for dir := 0; dir < 2; dir++ {
		a, b := s, &back
		if dir == 1 {
			a, b = &back, s
		}
		cs, err := cd.d.Diff.SchemaDiff(a, b, schema.DiffNormalized())
		if err != nil {
			bad("diff (direction %d): %v", dir, err)
		} else if len(cs) > 0 {
			bad("diff with the re-evaluated schema (direction %d) is not empty: %v", dir, dfu.Flatten(cs))
		}
	}
	hcl2, err := cd.marshal(&back)
	if err != nil {
		bad("second MarshalHCL: %v", err)
	} else if string(hcl2) != string(hcl) {
		bad("marshalling the evaluated schema again changes the bytes:\n--- first\n%s--- second\n%s", hcl, hcl2)
	}
	return
}

// attrNames lists attribute type names of an element (inheritance and position attributes excluded).
func attrNames(attrs []schema.Attr) []string {
	var out []string
	for _, a := range attrs {
		switch a.(type) {
		case *schema.Charset, *schema.Collation, *schema.Check, *schema.Pos:
			continue
		}
		if nd, ok := a.(*postgres.IndexNullsDistinct); ok && nd.V {
			continue // NULLS DISTINCT is the default: spelled out or not, the same index
		}
		n := fmt.Sprintf("%T", a)
		switch v := a.(type) {
		case *schema.Comment:
			n += ":" + v.Text
		case *schema.GeneratedExpr:
			n += ":" + strings.Trim(v.Expr, "()") + ":" + strings.ToUpper(v.Type)
		case *mysql.OnUpdate:
			n += ":" + v.A
		case *mysql.SubPart:
			n += fmt.Sprint(":", v.Len)
		case *mysql.IndexType:
			if strings.EqualFold(v.T, "BTREE") {
				continue // the default index type is not spelled out
			}
			n += ":" + strings.ToUpper(v.T)
		case *postgres.IndexType:
			if strings.EqualFold(v.T, "BTREE") {
				continue
			}
			n += ":" + strings.ToUpper(v.T)
		case *postgres.IndexPredicate:
			n += ":" + strings.Trim(v.P, "()")
		case *sqlite.IndexPredicate:
			n += ":" + strings.Trim(v.P, "()")
		case *mysql.AutoIncrement:
			if v.V > 1 {
				n += fmt.Sprint(":", v.V)
			}
		case *mysql.Enforced:
			n += fmt.Sprint(":", v.V)
		case *postgres.IndexInclude:
			for _, c := range v.Columns {
				n += ":" + c.Name
			}
		}
		out = append(out, n)
	}
	sort.Strings(out)
	return out
}

// structure renders the parts of a schema the differs are known not to look at (C02 findings) or
// that are cheap to compare independently: attribute sets per element and the element lists.
var reNumber = regexp.MustCompile(`^[+-]?(0[xX][0-9a-fA-F]+|(\d+\.?\d*|\.\d+)([eE][+-]?\d+)?)$`)

func structure(s *schema.Schema) []string {
	var out []string
	for _, t := range s.Tables {
		out = append(out, fmt.Sprintf("table %s attrs=%v", t.Name, attrNames(t.Attrs)))
		for _, c := range t.Columns {
			def := ""
			switch x := c.Default.(type) {
			case *schema.Literal:
				def = "lit:" + strings.Trim(x.V, "'")
			case *schema.RawExpr:
				def = "expr:" + strings.Trim(x.X, "()")
				// a number that HCL cannot spell as written (1e3, 0x10) travels as sql("..."): the same
				// default, written back unparenthesised or parenthesised - not a structural difference.
				if reNumber.MatchString(x.X) {
					def = "lit:" + x.X
				}
			}
			out = append(out, fmt.Sprintf("  column %s.%s null=%v default=%s attrs=%v", t.Name, c.Name, c.Type.Null, def, attrNames(c.Attrs)))
		}
		if t.PrimaryKey != nil {
			out = append(out, fmt.Sprintf("  pk %s %s", t.Name, parts(t.PrimaryKey)))
		}
		for _, i := range t.Indexes {
			out = append(out, fmt.Sprintf("  index %s.%s unique=%v %s attrs=%v", t.Name, i.Name, i.Unique, parts(i), attrNames(i.Attrs)))
		}
		for _, f := range t.ForeignKeys {
			var cs, rs []string
			for _, c := range f.Columns {
				cs = append(cs, c.Name)
			}
			for _, c := range f.RefColumns {
				rs = append(rs, c.Name)
			}
			out = append(out, fmt.Sprintf("  fk %s.%s %v -> %s%v", t.Name, f.Symbol, cs, f.RefTable.Name, rs))
		}
		for _, a := range t.Attrs {
			if c, ok := a.(*schema.Check); ok {
				out = append(out, fmt.Sprintf("  check %s.%s %s attrs=%v", t.Name, c.Name, strings.Trim(c.Expr, "()"), attrNames(c.Attrs)))
			}
		}
	}
	sort.Strings(out)
	return out
}

// defaultOpClass: (method/operator class) pairs of the universe that are the method's default for the
// column type they are used with (PostgreSQL catalogue, pg_opclass.opcdefault).
var defaultOpClass = map[string]bool{"BTREE/int4_ops": true, "HASH/int4_ops": true, "BRIN/int4_minmax_ops": true, "BTREE/text_ops": true}

func parts(i *schema.Index) string {
	ps := append([]*schema.IndexPart(nil), i.Parts...)
	sort.Slice(ps, func(a, b int) bool { return ps[a].SeqNo < ps[b].SeqNo })
	var out []string
	for _, p := range ps {
		s := ""
		if p.C != nil {
			s = p.C.Name
		} else if x, ok := p.X.(*schema.RawExpr); ok {
			s = "(" + strings.Trim(x.X, "()") + ")"
		}
		if p.Desc {
			s += " desc"
		}
		var rest []schema.Attr
		for _, a := range p.Attrs {
			oc, ok := a.(*postgres.IndexOpClass)
			if !ok {
				rest = append(rest, a)
				continue
			}
			// the access method's default operator class spelled out is the same index as none at all.
			method := "BTREE"
			for _, ia := range i.Attrs {
				if it, ok := ia.(*postgres.IndexType); ok {
					method = strings.ToUpper(it.T)
				}
			}
			if !defaultOpClass[method+"/"+oc.Name] {
				s += " ops:" + oc.Name
			}
		}
		if a := attrNames(rest); len(a) > 0 {
			s += fmt.Sprint(a)
		}
		out = append(out, s)
	}
	return "(" + strings.Join(out, ", ") + ")"
}

func evalState(c Case) (problems []string, skipped string) {
	bad := func(f string, a ...any) { problems = append(problems, fmt.Sprintf(f, a...)) }
	cd := codecOf(c.Dialect)
	defer func() {
		if p := recover(); p != nil {
			bad("panic: %v", p)
		}
	}()
	build := func() *schema.Schema {
		s := dfu.Base(cd.d)
		for _, n := range c.Edits {
			for _, e := range append(dfu.Edits(cd.d), dfu.Equivalences(cd.d)...) {
				if e.Name == n {
					e.Apply(s)
				}
			}
		}
		// the table-level AUTO_INCREMENT counter is runtime state of a live table: it is read from
		// HCL when a user sets it, but deliberately never exported.
		for _, t := range s.Tables {
			var keep []schema.Attr
			for _, a := range t.Attrs {
				if _, ok := a.(*mysql.AutoIncrement); !ok {
					keep = append(keep, a)
				}
			}
			t.Attrs = keep
		}
		return s
	}
	s := build()
	hcl, err := cd.marshal(s)
	if err != nil {
		bad("MarshalHCL: %v", err)
		return
	}
	var back schema.Schema
	if err := cd.eval(hcl, &back, nil); err != nil {
		bad("exported HCL does not evaluate: %v\n%s", err, hcl)
		return
	}
	schema.NewRealm(&back)
	for dir := 0; dir < 2; dir++ {
		a, b := build(), &back
		if dir == 1 {
			var again schema.Schema
			if err := cd.eval(hcl, &again, nil); err != nil {
				bad("second evaluation fails: %v", err)
				return
			}
			schema.NewRealm(&again)
			a, b = &again, build()
		}
		cs, err := cd.d.Diff.SchemaDiff(a, b, schema.DiffNormalized())
		if err != nil {
			bad("diff (direction %d): %v", dir, err)
		} else if len(cs) > 0 {
			bad("diff between the schema and its HCL round trip (direction %d) is not empty: %v", dir, dfu.Flatten(cs))
		}
	}
	// independent of the differ: same elements and attribute sets.
	var fresh schema.Schema
	if err := cd.eval(hcl, &fresh, nil); err == nil {
		want, got := structure(build()), structure(&fresh)
		if strings.Join(want, "\n") != strings.Join(got, "\n") {
			bad("structure differs after the round trip:\n%s", lineDiff(want, got))
		}
		// column types by their formatted string.
		orig := build()
		for _, t := range orig.Tables {
			bt, ok := fresh.Table(t.Name)
			if !ok {
				continue
			}
			for _, col := range t.Columns {
				bc, ok := bt.Column(col.Name)
				if !ok {
					continue
				}
				f0, e0 := cd.format(col.Type.Type)
				f1, e1 := cd.format(bc.Type.Type)
				if e0 != nil || e1 != nil || f0 != f1 {
					bad("column %s.%s type %q comes back as %q (%v %v)", t.Name, col.Name, f0, f1, e0, e1)
				}
			}
		}
	}
	hcl2, err := cd.marshal(&back)
	if err != nil {
		bad("second MarshalHCL: %v", err)
	} else if string(hcl2) != string(hcl) {
		bad("marshalling the evaluated schema again changes the bytes:\n%s", lineDiff(strings.Split(string(hcl), "\n"), strings.Split(string(hcl2), "\n")))
	}
	// the same through the realm (what the CLI marshals): references between tables are qualified there.
	rs := build()
	rhcl, err := cd.marshal(rs.Realm)
	if err != nil {
		bad("MarshalHCL of the realm: %v", err)
		return
	}
	var rback schema.Realm
	if err := cd.eval(rhcl, &rback, nil); err != nil {
		bad("HCL exported from the realm does not evaluate: %v\n%s", err, rhcl)
		return
	}
	for dir := 0; dir < 2; dir++ {
		a, b := build().Realm, &rback
		if dir == 1 {
			a, b = b, a
		}
		cs, err := cd.d.Diff.RealmDiff(a, b, schema.DiffNormalized())
		if err != nil {
			bad("realm diff (direction %d): %v", dir, err)
		} else if len(cs) > 0 {
			bad("diff between the realm and its HCL round trip (direction %d) is not empty: %v", dir, dfu.Flatten(cs))
		}
	}
	if rhcl2, err := cd.marshal(&rback); err != nil {
		bad("second MarshalHCL of the realm: %v", err)
	} else if string(rhcl2) != string(rhcl) {
		bad("marshalling the evaluated realm again changes the bytes:\n%s", lineDiff(strings.Split(string(rhcl), "\n"), strings.Split(string(rhcl2), "\n")))
	}
	return
}

func lineDiff(want, got []string) string {
	w, g := map[string]int{}, map[string]int{}
	for _, l := range want {
		w[l]++
	}
	for _, l := range got {
		g[l]++
	}
	var b strings.Builder
	for _, l := range want {
		if g[l] < w[l] {
			b.WriteString("    original:   " + l + "\n")
		}
	}
	for _, l := range got {
		if w[l] < g[l] {
			b.WriteString("    round trip: " + l + "\n")
		}
	}
	return b.String()
}

func Eval(c Case) ([]string, string) {
	if c.Kind == "type" {
		return evalType(c)
	}
	return evalState(c)
}

// manualTypeStrings: the PostgreSQL interval types as the manual lists them - every field restriction,
// and a seconds precision where the fields include seconds - whatever the registered specs declare.
func manualTypeStrings(dialect string) []string {
	var out []string
	if dialect == "sqlite" {
		// type names SQLite accepts and Atlas keeps as they are written (user-defined types).
		return []string{"GEOMETRY", "Point", "VARCHAR2(10)", "my_type", "Money(10, 2)", "()", "(10)"}
	}
	if dialect != "postgres" {
		return nil
	}
	for _, f := range []string{"", " year", " month", " day", " hour", " minute", " second", " year to month", " day to hour", " day to minute", " day to second", " hour to minute", " hour to second", " minute to second"} {
		out = append(out, "interval"+f)
		if f != "" && !strings.HasSuffix(f, "second") {
			continue // a precision goes with seconds only
		}
		for _, p := range []string{"0", "3", "6"} {
			out = append(out, "interval"+f+"("+p+")")
		}
	}
	return out
}

func cases(tier string) []Case {
	var cs []Case
	for _, cd := range codecs {
		seen := map[string]bool{}
		for _, spec := range cd.registry.Specs() {
			for _, ts := range typeStrings(spec) {
				vars := []string{ts}
				if cd.name == "postgres" {
					vars = append(vars, ts+"[]")
				}
				for _, v := range vars {
					if !seen[v] {
						seen[v] = true
						cs = append(cs, Case{Dialect: cd.name, Kind: "type", Type: v})
					}
				}
			}
		}
		// type strings written from the manual rather than from what the registry advertises: every
		// parameterised spelling below that the dialect's ParseType accepts must survive the round
		// trip, whether or not the registered spec declares the parameter.
		for _, v := range manualTypeStrings(cd.name) {
			if !seen[v] {
				seen[v] = true
				cs = append(cs, Case{Dialect: cd.name, Kind: "type", Type: v})
			}
		}
		cs = append(cs, Case{Dialect: cd.name, Kind: "state"})
		es := append(dfu.Edits(cd.d), dfu.Equivalences(cd.d)...)
		for _, e := range es {
			if strings.HasPrefix(e.Name, "col_collation_without_") || strings.HasPrefix(e.Name, "col_charset_without_") {
				// the comparator of this check (the MySQL differ) completes the implied attribute on its
				// desired side only, and in place: a current side that lacks it is not a state it is
				// meant for (inspection always reports both), so these spellings are compared by C02 only.
				continue
			}
			cs = append(cs, Case{Dialect: cd.name, Kind: "state", Edits: []string{e.Name}})
		}
		if tier == "thorough" {
			ed := dfu.Edits(cd.d)
			for i := range ed {
				for j := i + 1; j < len(ed); j++ {
					if dfu.Compatible(ed[i], ed[j]) {
						cs = append(cs, Case{Dialect: cd.name, Kind: "state", Edits: []string{ed[i].Name, ed[j].Name}})
					}
				}
			}
		}
	}
	return cs
}

func Run(r *report.Run) {
	r.Rule = "per dialect codec (MySQL, PostgreSQL, SQLite): (a,c) every type spec of the exported TypeRegistry x parameter grid (size, precision/scale, time precision, unsigned, enum/set values, PostgreSQL arrays; plus, independent of what the specs declare, every PostgreSQL interval field restriction, with a seconds precision {0, 3, 6} where the fields include seconds) written as a SQL type string: FormatType/ParseType fixpoint, and a nullable column of that type through MarshalHCL -> EvalHCLBytes: same formatted type, empty diff both ways, identical bytes when marshalled again; (b) every state of the differ universe (base, base+1 edit or equivalence; thorough: +2 edits): empty diff both ways, equal element lists / attribute sets / formatted column types by our own comparison, identical bytes on re-marshal; (d) type strings of the grid whose bare name means 'no limit' (character varying, bit varying, numeric) must not parse to the same type as a parameterised spelling; non-trivial = case whose type string the dialect parses, or a state; distinct = (dialect, type | edits)"
	r.Assumptions = []string{
		"type strings ParseType rejects are counted as skipped (parameter combination not valid for the type)",
		"the MySQL table-level AUTO_INCREMENT counter is treated as runtime state (never exported by design) and removed before the round trip; the default index type BTREE counts as unset",
		"charset/collation attributes are compared through the differ only (they are inherited from the table/schema and deliberately omitted from HCL when equal to the parent)",
	}
	cs := cases(r.Tier)
	skipped := 0
	per := map[string]int{}
	for _, c := range cs {
		problems, skip := Eval(c)
		key := fmt.Sprintf("%s|%s|%s|%v", c.Dialect, c.Kind, c.Type, c.Edits)
		r.Case(key, skip == "")
		per[c.Dialect+":"+c.Kind]++
		if skip != "" {
			skipped++
			continue
		}
		if len(problems) > 0 {
			r.Violate(classify(c, problems), fmt.Sprintf("%s %s %s%v: %s", c.Dialect, c.Kind, c.Type, c.Edits, strings.Join(problems, " | ")), c)
		}
		if c.Kind == "type" && strings.Contains(c.Type, "(10,2)") {
			r.Sample(c)
		}
	}
	r.Set("cases_by_dialect_and_kind", per)
	r.Set("type_strings_skipped", skipped)
	// (d) ParseType must not identify type strings that mean different types: the fixpoint checks above
	// start from ParseType's own answer, so a parser that reads "bit varying" as "bit varying(1)" passes
	// them. Strings of the grid that parse to the same formatted type must be documented equals.
	groups := map[string][]string{}
	for _, c := range cs {
		if c.Kind != "type" {
			continue
		}
		cd := codecOf(c.Dialect)
		t, err := func() (t schema.Type, err error) {
			defer func() {
				if p := recover(); p != nil {
					err = fmt.Errorf("panic: %v", p) // reported by the type case itself
				}
			}()
			return cd.parse(c.Type)
		}()
		if err != nil {
			continue
		}
		if _, ok := t.(*postgres.UserDefinedType); ok {
			continue
		}
		f, err := cd.format(t)
		if err != nil {
			continue
		}
		k := c.Dialect + "|" + f
		groups[k] = append(groups[k], c.Type)
	}
	ncoll := 0
	for k, members := range groups {
		if len(members) < 2 {
			continue
		}
		sort.Strings(members)
		dialect := k[:strings.IndexByte(k, '|')]
		// judged: a type whose bare name means "no limit" (manual: character varying, bit varying,
		// numeric without parameters) must not be read as the same type written with a parameter.
		for _, bare := range members {
			if !unlimitedWhenBare[dialect+"|"+strings.ToLower(bare)] {
				continue
			}
			for _, m := range members {
				if !strings.HasPrefix(strings.ToLower(m), strings.ToLower(bare)+"(") || strings.HasSuffix(m, "(0)") {
					continue // (a length of 0 is not a type the database accepts for these; nothing to tell apart)
				}
				r.CaseDistinct(true)
				ncoll++
				r.Violate("", fmt.Sprintf("%s: %q (no limit) and %q are parsed to the same type %q", dialect, bare, m, k[len(dialect)+1:]),
					map[string]any{"dialect": dialect, "collision": []string{bare, m}})
			}
		}
	}
	r.Set("type_string_collisions", ncoll)
	r.Set("type_string_groups_checked", len(groups))
}

// unlimitedWhenBare: types whose bare name denotes "no length / precision limit" in the database manual.
var unlimitedWhenBare = map[string]bool{
	"postgres|character varying": true, "postgres|varchar": true, "postgres|bit varying": true, "postgres|varbit": true,
	"postgres|numeric": true, "postgres|decimal": true,
}


// classify recognises listed findings by a predicate on the case and its symptoms.
func classify(c Case, problems []string) string {
	all := func(subs ...string) bool {
		for _, p := range problems {
			ok := false
			for _, s := range subs {
				ok = ok || strings.Contains(p, s)
			}
			if !ok {
				return false
			}
		}
		return true
	}
	only := func(edit string) bool { return len(c.Edits) >= 1 && contains(c.Edits, edit) }
	switch {
	case c.Dialect == "postgres" && only("check_no_inherit") && all("ModifyCheck(ck_a)", "structure differs"):
		return "pg-check-no-inherit-not-representable-in-hcl"
	case c.Dialect == "mysql" && only("check_not_enforced") && all("ModifyCheck(ck_a)", "structure differs"):
		return "mysql-not-enforced-check-exported-as-enforced"
	}
	return ""
}

func contains(ss []string, s string) bool {
	for _, x := range ss {
		if x == s {
			return true
		}
	}
	return false
}

func Replay(r *report.Run, raw json.RawMessage) {
	var v struct{ Case Case }
	if err := json.Unmarshal(raw, &v); err != nil {
		r.Violate("", "bad replay file: "+err.Error(), nil)
		return
	}
	problems, skip := Eval(v.Case)
	fmt.Printf("  case %+v skipped=%q\n", v.Case, skip)
	r.Case("a", true)
	r.Case("b", true)
	if len(problems) > 0 {
		r.Violate(classify(v.Case, problems), strings.Join(problems, " | "), v.Case)
	}
}
