// Package c04: plans respect dependencies for every foreign-key graph, including cycles.
package c04

import (
	"context"
	"encoding/json"
	"fmt"
	"github.com/DATA-DOG/go-sqlmock"
	"regexp"
	"sort"
	"strings"
	"sync"
	"sync/atomic"
	"time"

	"ariga.io/atlas/sql/migrate"
	"ariga.io/atlas/sql/mysql"
	"ariga.io/atlas/sql/postgres"
	"ariga.io/atlas/sql/schema"

	"verif/engine/enum"
	"verif/engine/report"
)

type Case struct {
	N       int    `json:"n"`
	Graph   uint32 `json:"graph"` // bit i*n+j set: table i references table j
	Split   []int  `json:"split"` // per table: 0 kept, 1 created, 2 dropped
	KK      int    `json:"kk"`    // edges between kept tables: 0 unchanged, 1 only in desired, 2 only in current
	Dialect string `json:"dialect"`
	Mode    int    `json:"mode"`
	// Schemas: 2 = the tables are spread over two schemas (table i lives in schema s<i%2> and is
	// named t<i/2>, so tables 0 and 1 share a name); statements are then schema-qualified.
	// 3 = as 2, and a schema that holds no table in the desired state is dropped (DropSchema).
	Schemas int `json:"schemas,omitempty"`
	// Retarget: a foreign key fk_i_j of a kept table i whose target j exists in the desired state points,
	// in the current state, at another table (the lowest-numbered current table other than j, over
	// the same column): the differ reports ModifyForeignKey (reference changed).
	Retarget bool `json:"retarget,omitempty"`
	// Cols: every kept table also loses (1) or gains (2) a column that takes part in no key, so that
	// its ModifyTable mixes column and foreign-key changes.
	Cols int `json:"cols,omitempty"`
	// Chain != 0: instead of Graph, table 0 (kept) references the first of N-1 new tables, which
	// reference each other in a chain (closed into a cycle if negative): change sets of any size.
	Chain int `json:"chain,omitempty"`
	// Up: the chain hangs the other way round: the first new table references the kept table.
	Up bool `json:"up,omitempty"`
	// Fold: the table names differ in letter case only, pairwise (T0, t0, T1, ...): distinct tables.
	Fold bool `json:"fold,omitempty"`
}

func (c Case) two() bool { return c.Schemas >= 2 }

// has: does table i reference table j?
func (c Case) has(i, j int) bool {
	if c.Chain == 0 {
		return c.Graph&(1<<uint(i*c.N+j)) != 0
	}
	// a chain: the kept table 0 references the first new table, every new table the next one, and
	// (Chain < 0) the last one the first, closing a cycle.
	n := c.N
	switch {
	case c.Up && i == 0:
		return false
	case c.Up && i == 1 && j == 0:
		return true // the first new table references the kept one (which is altered in the same plan)
	case j == i+1:
		return true
	case c.Chain < 0 && i == n-1 && j == 1:
		return true
	}
	return false
}

func (c Case) sname(i int) string { return fmt.Sprintf("s%d", i%2) }

// tid is the table's identity in the reference catalogue; tn its (unqualified) name.
func (c Case) tn(i int) string {
	if c.two() {
		return fmt.Sprintf("t%d", i/2)
	}
	if c.Fold {
		return fmt.Sprintf("%c%d", "Tt"[i%2], i/2)
	}
	return tname(i)
}

func (c Case) tid(i int) string {
	if c.two() {
		return c.sname(i) + "." + c.tn(i)
	}
	return c.tn(i)
}

func tname(i int) string { return fmt.Sprintf("t%d", i) }

// build returns the (current, desired) schemas of the case, built independently.
func build(c Case, dialect string) (cur, des *schema.Realm) {
	intT := func() schema.Type {
		if dialect == "mysql" {
			return &schema.IntegerType{T: "bigint"}
		}
		return &schema.IntegerType{T: "bigint"}
	}
	mk := func(include func(i int) bool, edge func(i, j int) bool, current bool) *schema.Realm {
		s := schema.New("public")
		r := schema.NewRealm(s)
		var ss [2]*schema.Schema
		if c.two() {
			ss[0], ss[1] = schema.New("s0"), schema.New("s1")
			r = schema.NewRealm(ss[0], ss[1])
			if c.Schemas == 3 && !current {
				r = schema.NewRealm()
				for k := 0; k < 2; k++ {
					has := false
					for i := 0; i < c.N; i++ {
						has = has || (i%2 == k && include(i))
					}
					if has {
						r.AddSchemas(ss[k])
					}
				}
			}
		}
		tabs := make([]*schema.Table, c.N)
		for i := 0; i < c.N; i++ {
			if !include(i) {
				continue
			}
			t := schema.NewTable(c.tn(i))
			id := &schema.Column{Name: "id", Type: &schema.ColumnType{Type: intT()}}
			t.AddColumns(id)
			for j := 0; j < c.N; j++ {
				t.AddColumns(&schema.Column{Name: fmt.Sprintf("r%d", j), Type: &schema.ColumnType{Type: intT(), Null: true}})
			}
			if c.Split[i] == 0 && (current && c.Cols == 1 || !current && c.Cols == 2) {
				t.AddColumns(&schema.Column{Name: "note", Type: &schema.ColumnType{Type: intT(), Null: true}})
			}
			t.SetPrimaryKey(schema.NewPrimaryKey(id))
			tabs[i] = t
			if c.two() {
				ss[i%2].AddTables(t)
			} else {
				s.AddTables(t)
			}
		}
		for i := 0; i < c.N; i++ {
			for j := 0; j < c.N; j++ {
				if tabs[i] == nil || !c.has(i, j) || !edge(i, j) {
					continue
				}
				tj := j
				if current && c.Retarget && c.Split[i] == 0 {
					if a := c.alt(j); a >= 0 {
						tj = a
					}
				}
				if tabs[tj] == nil {
					continue
				}
				col, _ := tabs[i].Column(fmt.Sprintf("r%d", j))
				rid, _ := tabs[tj].Column("id")
				tabs[i].AddForeignKeys(&schema.ForeignKey{Symbol: fmt.Sprintf("fk_%d_%d", i, j), Table: tabs[i], Columns: []*schema.Column{col},
					RefTable: tabs[tj], RefColumns: []*schema.Column{rid}, OnDelete: schema.NoAction, OnUpdate: schema.NoAction})
			}
		}
		return r
	}
	kept := func(i int) bool { return c.Split[i] == 0 }
	cur = mk(func(i int) bool { return c.Split[i] != 1 }, func(i, j int) bool { return !(kept(i) && kept(j)) || c.KK != 1 }, true)
	des = mk(func(i int) bool { return c.Split[i] != 2 }, func(i, j int) bool { return !(kept(i) && kept(j)) || c.KK != 2 }, false)
	return
}

// alt is the table a retargeted foreign key to table j points at in the current state (-1: none).
func (c Case) alt(j int) int {
	if c.Split[j] == 2 {
		return -1 // the key disappears with its target; nothing to retarget
	}
	for a := 0; a < c.N; a++ {
		if a != j && c.Split[a] != 1 {
			return a
		}
	}
	return -1
}

var (
	// an identifier, optionally schema-qualified; the quotes are removed by ident().
	qid        = "((?:[`\"]\\w+[`\"]\\.)?[`\"]\\w+[`\"])"
	reCreate   = regexp.MustCompile("^CREATE TABLE " + qid)
	reAlter    = regexp.MustCompile("^ALTER TABLE " + qid)
	reDropTab  = regexp.MustCompile("^DROP TABLE " + qid)
	reAddFK    = regexp.MustCompile("CONSTRAINT [`\"](fk_\\d+_\\d+)[`\"] FOREIGN KEY \\([^)]*\\) REFERENCES " + qid)
	reDropFK   = regexp.MustCompile("DROP (?:FOREIGN KEY|CONSTRAINT) [`\"](fk_\\d+_\\d+)[`\"]")
	reDropList = regexp.MustCompile(qid)
	reDropSch  = regexp.MustCompile("^DROP (?:DATABASE|SCHEMA) (?:IF EXISTS )?[`\"](\\w+)[`\"]")
)

// ident removes the quotes of a (possibly schema-qualified) identifier: `s0`.`t0` -> s0.t0
func ident(q string) string { return strings.NewReplacer("`", "", "\"", "").Replace(q) }

// replay runs the statements against the reference catalogue.
func replay(c Case, stmts []string) (problems []string) {
	bad := func(f string, a ...any) { problems = append(problems, fmt.Sprintf(f, a...)) }
	exists := map[string]bool{}
	live := map[string][2]string{} // fk -> (table, ref table)
	created, dropped := map[string]int{}, map[string]int{}
	for i := 0; i < c.N; i++ {
		if c.Split[i] != 1 {
			exists[c.tid(i)] = true
		}
	}
	cur, des := build(c, c.Dialect)
	tidOf := func(t *schema.Table) string {
		if c.two() {
			return t.Schema.Name + "." + t.Name
		}
		return t.Name
	}
	for _, sc := range cur.Schemas {
		for _, t := range sc.Tables {
			for _, fk := range t.ForeignKeys {
				live[fk.Symbol] = [2]string{tidOf(t), tidOf(fk.RefTable)}
			}
		}
	}
	for k, s := range stmts {
		switch {
		case reCreate.MatchString(s):
			x := ident(reCreate.FindStringSubmatch(s)[1])
			if exists[x] {
				bad("stmt %d creates %s which exists", k, x)
			}
			created[x]++
			for _, m := range reAddFK.FindAllStringSubmatch(s, -1) {
				m[2] = ident(m[2])
				if m[2] != x && !exists[m[2]] {
					bad("stmt %d: CREATE TABLE %s declares %s referencing %s, which does not exist yet", k, x, m[1], m[2])
				}
				live[m[1]] = [2]string{x, m[2]}
			}
			exists[x] = true
		case reDropTab.MatchString(s):
			for _, m := range reDropList.FindAllStringSubmatch(strings.TrimPrefix(s, "DROP TABLE"), -1) {
				x := ident(m[1])
				if !exists[x] {
					bad("stmt %d drops %s which does not exist", k, x)
				}
				dropped[x]++
				for fk, tr := range live {
					if tr[1] == x && tr[0] != x {
						bad("stmt %d drops %s while foreign key %s of table %s still points at it", k, x, fk, tr[0])
					}
				}
				for fk, tr := range live {
					if tr[0] == x {
						delete(live, fk)
					}
				}
				delete(exists, x)
			}
		case reDropSch.MatchString(s):
			// every table of the schema goes with it.
			sc := reDropSch.FindStringSubmatch(s)[1] + "."
			for fk, tr := range live {
				if strings.HasPrefix(tr[1], sc) && !strings.HasPrefix(tr[0], sc) {
					bad("stmt %d drops schema %s while foreign key %s of table %s still points at its table %s", k, strings.TrimSuffix(sc, "."), fk, tr[0], tr[1])
				}
			}
			for fk, tr := range live {
				if strings.HasPrefix(tr[0], sc) || strings.HasPrefix(tr[1], sc) {
					delete(live, fk)
				}
			}
			for x := range exists {
				if strings.HasPrefix(x, sc) {
					delete(exists, x)
				}
			}
		case reAlter.MatchString(s):
			x := ident(reAlter.FindStringSubmatch(s)[1])
			if !exists[x] {
				bad("stmt %d alters %s which does not exist", k, x)
			}
			for _, m := range reDropFK.FindAllStringSubmatch(s, -1) {
				if _, ok := live[m[1]]; !ok {
					bad("stmt %d drops foreign key %s which is not live", k, m[1])
				}
				delete(live, m[1])
			}
			for _, m := range reAddFK.FindAllStringSubmatch(s, -1) {
				m[2] = ident(m[2])
				if !exists[m[2]] {
					bad("stmt %d adds %s on %s referencing %s, which does not exist", k, m[1], x, m[2])
				}
				if _, ok := live[m[1]]; ok {
					bad("stmt %d adds foreign key %s twice", k, m[1])
				}
				live[m[1]] = [2]string{x, m[2]}
			}
		}
	}
	for x, n := range created {
		if n > 1 {
			bad("table %s created %d times", x, n)
		}
	}
	for x, n := range dropped {
		if n > 1 {
			bad("table %s dropped %d times", x, n)
		}
	}
	// final catalogue = desired.
	wantT, wantFK := map[string]bool{}, map[string]bool{}
	for _, sc := range des.Schemas {
		for _, t := range sc.Tables {
			wantT[tidOf(t)] = true
			for _, fk := range t.ForeignKeys {
				wantFK[fk.Symbol] = true
			}
		}
	}
	if fmt.Sprint(keys(exists)) != fmt.Sprint(keys(wantT)) {
		bad("final tables %v, desired %v", keys(exists), keys(wantT))
	}
	lk := map[string]bool{}
	for k := range live {
		lk[k] = true
	}
	if fmt.Sprint(keys(lk)) != fmt.Sprint(keys(wantFK)) {
		bad("final foreign keys %v, desired %v", keys(lk), keys(wantFK))
	}
	return
}

func keys(m map[string]bool) []string {
	var out []string
	for k, v := range m {
		if v {
			out = append(out, k)
		}
	}
	sort.Strings(out)
	return out
}

func Eval(c Case) (problems []string, stmts []string) {
	defer func() {
		if p := recover(); p != nil {
			problems = append(problems, fmt.Sprintf("panic: %v", p))
		}
	}()
	cur, des := build(c, c.Dialect)
	var differ schema.Differ = mysql.DefaultDiff
	var planner migrate.PlanApplier = mysql.DefaultPlan
	if c.Dialect == "postgres" {
		differ, planner = postgres.DefaultDiff, postgres.DefaultPlan
	}
	if c.Dialect == "tidb" {
		tidbOnce.Do(openTiDB)
		if tidbErr != nil {
			return []string{"harness: " + tidbErr.Error()}, nil
		}
		planner = tidbPlanner
	}
	var changes []schema.Change
	var err error
	if c.two() {
		changes, err = differ.RealmDiff(cur, des, schema.DiffNormalized())
	} else {
		changes, err = differ.SchemaDiff(cur.Schemas[0], des.Schemas[0], schema.DiffNormalized())
	}
	if err != nil {
		return []string{"diff: " + err.Error()}, nil
	}
	if len(changes) == 0 {
		return nil, nil
	}
	popt := func(o *migrate.PlanOptions) {
		o.Mode = migrate.PlanMode(c.Mode)
		if !c.two() {
			o.SchemaQualifier = new(string)
		}
	}
	plan, err := planner.PlanChanges(context.Background(), "p", changes, popt)
	if err != nil {
		return []string{"planning failed: " + err.Error()}, nil
	}
	for _, ch := range plan.Changes {
		stmts = append(stmts, ch.Cmd)
	}
	problems = replay(c, stmts)
	// the same change set planned again (what `schema apply` does: once for the summary, once to
	// apply) must give the same, equally valid plan - planning must not consume its input.
	plan2, err := planner.PlanChanges(context.Background(), "p", changes, popt)
	if err != nil {
		return append(problems, "planning the same change set a second time failed: "+err.Error()), stmts
	}
	var stmts2 []string
	for _, ch := range plan2.Changes {
		stmts2 = append(stmts2, ch.Cmd)
	}
	if strings.Join(stmts, "\n") != strings.Join(stmts2, "\n") {
		problems = append(problems, fmt.Sprintf("planning the same change set a second time gives a different plan: %q", stmts2))
		for _, p := range replay(c, stmts2) {
			problems = append(problems, "second plan: "+p)
		}
	}
	return problems, stmts
}

// the TiDB planner: the MySQL driver opened on a mocked connection that reports a TiDB version
// (planning issues no queries; one driver serves all cases).
var (
	tidbOnce    sync.Once
	tidbPlanner migrate.PlanApplier
	tidbErr     error
)

func openTiDB() {
	db, m, err := sqlmock.New()
	if err != nil {
		tidbErr = err
		return
	}
	m.ExpectQuery("SELECT @@version").WillReturnRows(sqlmock.NewRows([]string{"@@version", "@@collation_server", "@@character_set_server", "@@lower_case_table_names"}).
		AddRow("5.7.25-TiDB-v6.1.0", "utf8mb4_bin", "utf8mb4", 2))
	tidbPlanner, tidbErr = mysql.Open(db)
}

func splits(n int, f func([]int)) {
	dims := make([]int, n)
	for i := range dims {
		dims[i] = 3
	}
	enum.Product(dims, f)
}

func Run(r *report.Run) {
	maxFull := 3
	r.Rule = "every directed graph with self loops on n tables (n<=3: all 2^(n*n) graphs x all 3^n splits of the tables into kept/created/dropped x 3 modes for edges between kept tables {unchanged, added, dropped} x {MySQL, PostgreSQL; the TiDB planner (MySQL driver on a mocked TiDB connection) in the default plan mode} x plan mode {unset, deferred, in-place, dump}, for n<=3 also with the kept tables' foreign keys retargeted (ModifyForeignKey) and with every kept table losing / gaining an unrelated column in the same change, and for n in 2..3 also with the tables spread over two schemas (in a third layout a schema that loses all its tables is dropped) so that tables of different schemas share a name (realm diff, schema-qualified statements), and for n in 2..3 also with table names that differ in letter case only (T0, t0, T1); plus, for the three planners, 4096 large change sets on 5 tables (four kept tables gaining a column and a foreign key to a new table, and every subset of the 12 possible new foreign keys between them) and chains / rings of 1..16 new tables hanging off (or holding) a kept table; thorough adds n=4: all 65536 graphs x all 81 splits with kept-kept edges added, x 2 dialects, plan mode unset); changes from the real differ, plans from the real planners, every change set planned twice (identical plans required); each plan's statements are replayed from their text by a reference catalogue of existing tables and live foreign keys; non-trivial = case with a non-empty plan; distinct by construction"
	r.Assumptions = []string{
		"statement text is parsed by regular expressions over names the generator chose (t<i>, fk_<i>_<j>)",
		"random larger graphs are not claimed (sampling is a different family)",
	}
	type job struct {
		n     int
		graph uint32
	}
	var jobs []job
	for n := 1; n <= maxFull; n++ {
		for g := uint32(0); g < 1<<uint(n*n); g++ {
			jobs = append(jobs, job{n, g})
		}
	}
	if r.Tier == "thorough" {
		for g := uint32(0); g < 1<<16; g++ {
			jobs = append(jobs, job{4, g})
		}
	}
	var plans, nonEmpty atomic.Int64
	// watchdog: a plan must not loop.
	var cur sync.Map
	stop := make(chan struct{})
	go func() {
		for {
			select {
			case <-stop:
				return
			case <-time.After(time.Second):
			}
			cur.Range(func(k, v any) bool {
				if time.Since(v.(time.Time)) > 30*time.Second {
					c := k.(string)
					fmt.Printf("VIOLATION property=C04 replay=(hang)\n  planner did not terminate within 30s on case %s\n", c)
				}
				return true
			})
		}
	}()
	defer close(stop)
	enum.Parallel(len(jobs), func(i, w int) {
		if r.Expired() {
			return
		}
		j := jobs[i]
		splits(j.n, func(sp []int) {
			kks := []int{0, 1, 2}
			// (PlanModeUnsortedDump is unsorted by definition and not a mode the property speaks about.)
			modes := []int{int(migrate.PlanModeUnset), int(migrate.PlanModeDeferred), int(migrate.PlanModeInPlace), int(migrate.PlanModeDump)}
			if j.n == 4 {
				kks, modes = []int{1}, []int{int(migrate.PlanModeUnset)}
			}
			nk := 0
			for _, s := range sp {
				if s == 0 {
					nk++
				}
			}
			for _, kk := range kks {
				if kk != 0 && nk == 0 {
					continue // no kept tables: the three edge modes coincide
				}
				for _, d := range []string{"mysql", "postgres", "tidb"} {
					for mi, m := range modes {
						if d == "tidb" && (mi != 0 || j.n > 3) {
							continue // the TiDB planner: default plan mode, n<=3
						}
						// two-schema layout (same-named tables in different schemas) for n in 2..3, default mode.
						layouts := []int{0}
						if mi == 0 && j.n >= 2 && j.n <= 3 {
							layouts = []int{0, 2}
						}
						if mi == 0 && j.n >= 2 && j.n <= 3 && dropsSchema(sp) {
							layouts = append(layouts, 3)
						}
						for _, lay := range layouts {
							for _, rt := range []bool{false, true} {
								if rt && (kk != 0 || mi != 0 || j.n > 3 || nk == 0 || lay == 3) {
									continue
								}
								for _, cols := range []int{0, 1, 2} {
									if cols != 0 && (rt || mi != 0 || j.n > 3 || nk == 0 || lay != 0) {
										continue
									}
									for _, fold := range []bool{false, true} {
										if fold && (cols != 0 || rt || lay != 0 || mi != 0 || j.n < 2 || j.n > 3) {
											continue
										}
										c := Case{N: j.n, Graph: j.graph, Split: append([]int(nil), sp...), KK: kk, Dialect: d, Mode: m, Schemas: lay, Retarget: rt, Cols: cols, Fold: fold}
										key := fmt.Sprintf("%d-%v", w, c)
										cur.Store(key, time.Now())
										problems, stmts := Eval(c)
										cur.Delete(key)
										plans.Add(1)
										if len(stmts) > 0 {
											nonEmpty.Add(1)
										}
										if len(problems) > 0 {
											r.Violate(classify(c, problems), fmt.Sprintf("n=%d graph=%s split=%v kk=%d retarget=%v cols=%d %s mode=%d schemas=%d fold=%v: %s\n    plan: %s", c.N, edges(c), c.Split, c.KK, c.Retarget, c.Cols, c.Dialect, c.Mode, c.Schemas, c.Fold, strings.Join(problems, " | "), strings.Join(stmts, ";\n          ")), c)
										}
										if j.n == 3 && j.graph == 0b010001100 && kk == 1 && d == "postgres" && m == 0 && sp[0] == 0 && sp[1] == 1 && sp[2] == 2 && !c.Retarget && c.Cols == 0 && c.Schemas == 0 {
											r.Sample(map[string]any{"case": c, "edges": edges(c), "plan": stmts})
										}
									}
								}
							}
						}
					}
				}
			}
		})
	})
	// large change sets (more than a dozen single changes; the TiDB planner re-sorts them): four kept
	// tables that all gain a column and a foreign key to a fifth, new table, plus every subset of the
	// 12 possible foreign keys between the kept tables, all of them new.
	enum.Parallel(1<<12, func(sub, w int) {
		if r.Expired() {
			return
		}
		g, bit := uint32(0), 0
		for i := 0; i < 4; i++ {
			g |= 1 << uint(i*5+4)
			for j := 0; j < 4; j++ {
				if i == j {
					continue
				}
				if sub&(1<<bit) != 0 {
					g |= 1 << uint(i*5+j)
				}
				bit++
			}
		}
		for _, d := range []string{"mysql", "postgres", "tidb"} {
			c := Case{N: 5, Graph: g, Split: []int{0, 0, 0, 0, 1}, KK: 1, Dialect: d, Cols: 2}
			key := fmt.Sprintf("L%d-%v", w, c)
			cur.Store(key, time.Now())
			problems, stmts := Eval(c)
			cur.Delete(key)
			plans.Add(1)
			if len(stmts) > 0 {
				nonEmpty.Add(1)
			}
			if len(problems) > 0 {
				r.Violate(classify(c, problems), fmt.Sprintf("n=5 graph=%s split=%v kk=1 cols=2 %s: %s\n    plan: %s", edges(c), c.Split, c.Dialect, strings.Join(problems, " | "), strings.Join(stmts, ";\n          ")), c)
			}
		}
	})
	// chains of new tables of growing length (planners that re-sort many single changes).
	enum.Parallel(32, func(k, w int) {
		n := k/2 + 2 // 1..16 new tables + the kept one
		chain := n - 1
		if k%2 == 1 {
			chain = -chain
		}
		sp := make([]int, n)
		for i := 1; i < n; i++ {
			sp[i] = 1
		}
		for _, d := range []string{"mysql", "postgres", "tidb"} {
			for _, cu := range [][2]int{{0, 0}, {2, 0}, {2, 1}, {1, 1}} {
				cols := cu[0]
				c := Case{N: n, Split: sp, Dialect: d, Cols: cols, Chain: chain, Up: cu[1] == 1}
				problems, stmts := Eval(c)
				plans.Add(1)
				if len(stmts) > 0 {
					nonEmpty.Add(1)
				}
				if len(problems) > 0 {
					r.Violate(classify(c, problems), fmt.Sprintf("chain of %d new tables (cycle=%v) cols=%d %s: %s\n    plan: %s", n-1, chain < 0, cols, c.Dialect, strings.Join(problems, " | "), strings.Join(stmts, ";\n          ")), c)
				}
			}
		}
	})
	r.AddEvals(plans.Load())
	for i := int64(0); i < nonEmpty.Load(); i++ {
		r.CaseDistinct(true)
	}
	r.AddEvals(-nonEmpty.Load())
	r.Set("graphs", len(jobs))
	r.Set("plans", plans.Load())
}

var (
	reSchemaFirst       = regexp.MustCompile(`^(?:second plan: )?stmt \d+ drops schema s\d while foreign key (fk_\d+_\d+) of table \S+ still points at its table \S+$`)
	reTableBeforeSchema = regexp.MustCompile(`^(?:second plan: )?stmt \d+ drops \S+ while foreign key fk_\d+_\d+ of table (s\d)\.\S+ still points at it$`)
	reNotLive           = regexp.MustCompile(`^(?:second plan: )?stmt \d+ drops foreign key (fk_\d+_\d+) which is not live$`)
)

// classify names the known finding a failing case belongs to ("" = none): the planners emit
// DROP DATABASE / DROP SCHEMA ... CASCADE before the table changes, so a foreign key that points
// into the dropped schema from a table of another schema is still there (MySQL refuses the drop;
// PostgreSQL removes the key by CASCADE and the later DROP CONSTRAINT fails). Only cases that drop
// a schema, and in which every problem is this one or its direct consequence, are classified.
func classify(c Case, problems []string) string {
	if c.Schemas != 3 {
		return ""
	}
	if c.Dialect == "tidb" {
		// the TiDB planner puts DROP DATABASE last: a table of another schema that a foreign key of
		// the dropped schema points at is dropped while that key is still declared.
		dropped := map[string]bool{}
		for k := 0; k < 2; k++ {
			now, then := false, false
			for i, sp := range c.Split {
				if i%2 == k {
					now = now || sp != 1
					then = then || sp != 2
				}
			}
			if now && !then {
				dropped[fmt.Sprintf("s%d", k)] = true
			}
		}
		all := true
		for _, p := range problems {
			m := reTableBeforeSchema.FindStringSubmatch(p)
			all = all && m != nil && dropped[m[1]]
		}
		if all {
			return "tidb-schema-dropped-after-the-tables-its-foreign-keys-point-at"
		}
		// (two dropped schemas are dropped in name order, as by the MySQL planner: below.)
	}
	into := map[string]bool{}
	for _, p := range problems {
		if m := reSchemaFirst.FindStringSubmatch(p); m != nil {
			into[m[1]] = true
		}
	}
	for _, p := range problems {
		if reSchemaFirst.MatchString(p) {
			continue
		}
		if m := reNotLive.FindStringSubmatch(p); m != nil && into[m[1]] {
			continue
		}
		return ""
	}
	if len(into) == 0 {
		return ""
	}
	return "schema-dropped-before-the-foreign-keys-pointing-into-it"
}

// dropsSchema: in the two-schema layout one schema holds tables now and none in the desired state.
func dropsSchema(sp []int) bool {
	for k := 0; k < 2; k++ {
		now, then := false, false
		for i, s := range sp {
			if i%2 == k {
				now = now || s != 1
				then = then || s != 2
			}
		}
		if now && !then {
			return true
		}
	}
	return false
}

func edges(c Case) string {
	var out []string
	for i := 0; i < c.N; i++ {
		for j := 0; j < c.N; j++ {
			if c.has(i, j) {
				out = append(out, fmt.Sprintf("%d->%d", i, j))
			}
		}
	}
	return "{" + strings.Join(out, ",") + "}"
}

func Replay(r *report.Run, raw json.RawMessage) {
	var v struct{ Case Case }
	if err := json.Unmarshal(raw, &v); err != nil {
		r.Violate("", "bad replay file: "+err.Error(), nil)
		return
	}
	problems, stmts := Eval(v.Case)
	fmt.Printf("  case %+v edges %s\n", v.Case, edges(v.Case))
	for _, s := range stmts {
		fmt.Println("    ", s)
	}
	r.Case("a", true)
	r.Case("b", true)
	if len(problems) > 0 {
		r.Violate("", strings.Join(problems, " | "), v.Case)
	}
}
