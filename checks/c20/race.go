package c20

import (
	"bufio"
	"bytes"
	"encoding/json"
	"fmt"
	"os"
	"os/exec"
	"path/filepath"
	"regexp"
	"strconv"
	"strings"
	"sync"
)

// ---------- (4) independent operations running at the same time, under the race detector ----------
//
// The operations have no synchronisation below operation granularity, so a cooperative scheduler has
// nothing to interleave; what can go wrong is an unsynchronised access to state shared between
// operations (lazily built package-level tables, shared defaults). That is decided by a separate
// free-running pass of the same operation bodies in a binary built with -race: every unordered pair
// of operations (and every operation with itself) is run simultaneously, outputs are compared with
// the solo outputs, and any report of the race detector is a violation.

type RaceResult struct {
	Pairs      int      `json:"pairs"`
	Runs       int      `json:"runs"`
	Violations []string `json:"violations"`
}

// RaceWorker runs the pairs "i:j,i:j,..." (indices into Ops) rounds times each.
func RaceWorker(spec string, thorough bool, rounds int) RaceResult {
	ops := Ops(thorough)
	var res RaceResult
	for _, p := range strings.Split(spec, ",") {
		ij := strings.Split(p, ":")
		if len(ij) != 2 {
			continue
		}
		i, _ := strconv.Atoi(ij[0])
		j, _ := strconv.Atoi(ij[1])
		if i >= len(ops) || j >= len(ops) {
			continue
		}
		res.Pairs++
		for k := 0; k < rounds; k++ {
			var wg sync.WaitGroup
			start := make(chan struct{})
			outs := make([]string, 2)
			for n, o := range []Op{ops[i], ops[j]} {
				wg.Add(1)
				go func(n int, o Op) {
					defer wg.Done()
					<-start
					out, err := o.Run()
					if err != nil {
						out = "ERROR: " + err.Error()
					}
					outs[n] = out
				}(n, o)
			}
			close(start)
			wg.Wait()
			res.Runs += 2
			for n, o := range []Op{ops[i], ops[j]} {
				if want := os.Getenv("VERIF_SOLO_" + sha(o.Name)[:12]); want != "" && sha(outs[n]) != want {
					res.Violations = append(res.Violations, fmt.Sprintf("%s run at the same time as %s (round %d) gives an output different from its solo output", o.Name, []Op{ops[j], ops[i]}[n].Name, k))
				}
			}
		}
	}
	return res
}

var reRaceFrame = regexp.MustCompile(`(?m)^\s+(ariga\.io/atlas/[^\s(]+)\(`)

// racePass spawns the -race binary over all pairs, in chunks; returns pairs, runs, violations (message, case).
func racePass(tier string, solo map[string]string, nOps int) (pairs, runs int, viol []struct {
	Msg  string
	Case map[string]any
}, err error) {
	exe, err := os.Executable()
	if err != nil {
		return 0, 0, nil, err
	}
	bin := filepath.Join(filepath.Dir(exe), "check20race")
	if _, err := os.Stat(bin); err != nil {
		return 0, 0, nil, fmt.Errorf("race binary missing: %v (./check C20 builds it)", err)
	}
	var all []string
	for i := 0; i < nOps; i++ {
		for j := i; j < nOps; j++ {
			all = append(all, fmt.Sprintf("%d:%d", i, j))
		}
	}
	var env []string
	for n, h := range solo {
		env = append(env, "VERIF_SOLO_"+sha(n)[:12]+"="+h)
	}
	env = append(env, "VERIF_MAPCTL=0", "GORACE=halt_on_error=0 exitcode=66")
	const chunk = 6
	var chunks [][]string
	for i := 0; i < len(all); i += chunk {
		e := i + chunk
		if e > len(all) {
			e = len(all)
		}
		chunks = append(chunks, all[i:e])
	}
	type out struct {
		res    RaceResult
		stderr string
		code   int
		err    error
	}
	outs := make([]out, len(chunks))
	var wg sync.WaitGroup
	sem := make(chan struct{}, 8)
	for c := range chunks {
		wg.Add(1)
		go func(c int) {
			defer wg.Done()
			sem <- struct{}{}
			defer func() { <-sem }()
			cmd := exec.Command(bin, "--pairs", strings.Join(chunks[c], ","), "--tier", tier)
			cmd.Env = append(os.Environ(), env...)
			var so, se bytes.Buffer
			cmd.Stdout, cmd.Stderr = &so, &se
			runErr := cmd.Run()
			o := out{stderr: se.String()}
			if ee, ok := runErr.(*exec.ExitError); ok {
				o.code = ee.ExitCode()
			} else if runErr != nil {
				o.err = runErr
			}
			if derr := json.NewDecoder(bufio.NewReader(&so)).Decode(&o.res); derr != nil && o.err == nil && o.code != 66 {
				o.err = fmt.Errorf("decoding worker output: %v (stderr %q)", derr, truncN(se.String(), 300))
			}
			outs[c] = o
		}(c)
	}
	wg.Wait()
	for c, o := range outs {
		if o.err != nil {
			return pairs, runs, viol, fmt.Errorf("race worker %v: %v", chunks[c], o.err)
		}
		pairs += o.res.Pairs
		runs += o.res.Runs
		for _, v := range o.res.Violations {
			viol = append(viol, struct {
				Msg  string
				Case map[string]any
			}{v, map[string]any{"race_pairs": chunks[c]}})
		}
		if strings.Contains(o.stderr, "DATA RACE") || o.code == 66 {
			seen := map[string]bool{}
			var frames []string
			for _, m := range reRaceFrame.FindAllStringSubmatch(o.stderr, -1) {
				if !seen[m[1]] && len(frames) < 6 {
					seen[m[1]] = true
					frames = append(frames, m[1])
				}
			}
			viol = append(viol, struct {
				Msg  string
				Case map[string]any
			}{fmt.Sprintf("data race reported while running operation pairs %v at the same time; atlas frames: %v", chunks[c], frames),
				map[string]any{"race_pairs": chunks[c], "report": truncN(o.stderr, 3000)}})
		} else if o.code != 0 {
			return pairs, runs, viol, fmt.Errorf("race worker %v exited %d: %s", chunks[c], o.code, truncN(o.stderr, 400))
		}
	}
	return pairs, runs, viol, nil
}

func truncN(s string, n int) string {
	if len(s) > n {
		return s[:n] + "..."
	}
	return s
}
