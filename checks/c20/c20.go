package c20

import (
	"bufio"
	"context"
	"crypto/sha256"
	"encoding/hex"
	"encoding/json"
	"fmt"
	"os"
	"os/exec"
	"runtime"
	"sort"
	"strings"
	"sync"

	"ariga.io/atlas/sql/migrate"
	"ariga.io/atlas/sql/schema"
	"ariga.io/atlas/sql/sqlite"

	"verif/c20rt"
	"verif/engine/enum"
	"verif/engine/report"
	"verif/sqliteh"
	"verif/universe/dfu"
	"verif/universe/squ"
)

type siteInfo struct {
	PC   uintptr `json:"pc"`
	Func string  `json:"func"`
	File string  `json:"file"`
}

type deviation struct {
	Sites []string `json:"sites"` // functions whose map iteration start was changed ("*" = every site)
	R     []uint64 `json:"r"`
	Hash0 uint32   `json:"hash0"`
	Diff  string   `json:"diff"`
}

// WorkerResult is what one worker process reports for one operation.
type WorkerResult struct {
	Op         string      `json:"op"`
	Hash0      uint32      `json:"hash0"`
	Controlled bool        `json:"controlled"`
	Err        string      `json:"err,omitempty"`
	Out0       string      `json:"out0_sha256"`
	Out0Len    int         `json:"out0_len"`
	Sites      []siteInfo  `json:"sites"`
	Runs       int         `json:"runs"`
	MapIters   uint64      `json:"map_iterations_at_baseline"`
	Deviations []deviation `json:"violations"`
}

func sha(s string) string { h := sha256.Sum256([]byte(s)); return hex.EncodeToString(h[:]) }

func firstDiff(a, b string) string {
	la, lb := strings.Split(a, "\n"), strings.Split(b, "\n")
	for i := 0; i < len(la) && i < len(lb); i++ {
		if la[i] != lb[i] {
			return fmt.Sprintf("line %d: baseline %q, deviated %q", i+1, trunc(la[i]), trunc(lb[i]))
		}
	}
	return fmt.Sprintf("length differs: %d vs %d lines", len(la), len(lb))
}

func trunc(s string) string {
	if len(s) > 300 {
		return s[:300] + "..."
	}
	return s
}

var rValues = []uintptr{1, 2, 3, 4, 5, 6, 7, 8, 9, 11, 13, 15, 23, 31}

// Worker runs one operation under every map-order deviation (called in a process started with VERIF_MAPCTL=1).
func Worker(opName string, thorough bool) WorkerResult {
	res := WorkerResult{Op: opName, Hash0: c20rt.Map.Hash0, Controlled: c20rt.Map.Mode == 1}
	var op *Op
	for _, o := range Ops(thorough) {
		if o.Name == opName {
			o := o
			op = &o
		}
	}
	if op == nil {
		res.Err = "unknown op"
		return res
	}
	run := func() string {
		res.Runs++
		out, err := op.Run()
		if err != nil {
			return "ERROR: " + err.Error()
		}
		return out
	}
	m := &c20rt.Map
	m.R, m.SitePC, m.SiteR = 0, [4]uintptr{}, [4]uintptr{}
	m.Log, m.NSites, m.Calls = 1, 0, 0
	out0 := run()
	res.MapIters = m.Calls
	m.Log = 0
	sites := append([]uintptr(nil), m.Sites[:m.NSites]...)
	res.Out0, res.Out0Len = sha(out0), len(out0)
	if strings.HasPrefix(out0, "ERROR: ") {
		res.Err = out0
		return res
	}
	if i := strings.Index(out0, "REPEAT-MISMATCH"); i >= 0 {
		end := strings.IndexByte(out0[i:], '\n')
		res.Deviations = append(res.Deviations, deviation{Sites: []string{"<none: same inputs planned twice in one process>"}, Hash0: m.Hash0, Diff: out0[i : i+end]})
		return res
	}
	if again := run(); again != out0 {
		res.Deviations = append(res.Deviations, deviation{Sites: []string{"<none: plain repetition>"}, Hash0: m.Hash0, Diff: firstDiff(out0, again)})
		return res
	}
	if !res.Controlled {
		return res
	}
	for _, pc := range sites {
		f := runtime.FuncForPC(pc)
		file, line := f.FileLine(pc)
		res.Sites = append(res.Sites, siteInfo{pc, f.Name(), fmt.Sprintf("%s:%d", file, line)})
	}
	name := func(pc uintptr) string { return runtime.FuncForPC(pc).Name() }
	// every site shifted at once
	for _, r := range rValues {
		m.R = r
		if out := run(); out != out0 {
			res.Deviations = append(res.Deviations, deviation{[]string{"*"}, []uint64{uint64(r)}, m.Hash0, firstDiff(out0, out)})
		}
	}
	m.R = 0
	// one site at a time (deviation bound 1)
	for _, pc := range sites {
		for _, r := range rValues {
			m.SitePC[0], m.SiteR[0] = pc, r
			if out := run(); out != out0 {
				res.Deviations = append(res.Deviations, deviation{[]string{name(pc)}, []uint64{uint64(r)}, m.Hash0, firstDiff(out0, out)})
				break
			}
		}
	}
	m.SitePC[0] = 0
	// pairs of sites inside atlas packages (deviation bound 2)
	if thorough {
		var atlas []uintptr
		for _, pc := range sites {
			if strings.Contains(name(pc), "ariga.io/atlas") {
				atlas = append(atlas, pc)
			}
		}
		for i := range atlas {
			for j := i + 1; j < len(atlas); j++ {
				for _, r1 := range []uintptr{1, 3, 7} {
					for _, r2 := range []uintptr{1, 3, 7} {
						m.SitePC[0], m.SiteR[0], m.SitePC[1], m.SiteR[1] = atlas[i], r1, atlas[j], r2
						if out := run(); out != out0 {
							res.Deviations = append(res.Deviations, deviation{[]string{name(atlas[i]), name(atlas[j])}, []uint64{uint64(r1), uint64(r2)}, m.Hash0, firstDiff(out0, out)})
						}
					}
				}
			}
		}
		m.SitePC, m.SiteR = [4]uintptr{}, [4]uintptr{}
	}
	return res
}

// SeqWorker runs every sequence of <=depth operations in this one process and compares each
// operation's output with its output when it runs first (shared mutable state shows as a difference).
type SeqResult struct {
	Sequences  int      `json:"sequences"`
	Violations []string `json:"violations"`
}

func SeqWorker(depth int, thorough bool) SeqResult {
	all := Ops(thorough)
	pick := []string{"plan/mysql", "plan/postgres", "plan/sqlite", "marshal_hcl/mysql", "eval_marshal/postgres", "format/all", "checksum/memdir+localdir", "diff_order/sqlite", "diff_inherit/mysql/charset", "diff_inherit/mysql/collate"}
	var ops []Op
	for _, n := range pick {
		for _, o := range all {
			if o.Name == n {
				ops = append(ops, o)
			}
		}
	}
	var res SeqResult
	// solo outputs: from fresh child processes, so that nothing ran before them.
	solo := map[string]string{}
	for _, o := range ops {
		solo[o.Name] = os.Getenv("VERIF_SOLO_" + sha(o.Name)[:12])
	}
	var seq []int
	var rec func(d int)
	rec = func(d int) {
		if len(seq) > 0 {
			res.Sequences++
			// run the sequence; check the last op (prefixes are checked by shorter sequences).
			var last string
			for _, i := range seq {
				out, err := ops[i].Run()
				if err != nil {
					out = "ERROR: " + err.Error()
				}
				last = out
			}
			lo := ops[seq[len(seq)-1]]
			if want := solo[lo.Name]; want != "" && sha(last) != want {
				var names []string
				for _, i := range seq {
					names = append(names, ops[i].Name)
				}
				res.Violations = append(res.Violations, fmt.Sprintf("after %v the output of %s differs from its output as the first operation of a fresh process", names[:len(names)-1], lo.Name))
			}
		}
		if d == 0 {
			return
		}
		for i := range ops {
			seq = append(seq, i)
			rec(d - 1)
			seq = seq[:len(seq)-1]
		}
	}
	rec(depth)
	return res
}

// ---------- declaration order ----------

type OrderResult struct {
	Cases      int      `json:"cases"`
	Violations []string `json:"violations"`
}

// hclBlocks: 4 top-level table blocks (with a cycle-free FK chain) whose order is permuted, and within
// table "t" the index / foreign_key / check blocks permuted.
func declOrder() OrderResult {
	var res OrderResult
	ctx := context.Background()
	db := squ.Skeleton()
	for _, f := range squ.Features {
		switch f.Name {
		case "idx_a", "uq_b", "idx_a_b", "fk_parent_cascade", "fk_self", "check_named", "check_paren_literal", "table_x":
			f.Apply(db)
		}
	}
	plan := func(d *squ.DB) ([]string, string, error) {
		r := &schema.Realm{}
		if err := sqlite.EvalHCLBytes([]byte(d.HCL()), r, nil); err != nil {
			return nil, "", err
		}
		e, err := sqliteh.Open(ctx)
		if err != nil {
			return nil, "", err
		}
		defer e.Close()
		cur, err := e.Atlas.InspectRealm(ctx, nil)
		if err != nil {
			return nil, "", err
		}
		cs, err := e.Atlas.RealmDiff(cur, r, schema.DiffNormalized())
		if err != nil {
			return nil, "", err
		}
		p, err := e.Atlas.PlanChanges(ctx, "p", cs, func(o *migrate.PlanOptions) { o.Indent = "  " })
		if err != nil {
			return nil, "", err
		}
		var stmts []string
		for _, c := range p.Changes {
			stmts = append(stmts, c.Cmd)
		}
		if err := e.Atlas.ApplyChanges(ctx, cs); err != nil {
			return nil, "", err
		}
		cat, err := sqliteh.Dump(ctx, e.Own, sqliteh.DumpOptions{UniqueOriginInsensitive: true})
		return stmts, cat.String(), err
	}
	base, baseCat, err := plan(db)
	if err != nil {
		res.Violations = append(res.Violations, "harness: "+err.Error())
		return res
	}
	// a statement is compared as the multiset of its clause lines: the constraints of one CREATE TABLE
	// are independent clauses whose order follows the declaration order, like independent statements do.
	canonStmt := func(st string) string {
		lines := strings.Split(st, "\n")
		for i := range lines {
			lines[i] = strings.TrimSuffix(strings.TrimSpace(lines[i]), ",")
		}
		sort.Strings(lines)
		return strings.Join(lines, "\n")
	}
	canonAll := func(sts []string) []string {
		out := make([]string, len(sts))
		for i, st := range sts {
			out[i] = canonStmt(st)
		}
		sort.Strings(out)
		return out
	}
	sortedBase := canonAll(base)
	check := func(what string, d *squ.DB) {
		res.Cases++
		st, cat, err := plan(d)
		if err != nil {
			res.Violations = append(res.Violations, what+": "+err.Error())
			return
		}
		s2 := canonAll(st)
		if strings.Join(s2, "\n") != strings.Join(sortedBase, "\n") {
			res.Violations = append(res.Violations, what+": the statements differ in content, not only in order: "+firstDiff(strings.Join(sortedBase, "\n"), strings.Join(s2, "\n")))
		}
		if cat != baseCat {
			res.Violations = append(res.Violations, what+": applying the re-ordered source yields a different schema")
		}
	}
	enum.Permutations(len(db.Tables), func(p []int) {
		d := &squ.DB{}
		for _, i := range p {
			d.Tables = append(d.Tables, db.Tables[i])
		}
		check(fmt.Sprintf("tables in order %v", p), d)
	})
	t := db.Table("t")
	enum.Permutations(len(t.Idx), func(p []int) {
		nt := *t
		nt.Idx = nil
		for _, i := range p {
			nt.Idx = append(nt.Idx, t.Idx[i])
		}
		d := &squ.DB{}
		for _, x := range db.Tables {
			if x.Name == "t" {
				d.Tables = append(d.Tables, &nt)
			} else {
				d.Tables = append(d.Tables, x)
			}
		}
		check(fmt.Sprintf("indexes of t in order %v", p), d)
	})
	for _, rev := range []string{"fks", "checks"} {
		nt := *t
		if rev == "fks" {
			nt.FKs = []squ.FK{t.FKs[1], t.FKs[0]}
		} else {
			nt.Checks = []squ.Check{t.Checks[1], t.Checks[0]}
		}
		d := &squ.DB{}
		for _, x := range db.Tables {
			if x.Name == "t" {
				d.Tables = append(d.Tables, &nt)
			} else {
				d.Tables = append(d.Tables, x)
			}
		}
		check(rev+" of t reversed", d)
	}
	return res
}

// ---------- parent ----------

func spawn(args []string, env []string, v any) error {
	exe, err := os.Executable()
	if err != nil {
		return err
	}
	cmd := exec.Command(exe, args...)
	cmd.Env = append(os.Environ(), env...)
	cmd.Stderr = os.Stderr
	out, err := cmd.StdoutPipe()
	if err != nil {
		return err
	}
	if err := cmd.Start(); err != nil {
		return err
	}
	dec := json.NewDecoder(bufio.NewReaderSize(out, 1<<20))
	derr := dec.Decode(v)
	if err := cmd.Wait(); err != nil {
		return fmt.Errorf("worker %v: %w", args, err)
	}
	return derr
}

func Run(r *report.Run) {
	thorough := r.Tier == "thorough"
	r.Rule = "(1) map order as an environment answer: the check binary is linked against a Go runtime whose map-iteration start (per call site) and per-map hash seed are chosen by the harness; for each of 24 operations (plans of the 3 planners over the differ universe incl. reverse statements and comments, order of diff results, MarshalHCL (also of a three-schema realm whose table names collide with each other and with the qualifier labels), EvalHCL+marshal, 6 formatters, MemDir/LocalDir checksums, Validate error classification, scope error text, evaluation of a schema split over 6 HCL files with a local used across files, replay of two migration directories - one creating a view - on one process-wide SQLite dev connection, MySQL diffs that derive the default collation of a stated character set / the character set of a stated collation through the process-wide differ's lazily loaded tables) the baseline (start 0) is compared byte for byte with: every site shifted at once (14 start values), one site at a time (deviation bound 1; thorough: pairs of atlas sites, bound 2), worker processes with hash seed 0,1(,2), and an uncontrolled (really random) process; (2) declaration order: all permutations of the top-level blocks and of the index blocks, reversed foreign-key/check blocks of an HCL source -> same multiset of statements and equal SQLite catalogue; (3) every sequence of <=2 (thorough 3) operations from a 10-operation alphabet in one process: the last operation's output equals its output as first operation of a fresh process; (4) every unordered pair of the operations (and each with itself) run at the same time, twice, in a binary built with -race: outputs equal the solo outputs and the race detector reports nothing; (5) the real atlas CLI linked against the same runtime: 10 commands (schema inspect as HCL/SQL/JSON, schema apply --dry-run and schema diff against a desired state split over several files and directories, migrate diff writing a file and atlas.sum, migrate hash, migrate lint as JSON, migrate apply --dry-run, migrate apply --dry-run --env with two template_dir data sources over one path) x hash seeds {0,1,2} x iteration starts {0,1,2,3,5,7} at every site, plus two runs with real randomness: stdout, exit status and every file written must be byte-identical to the baseline (work-directory paths and printed durations masked); non-trivial = run under a non-default answer; distinct = (operation, deviation)"
	r.Assumptions = []string{
		"in the declaration-order part a statement is compared as the multiset of its clause lines (constraint clauses of one CREATE TABLE are independent and follow declaration order)",
		"wall-clock stamps written by third-party formatters are masked (14 digits); Plan.Version is always supplied",
		"the operations have no synchronisation below operation granularity (except the memDirs mutex), so there is nothing for a controlled scheduler to interleave; unsynchronised sharing is decided by the separate free-running -race pass (4), whose interleavings are the ones that happened, not an enumeration",
		"maps created before the runtime read the environment (runtime start-up) are not controlled",
	}
	ops := Ops(thorough)
	hashes := []uint32{0, 1}
	if thorough {
		hashes = append(hashes, 2, 7)
	}
	type job struct {
		op         string
		hash0      uint32
		controlled bool
	}
	var jobs []job
	for _, o := range ops {
		for _, h := range hashes {
			jobs = append(jobs, job{o.Name, h, true})
		}
		jobs = append(jobs, job{o.Name, 0, false}, job{o.Name, 0, false})
	}
	results := make([]WorkerResult, len(jobs))
	var mu sync.Mutex
	enum.Parallel(len(jobs), func(i, _ int) {
		j := jobs[i]
		env := []string{"VERIF_MAPCTL=0"}
		if j.controlled {
			env = []string{"VERIF_MAPCTL=1", fmt.Sprintf("VERIF_MAPHASH0=%d", j.hash0)}
		}
		args := []string{"C20", "--worker", j.op, "--tier", r.Tier}
		var wr WorkerResult
		if err := spawn(args, env, &wr); err != nil {
			mu.Lock()
			r.Violate("", fmt.Sprintf("harness: worker for %s failed: %v", j.op, err), nil)
			mu.Unlock()
			return
		}
		results[i] = wr
	})
	siteSet := map[string]bool{}
	atlasSites := map[string]bool{}
	totalRuns := 0
	solo := map[string]string{}
	perOp := map[string]map[string]bool{}
	for i, wr := range results {
		j := jobs[i]
		totalRuns += wr.Runs
		if wr.Err != "" {
			r.Violate("", fmt.Sprintf("%s: operation failed: %s", j.op, wr.Err), map[string]any{"op": j.op})
			continue
		}
		if perOp[j.op] == nil {
			perOp[j.op] = map[string]bool{}
		}
		perOp[j.op][wr.Out0] = true
		solo[j.op] = wr.Out0
		for _, s := range wr.Sites {
			siteSet[s.Func] = true
			if strings.Contains(s.Func, "ariga.io/atlas") {
				atlasSites[s.Func+" ("+s.File[strings.LastIndex(s.File, "/")+1:]+")"] = true
			}
		}
		for k := 0; k < wr.Runs; k++ {
			r.CaseDistinct(k > 1)
		}
		for _, d := range wr.Deviations {
			r.Violate("", fmt.Sprintf("%s: output changes when map iteration at %v starts at %v (hash seed %d): %s", j.op, d.Sites, d.R, d.Hash0, d.Diff),
				map[string]any{"op": j.op, "sites": d.Sites, "r": d.R, "hash0": d.Hash0})
		}
	}
	for op, hs := range perOp {
		if len(hs) > 1 {
			r.Violate("", fmt.Sprintf("%s: output differs between processes (hash seeds / real randomness): %d distinct outputs", op, len(hs)), map[string]any{"op": op, "processes": true})
		}
	}
	// (3) operation sequences
	depth := 2
	if thorough {
		depth = 3
	}
	var env []string
	for n, h := range solo {
		env = append(env, "VERIF_SOLO_"+sha(n)[:12]+"="+h)
	}
	var sr SeqResult
	if err := spawn([]string{"C20", "--seq", fmt.Sprint(depth), "--tier", r.Tier}, append(env, "VERIF_MAPCTL=0"), &sr); err != nil {
		r.Violate("", "harness: sequence worker failed: "+err.Error(), nil)
	}
	for _, v := range sr.Violations {
		r.Violate("", v, map[string]any{"sequence": v})
	}
	for i := 0; i < sr.Sequences; i++ {
		r.CaseDistinct(true)
	}
	// (2) declaration order
	or := declOrder()
	for _, v := range or.Violations {
		r.Violate("", "declaration order: "+v, map[string]any{"declaration_order": v})
	}
	for i := 0; i < or.Cases; i++ {
		r.CaseDistinct(true)
	}
	// (4) pairs of operations at the same time, under the race detector
	rp, rr, rv, rerr := racePass(r.Tier, solo, len(ops))
	if rerr != nil {
		r.Violate("", "harness: "+rerr.Error(), nil)
	}
	for _, v := range rv {
		r.Violate("", v.Msg, v.Case)
	}
	for i := 0; i < rr; i++ {
		r.CaseDistinct(true)
	}
	// (5) the real CLI under chosen map order
	r.Set("cli_runs_under_chosen_map_order", cliPass(r, thorough))
	r.Set("concurrent_operation_pairs_under_race_detector", rp)
	r.Set("concurrent_operation_runs", rr)
	var as []string
	for s := range atlasSites {
		as = append(as, s)
	}
	sort.Strings(as)
	r.Set("operations", len(ops))
	r.Set("worker_processes", len(jobs))
	r.Set("operation_runs_under_chosen_map_order", totalRuns)
	r.Set("map_iteration_sites_reached", len(siteSet))
	r.Set("atlas_map_iteration_sites_reached", as)
	r.Set("operation_sequences", sr.Sequences)
	r.Set("declaration_order_cases", or.Cases)
	r.Sample(map[string]any{"op": "plan/mysql", "deviation": "site ariga.io/atlas/sql/internal/sqlx.SortChanges start=3", "expected": "bytes identical to the baseline"})
}

func Replay(r *report.Run, raw json.RawMessage) {
	r.Case("a", true)
	r.Case("b", true)
	var v struct {
		Case struct {
			Op string `json:"op"`
		}
	}
	json.Unmarshal(raw, &v)
	if v.Case.Op == "" {
		fmt.Println("  replay of sequence / declaration-order / concurrent-pair cases: re-run ./check C20")
		return
	}
	var wr WorkerResult
	if err := spawn([]string{"C20", "--worker", v.Case.Op, "--tier", "thorough"}, []string{"VERIF_MAPCTL=1", "VERIF_MAPHASH0=0"}, &wr); err != nil {
		r.Violate("", err.Error(), nil)
		return
	}
	for _, d := range wr.Deviations {
		r.Violate("", fmt.Sprintf("%s: output changes when map iteration at %v starts at %v: %s", v.Case.Op, d.Sites, d.R, d.Diff), v.Case)
	}
}

var _ = dfu.Dialects
