// Package c20: outputs are deterministic - same inputs give byte-identical plans, HCL and sums.
package c20

import (
	"context"
	"errors"
	"fmt"
	"os"
	"regexp"
	"sort"
	"strings"
	"sync"
	"verif/sqliteh"

	"ariga.io/atlas/sql/migrate"
	"ariga.io/atlas/sql/mysql"
	"ariga.io/atlas/sql/postgres"
	"ariga.io/atlas/sql/schema"
	"ariga.io/atlas/sql/sqlite"
	"ariga.io/atlas/sql/sqltool"

	"github.com/hashicorp/hcl/v2/hclparse"
	"github.com/zclconf/go-cty/cty"

	"verif/universe/dfu"
)

// Op is one deterministic operation: same inputs must give the same bytes.
type Op struct {
	Name string
	Run  func() (string, error)
}

var reNow = regexp.MustCompile(`\d{14}`)

func planner(d *dfu.Dialect) migrate.PlanApplier {
	switch d {
	case dfu.MySQL:
		return mysql.DefaultPlan
	case dfu.Postgres:
		return postgres.DefaultPlan
	}
	return sqlite.DefaultPlan
}

func marshal(d *dfu.Dialect, v any) ([]byte, error) {
	switch d {
	case dfu.MySQL:
		return mysql.MarshalHCL.MarshalSpec(v)
	case dfu.Postgres:
		return postgres.MarshalHCL.MarshalSpec(v)
	}
	return sqlite.MarshalHCL.MarshalSpec(v)
}

func evalHCL(d *dfu.Dialect, b []byte, v any) error {
	var f func([]byte, any, map[string]cty.Value) error
	switch d {
	case dfu.MySQL:
		f = mysql.EvalHCLBytes
	case dfu.Postgres:
		f = postgres.EvalHCLBytes
	default:
		f = sqlite.EvalHCLBytes
	}
	return f(b, v, nil)
}

// changeSets returns named change sets of the dialect from the real differ.
func changeSets(d *dfu.Dialect, pairs bool) (names []string, sets [][]schema.Change, err error) {
	add := func(n string, from, to *schema.Schema) {
		cs, e := d.Diff.SchemaDiff(from, to, schema.DiffNormalized())
		if e != nil || len(cs) == 0 {
			return
		}
		names, sets = append(names, n), append(sets, cs)
	}
	empty := func() *schema.Schema { s := schema.New(d.Schema); schema.NewRealm(s); return s }
	add("create_all", empty(), dfu.Base(d))
	add("drop_all", dfu.Base(d), empty())
	es := dfu.Edits(d)
	for _, e := range es {
		to := dfu.Base(d)
		e.Apply(to)
		add(e.Name, dfu.Base(d), to)
	}
	if pairs {
		for i := range es {
			for j := i + 1; j < len(es); j++ {
				if dfu.Compatible(es[i], es[j]) && (i+j)%7 == 0 {
					to := dfu.Base(d)
					es[i].Apply(to)
					es[j].Apply(to)
					add(es[i].Name+"+"+es[j].Name, dfu.Base(d), to)
				}
			}
		}
	}
	// a change set with every table edit at once (many sub-changes on one table, several tables).
	to := dfu.Base(d)
	for _, n := range []string{"add_table", "drop_table", "add_column", "drop_column", "col_type", "add_index", "drop_index", "index_part_desc", "add_fk", "drop_fk", "add_check", "drop_check"} {
		for _, e := range es {
			if e.Name == n {
				e.Apply(to)
			}
		}
	}
	add("many_edits", dfu.Base(d), to)
	// two tables referencing each other, created together and dropped together (reference cycle).
	cyc := func() *schema.Schema {
		s := empty()
		a, b := schema.NewTable("cyc_a"), schema.NewTable("cyc_b")
		aid, ab := &schema.Column{Name: "id", Type: &schema.ColumnType{Type: d.Int()}}, &schema.Column{Name: "b_id", Type: &schema.ColumnType{Type: d.Int(), Null: true}}
		bid, ba := &schema.Column{Name: "id", Type: &schema.ColumnType{Type: d.Int()}}, &schema.Column{Name: "a_id", Type: &schema.ColumnType{Type: d.Int(), Null: true}}
		a.AddColumns(aid, ab).SetPrimaryKey(schema.NewPrimaryKey(aid))
		b.AddColumns(bid, ba).SetPrimaryKey(schema.NewPrimaryKey(bid))
		a.AddForeignKeys(&schema.ForeignKey{Symbol: "a_b", Table: a, Columns: []*schema.Column{ab}, RefTable: b, RefColumns: []*schema.Column{bid}})
		b.AddForeignKeys(&schema.ForeignKey{Symbol: "b_a", Table: b, Columns: []*schema.Column{ba}, RefTable: a, RefColumns: []*schema.Column{aid}})
		s.AddTables(a, b)
		return s
	}
	// several independent parent/child chains: the dependency map has many keys.
	fan := func() *schema.Schema {
		s := empty()
		for i := 0; i < 5; i++ {
			par, ch := schema.NewTable(fmt.Sprintf("fan_p%d", i)), schema.NewTable(fmt.Sprintf("fan_c%d", 4-i))
			pid := &schema.Column{Name: "id", Type: &schema.ColumnType{Type: d.Int()}}
			cid, cp := &schema.Column{Name: "id", Type: &schema.ColumnType{Type: d.Int()}}, &schema.Column{Name: "p_id", Type: &schema.ColumnType{Type: d.Int(), Null: true}}
			par.AddColumns(pid).SetPrimaryKey(schema.NewPrimaryKey(pid))
			ch.AddColumns(cid, cp).SetPrimaryKey(schema.NewPrimaryKey(cid))
			ch.AddForeignKeys(&schema.ForeignKey{Symbol: fmt.Sprintf("fan_fk%d", i), Table: ch, Columns: []*schema.Column{cp}, RefTable: par, RefColumns: []*schema.Column{pid}})
			s.AddTables(ch, par)
		}
		return s
	}
	add("fanout_create", empty(), fan())
	add("fanout_drop", fan(), empty())
	add("cycle_create", empty(), cyc())
	add("cycle_drop", cyc(), empty())
	if d == dfu.Postgres {
		// an enum type that loses most of its values (whatever the planner makes of it - statements or a
		// refusal - is the same text every time).
		sc := empty()
		from := &schema.EnumType{T: "mood8", Schema: sc, Values: []string{"v1", "v2", "v3", "v4", "v5", "v6", "v7", "v8"}}
		to := &schema.EnumType{T: "mood8", Schema: sc, Values: []string{"v1"}}
		names, sets = append(names, "enum_values_dropped"), append(sets, []schema.Change{&schema.ModifyObject{From: from, To: to}})
		to2 := &schema.EnumType{T: "mood8", Schema: sc, Values: []string{"v0", "v1", "v4", "v9"}}
		names, sets = append(names, "enum_values_dropped_and_added"), append(sets, []schema.Change{&schema.ModifyObject{From: from, To: to2}})
	}
	return
}

func opPlans(d *dfu.Dialect, pairs bool) Op {
	return Op{"plan/" + d.Name, func() (string, error) {
		names, sets, err := changeSets(d, pairs)
		if err != nil {
			return "", err
		}
		var b strings.Builder
		for i, cs := range sets {
			for _, indent := range []string{"", "  "} {
				plan, err := planner(d).PlanChanges(context.Background(), "p", cs, func(o *migrate.PlanOptions) {
					o.Indent = indent
					o.SchemaQualifier = new(string)
				})
				if err != nil {
					fmt.Fprintf(&b, "## %s: plan error: %v\n", names[i], err)
					continue
				}
				fmt.Fprintf(&b, "## %s indent=%q reversible=%v\n", names[i], indent, plan.Reversible)
				var first strings.Builder
				for _, c := range plan.Changes {
					rs, _ := c.ReverseStmts()
					fmt.Fprintf(&first, "%s\n-- %s\n-- reverse: %q\n", c.Cmd, c.Comment, rs)
				}
				b.WriteString(first.String())
				// planning the very same change set again must give the same bytes (no state kept, inputs not consumed).
				again, err := planner(d).PlanChanges(context.Background(), "p", cs, func(o *migrate.PlanOptions) {
					o.Indent = indent
					o.SchemaQualifier = new(string)
				})
				var second strings.Builder
				if err == nil {
					for _, c := range again.Changes {
						rs, _ := c.ReverseStmts()
						fmt.Fprintf(&second, "%s\n-- %s\n-- reverse: %q\n", c.Cmd, c.Comment, rs)
					}
				}
				if err != nil || second.String() != first.String() {
					fmt.Fprintf(&b, "REPEAT-MISMATCH: planning the same change set %s a second time gives a different plan (err=%v)\n", names[i], err)
				}
			}
		}
		return b.String(), nil
	}}
}

func opDiffOrder(d *dfu.Dialect) Op {
	return Op{"diff_order/" + d.Name, func() (string, error) {
		_, sets, err := changeSets(d, false)
		if err != nil {
			return "", err
		}
		var b strings.Builder
		for _, cs := range sets {
			b.WriteString(describe(cs, "") + "\n")
		}
		return b.String(), nil
	}}
}

// describe renders a change list in the order returned (order is part of the output).
func describe(cs []schema.Change, ind string) string {
	var out []string
	for _, c := range cs {
		switch c := c.(type) {
		case *schema.ModifyTable:
			out = append(out, fmt.Sprintf("%sModifyTable(%s)[%s]", ind, c.T.Name, describe(c.Changes, "")))
		case *schema.ModifySchema:
			out = append(out, fmt.Sprintf("%sModifySchema(%s)[%s]", ind, c.S.Name, describe(c.Changes, "")))
		default:
			out = append(out, ind+strings.Join(dfu.Flatten([]schema.Change{c}), ","))
		}
	}
	return strings.Join(out, "; ")
}

func opMarshal(d *dfu.Dialect) Op {
	return Op{"marshal_hcl/" + d.Name, func() (string, error) {
		s := dfu.Base(d)
		b, err := marshal(d, s)
		if err != nil {
			return "", err
		}
		// realm with two schemas as well.
		r := s.Realm
		other := dfu.Base(d)
		other.Name = "other"
		r.AddSchemas(other)
		b2, err := marshal(d, r)
		if err != nil {
			return string(b) + "\n-- realm: " + err.Error(), nil
		}
		return string(b) + "\n-- realm\n" + string(b2), nil
	}}
}

// opMarshalQualified: a realm of three schemas whose table names collide with each other and with the
// schema names the marshaller uses as qualifier labels: users in s1 and in s2 (both blocks get a
// qualifier), a table named s1 in s3 (its label equals a qualifier in use), a table named s3 in s2
// (equals the qualifier the previous step brought into use).
func opMarshalQualified(d *dfu.Dialect) Op {
	return Op{"marshal_hcl_qualified/" + d.Name, func() (string, error) {
		newT := func(n string) *schema.Table {
			return schema.NewTable(n).AddColumns(&schema.Column{Name: "id", Type: &schema.ColumnType{Type: d.Int()}})
		}
		s1 := schema.New("s1").AddTables(newT("users"), newT("plain"))
		s2 := schema.New("s2").AddTables(newT("users"), newT("s3"))
		s3 := schema.New("s3").AddTables(newT("s1"), newT("s2"))
		b, err := marshal(d, schema.NewRealm(s1, s2, s3))
		if err != nil {
			return "marshal error: " + err.Error(), nil
		}
		return string(b), nil
	}}
}

func opEvalMarshal(d *dfu.Dialect) Op {
	return Op{"eval_marshal/" + d.Name, func() (string, error) {
		b, err := marshal(d, dfu.Base(d))
		if err != nil {
			return "", err
		}
		var s schema.Schema
		if err := evalHCL(d, b, &s); err != nil {
			return "", err
		}
		b2, err := marshal(d, &s)
		if err != nil {
			return "", err
		}
		cs, err := d.Diff.SchemaDiff(dfu.Base(d), &s, schema.DiffNormalized())
		return string(b2) + "\n-- diff: " + describe(cs, "") + fmt.Sprint(err), nil
	}}
}

// opEvalMultiFile: a schema split over several HCL files (two of them share a base name in different
// directories, as with several --to / src directories) is evaluated through the file parser; the order
// of tables in the result - and with it the marshalled HCL and the CREATE order of a plan - must not
// depend on how the parser's file map is iterated.
func opEvalMultiFile() Op {
	return Op{"eval_multi_file/sqlite", func() (string, error) {
		files := map[string]string{
			// a local of one file is used by a local of another file.
			"schema/main.hcl":           "locals {\n  prefix = \"app\"\n}\nschema \"main\" {}\n",
			"schema/named.hcl":          "locals {\n  audit = \"${local.prefix}_audit\"\n}\ntable \"audit\" {\n  name   = local.audit\n  schema = schema.main\n  column \"id\" {\n    type = integer\n  }\n}\n",
			"schema/core/tables.hcl":    "table \"users\" {\n  schema = schema.main\n  column \"id\" {\n    type = integer\n  }\n}\ntable \"accounts\" {\n  schema = schema.main\n  column \"id\" {\n    type = integer\n  }\n}\n",
			"schema/billing/tables.hcl": "table \"invoices\" {\n  schema = schema.main\n  column \"id\" {\n    type = integer\n  }\n}\n",
			"schema/z_last.hcl":         "table \"zed\" {\n  schema = schema.main\n  column \"id\" {\n    type = integer\n  }\n}\n",
			"other/billing/tables.hcl":  "table \"refunds\" {\n  schema = schema.main\n  column \"id\" {\n    type = integer\n  }\n}\n",
		}
		names := make([]string, 0, len(files))
		for n := range files {
			names = append(names, n)
		}
		sort.Strings(names)
		p := hclparse.NewParser()
		for _, n := range names {
			if _, diags := p.ParseHCL([]byte(files[n]), n); diags.HasErrors() {
				return "", diags
			}
		}
		var r schema.Realm
		if err := sqlite.EvalHCL.Eval(p, &r, nil); err != nil {
			return "evaluation failed: " + err.Error(), nil
		}
		var order []string
		for _, sc := range r.Schemas {
			for _, t := range sc.Tables {
				order = append(order, t.Name)
			}
		}
		b, err := sqlite.MarshalHCL.MarshalSpec(&r)
		if err != nil {
			return "", err
		}
		return "tables: " + strings.Join(order, ",") + "\n" + string(b), nil
	}}
}

var formatters = []struct {
	n string
	f migrate.Formatter
}{{"atlas", migrate.DefaultFormatter}, {"golang-migrate", sqltool.GolangMigrateFormatter}, {"goose", sqltool.GooseFormatter},
	{"flyway", sqltool.FlywayFormatter}, {"liquibase", sqltool.LiquibaseFormatter}, {"dbmate", sqltool.DBMateFormatter}}

func opFormat() Op {
	return Op{"format/all", func() (string, error) {
		d := dfu.Postgres
		to := dfu.Base(d)
		for _, e := range dfu.Edits(d) {
			if e.Name == "add_table" || e.Name == "drop_index" || e.Name == "add_column" {
				e.Apply(to)
			}
		}
		cs, err := d.Diff.SchemaDiff(dfu.Base(d), to, schema.DiffNormalized())
		if err != nil {
			return "", err
		}
		plan, err := planner(d).PlanChanges(context.Background(), "p", cs)
		if err != nil {
			return "", err
		}
		plan.Version = "42"
		plan.Directives = []string{"-- atlas:txmode none", "-- atlas:nolint DS102"}
		var b strings.Builder
		for _, f := range formatters {
			files, err := f.f.Format(plan)
			if err != nil {
				return "", err
			}
			for _, fl := range files {
				fmt.Fprintf(&b, "== %s %s\n%s\n", f.n, reNow.ReplaceAllString(fl.Name(), "<now>"), reNow.ReplaceAllString(string(fl.Bytes()), "<now>"))
			}
		}
		return b.String(), nil
	}}
}

func dirFiles() map[string]string {
	m := map[string]string{}
	for i := 1; i <= 12; i++ {
		m[fmt.Sprintf("%02d_f%d.sql", i, i)] = fmt.Sprintf("CREATE TABLE t%d (id int);\n", i)
	}
	m["05_f5.sql"] = "-- atlas:sum ignore\nSELECT 5;\n"
	// several files sharing one version (created in the same second / a schema directory app_1.sql, app_2.sql).
	for _, n := range []string{"07_f7_idx.sql", "07_f7_more.sql", "app_1_tables.sql", "app_2_indexes.sql", "app_3_views.sql"} {
		m[n] = "CREATE TABLE x_" + strings.NewReplacer(".", "_").Replace(n) + " (id int);\n"
	}
	return m
}

func opChecksum() Op {
	return Op{"checksum/memdir+localdir", func() (string, error) {
		md := &migrate.MemDir{}
		for n, c := range dirFiles() {
			md.WriteFile(n, []byte(c))
		}
		h, err := md.Checksum()
		if err != nil {
			return "", err
		}
		b, _ := h.MarshalText()
		tmp, err := os.MkdirTemp("", "c20dir")
		if err != nil {
			return "", err
		}
		defer os.RemoveAll(tmp)
		ld, err := migrate.NewLocalDir(tmp)
		if err != nil {
			return "", err
		}
		for n, c := range dirFiles() {
			ld.WriteFile(n, []byte(c))
		}
		h2, err := ld.Checksum()
		if err != nil {
			return "", err
		}
		b2, _ := h2.MarshalText()
		fs, _ := md.Files()
		var names []string
		for _, f := range fs {
			names = append(names, f.Name())
		}
		return string(b) + "\n--\n" + string(b2) + "\n" + strings.Join(names, ","), nil
	}}
}

func opValidateErr() Op {
	return Op{"validate_error/classification", func() (string, error) {
		var b strings.Builder
		for _, tamper := range []string{"edit", "remove", "add", "add_first"} {
			md := &migrate.MemDir{}
			for n, c := range dirFiles() {
				md.WriteFile(n, []byte(c))
			}
			h, _ := md.Checksum()
			migrate.WriteSumFile(md, h)
			md2 := &migrate.MemDir{}
			for n, c := range dirFiles() {
				switch {
				case tamper == "edit" && n == "07_f7.sql":
					c += "-- x\n"
				case tamper == "remove" && n == "03_f3.sql":
					continue
				}
				md2.WriteFile(n, []byte(c))
			}
			if tamper == "add" {
				md2.WriteFile("99_new.sql", []byte("SELECT 1;\n"))
			}
			if tamper == "add_first" {
				md2.WriteFile("00_new.sql", []byte("SELECT 1;\n"))
			}
			sum, _ := md.Open(migrate.HashFileName)
			var buf [1 << 16]byte
			n, _ := sum.Read(buf[:])
			md2.WriteFile(migrate.HashFileName, buf[:n])
			err := migrate.Validate(md2)
			var ce *migrate.ChecksumError
			if errors.As(err, &ce) {
				fmt.Fprintf(&b, "%s: line=%d total=%d pos=%d file=%s reason=%v\n", tamper, ce.Line, ce.Total, ce.Pos, ce.File, ce.Reason)
			} else {
				fmt.Fprintf(&b, "%s: %v\n", tamper, err)
			}
		}
		return b.String(), nil
	}}
}

func opScopeErr() Op {
	return Op{"scope_error/text", func() (string, error) {
		var b strings.Builder
		for _, d := range []*dfu.Dialect{dfu.MySQL, dfu.Postgres} {
			var cs []schema.Change
			for _, n := range []string{"zeta", "alpha", "mid", "beta", "omega"} {
				s := dfu.Base(d)
				s.Name = n
				cs = append(cs, &schema.AddTable{T: dfu.T(s, "u")})
			}
			_, err := planner(d).PlanChanges(context.Background(), "p", cs, func(o *migrate.PlanOptions) { o.SchemaQualifier = new(string) })
			fmt.Fprintf(&b, "%s: %v\n", d.Name, err)
		}
		return b.String(), nil
	}}
}

// Ops is the operation alphabet.
// the dev database of this process: one connection that serves every planning round, one at a time
// (what a long-running `atlas` command with several environments, or a program using the Go API, has).
var (
	devMu     sync.Mutex
	devEngine *sqliteh.Engine
)

// opReplayDev replays a migration directory (a table, an index, a view) on the process-wide dev
// database and renders the resulting state; a replay must leave nothing behind that a later replay
// (of the same or of another directory) could see.
func opReplayDev(variant int) Op {
	return Op{fmt.Sprintf("replay_on_shared_dev_sqlite/%d", variant), func() (string, error) {
		devMu.Lock()
		defer devMu.Unlock()
		ctx := context.Background()
		if devEngine == nil {
			e, err := sqliteh.Open(ctx)
			if err != nil {
				return "", err
			}
			devEngine = e
		}
		dir := &migrate.MemDir{}
		files := map[string]string{
			"1_a.sql": "CREATE TABLE t (id integer NOT NULL, a integer);\nCREATE INDEX idx_a ON t (a);\nCREATE VIEW v AS SELECT id FROM t;\n",
			"2_b.sql": "ALTER TABLE t ADD COLUMN b text;\n",
		}
		if variant == 1 {
			// another project: its own table t is rebuilt (a rename, which SQLite checks against every view).
			files = map[string]string{
				"1_a.sql": "CREATE TABLE t (id integer NOT NULL, c text);\n",
				"2_b.sql": "CREATE TABLE new_t (id integer NOT NULL, c integer);\nINSERT INTO new_t (id, c) SELECT id, c FROM t;\nDROP TABLE t;\nALTER TABLE new_t RENAME TO t;\n",
			}
		}
		if variant == 2 {
			// a directory whose second file fails: the replay is given up half-way (and reported as such,
			// the same way every time); whoever uses the dev database next finds it as empty as before.
			files = map[string]string{
				"1_a.sql": "CREATE TABLE pets (id integer NOT NULL);\n",
				"2_b.sql": "INSERT INTO no_such_table VALUES (1);\n",
			}
		}
		for n, c := range files {
			if err := dir.WriteFile(n, []byte(c)); err != nil {
				return "", err
			}
		}
		sum, err := dir.Checksum()
		if err != nil {
			return "", err
		}
		if err := migrate.WriteSumFile(dir, sum); err != nil {
			return "", err
		}
		ex, err := migrate.NewExecutor(devEngine.Atlas.Driver, dir, migrate.NopRevisionReadWriter{})
		if err != nil {
			return "", err
		}
		realm, err := ex.Replay(ctx, migrate.RealmConn(devEngine.Atlas.Driver, nil))
		if err != nil {
			return "replay failed: " + err.Error(), nil
		}
		b, err := sqlite.MarshalHCL.MarshalSpec(realm)
		if err != nil {
			return "", err
		}
		return string(b), nil
	}}
}

// opDiffInherit: the MySQL differ fills in what the desired state leaves to the server: the default
// collation of a stated character set (style "charset") or the character set of a stated collation
// (style "collate"); the current table states both, and both differ from the schema's defaults. The
// tables it looks the defaults up in are loaded lazily and kept by the process-wide differ.
// opSourceOrder: the same SQLite objects declared in another order (tables, UNIQUE constraints, CHECK
// constraints, indexes) in two databases: inspecting both and diffing them, in both directions, finds
// nothing to change.
func opSourceOrder() Op {
	return Op{"source_order_sqlite", func() (string, error) {
		ctx := context.Background()
		ddl := [2][]string{
			{
				"CREATE TABLE p (id integer NOT NULL PRIMARY KEY)",
				"CREATE TABLE t (id integer NOT NULL PRIMARY KEY, a integer NULL, b text NULL, UNIQUE (a), UNIQUE (b), CHECK (a > 0), CHECK (b <> ''))",
				"CREATE INDEX idx_1 ON t (a, b)",
				"CREATE INDEX idx_2 ON t (b)",
			},
			{
				"CREATE TABLE t (id integer NOT NULL PRIMARY KEY, a integer NULL, b text NULL, CHECK (b <> ''), CHECK (a > 0), UNIQUE (b), UNIQUE (a))",
				"CREATE INDEX idx_2 ON t (b)",
				"CREATE INDEX idx_1 ON t (a, b)",
				"CREATE TABLE p (id integer NOT NULL PRIMARY KEY)",
			},
		}
		var ss [2]*schema.Schema
		for i := range ddl {
			e, err := sqliteh.Open(ctx)
			if err != nil {
				return "", err
			}
			defer e.Close()
			if err := e.Exec(ctx, ddl[i]...); err != nil {
				return "", err
			}
			if ss[i], err = e.Atlas.InspectSchema(ctx, "main", nil); err != nil {
				return "", err
			}
		}
		var b strings.Builder
		for dir := 0; dir < 2; dir++ {
			cs, err := sqlite.DefaultDiff.SchemaDiff(ss[dir], ss[1-dir], schema.DiffNormalized())
			if err != nil {
				return "", err
			}
			if len(cs) > 0 {
				fmt.Fprintf(&b, "REPEAT-MISMATCH: the same objects declared in another order (direction %d) diff as %s\n", dir, describe(cs, ""))
			}
		}
		b.WriteString("ok\n")
		return b.String(), nil
	}}
}

func opDiffInherit(style string) Op {
	return Op{"diff_inherit/mysql/" + style, func() (string, error) {
		mk := func(desired bool) *schema.Schema {
			s := schema.New("app").SetCharset("ascii").SetCollation("ascii_general_ci")
			schema.NewRealm(s)
			t := schema.NewTable("t").AddColumns(schema.NewIntColumn("id", "int"))
			s.AddTables(t)
			switch {
			case style == "charset" && desired:
				t.SetCharset("latin1")
			case style == "charset":
				t.SetCharset("latin1").SetCollation("latin1_swedish_ci")
			case desired:
				t.SetCollation("utf8mb4_bin")
			default:
				t.SetCharset("utf8mb4").SetCollation("utf8mb4_bin")
			}
			if desired {
				t.AddColumns(schema.NewIntColumn("added", "int"))
			}
			return s
		}
		changes, err := dfu.MySQL.Diff.SchemaDiff(mk(false), mk(true))
		if err != nil {
			return "", err
		}
		plan, err := planner(dfu.MySQL).PlanChanges(context.Background(), "p", changes)
		if err != nil {
			return describe(changes, "") + "\nplan error: " + err.Error(), nil
		}
		var b strings.Builder
		b.WriteString(describe(changes, "") + "\n")
		for _, c := range plan.Changes {
			b.WriteString(c.Cmd + "\n")
		}
		return b.String(), nil
	}}
}

func Ops(thorough bool) []Op {
	var ops []Op
	for _, d := range dfu.Dialects {
		ops = append(ops, opPlans(d, thorough), opDiffOrder(d), opMarshal(d), opEvalMarshal(d), opMarshalQualified(d))
	}
	ops = append(ops, opFormat(), opChecksum(), opValidateErr(), opScopeErr(), opEvalMultiFile(), opReplayDev(0), opReplayDev(1), opReplayDev(2), opSourceOrder(), opDiffInherit("charset"), opDiffInherit("collate"))
	sort.SliceStable(ops, func(i, j int) bool { return false })
	return ops
}
