package c20

import (
	"fmt"
	"os"
	"path/filepath"
	"regexp"
	"sort"
	"strings"
	"sync"

	"verif/clih"
	"verif/engine/report"
)

// ---------- (5) the real CLI under harness-chosen map order ----------
//
// bin/atlas20 is the atlas CLI linked against the same patched runtime. Every command below is run on
// identical inputs under map hash seeds {0,1,2} x iteration starts {0,1,2,3,5,7} applied at every site
// (VERIF_MAPHASH0 / VERIF_MAPR), and once with real randomness; stdout and every file the command
// wrote must be byte-identical to the baseline (seed 0, start 0).

type cliCmd struct {
	Name  string
	Setup func(w *clih.Work) error
	Args  func(w *clih.Work) []string
	Env   []string
	// Collect returns the bytes to compare besides stdout.
	Collect func(w *clih.Work) string
	// Expect judges the baseline output itself ("" = fine): identical but wrong output is no comfort.
	Expect func(out string) string
}

var cliDDL = []string{
	"CREATE TABLE users (id integer NOT NULL PRIMARY KEY, name text NOT NULL, org_id integer NULL REFERENCES orgs (id) ON DELETE SET NULL)",
	"CREATE TABLE orgs (id integer NOT NULL PRIMARY KEY, name text NOT NULL, owner_id integer NULL REFERENCES users (id))",
	"CREATE TABLE posts (id integer NOT NULL PRIMARY KEY, user_id integer NOT NULL REFERENCES users (id), title text NOT NULL DEFAULT 'x', CHECK (length(title) > 0))",
	"CREATE TABLE tags (id integer NOT NULL PRIMARY KEY, label text NOT NULL UNIQUE)",
	"CREATE INDEX posts_user ON posts (user_id)",
	"CREATE INDEX posts_title ON posts (title, user_id DESC)",
	"CREATE UNIQUE INDEX users_name ON users (name)",
}

func hclTable(name string, cols ...string) string {
	var b strings.Builder
	fmt.Fprintf(&b, "table %q {\n  schema = schema.main\n", name)
	for _, c := range cols {
		fmt.Fprintf(&b, "  column %q {\n    type = integer\n    null = true\n  }\n", c)
	}
	b.WriteString("}\n")
	return b.String()
}

func cliSchemaDirs(w *clih.Work) error {
	for p, body := range map[string]string{
		"schema/main.hcl":           "schema \"main\" {}\n",
		"schema/core/tables.hcl":    hclTable("users", "id", "org") + hclTable("accounts", "id"),
		"schema/billing/tables.hcl": hclTable("invoices", "id", "user"),
		"schema/z.hcl":              hclTable("zed", "id"),
	} {
		os.MkdirAll(filepath.Dir(w.Path(p)), 0o755)
		if err := os.WriteFile(w.Path(p), []byte(body), 0o644); err != nil {
			return err
		}
	}
	return nil
}

func readTree(w *clih.Work, sub string) string {
	var out []string
	filepath.Walk(w.Path(sub), func(p string, info os.FileInfo, err error) error {
		if err == nil && !info.IsDir() {
			b, _ := os.ReadFile(p)
			rel, _ := filepath.Rel(w.Path(sub), p)
			out = append(out, "== "+rel+"\n"+string(b))
		}
		return nil
	})
	sort.Strings(out)
	return strings.Join(out, "\n")
}

func cliCmds() []cliCmd {
	db := func(w *clih.Work) error { return w.Exec("db.sqlite", cliDDL...) }
	toDirs := func(w *clih.Work) []string {
		return []string{"--to", "file://" + w.Path("schema/main.hcl"), "--to", "file://" + w.Path("schema/core"), "--to", "file://" + w.Path("schema/billing"), "--to", "file://" + w.Path("schema/z.hcl")}
	}
	return []cliCmd{
		{Name: "schema inspect (hcl)", Setup: db, Args: func(w *clih.Work) []string { return []string{"schema", "inspect", "--url", w.URL("db.sqlite")} }},
		{Name: "schema inspect (sql)", Setup: db, Args: func(w *clih.Work) []string {
			return []string{"schema", "inspect", "--url", w.URL("db.sqlite"), "--format", "{{ sql . }}"}
		}},
		{Name: "schema inspect (json)", Setup: db, Args: func(w *clih.Work) []string {
			return []string{"schema", "inspect", "--url", w.URL("db.sqlite"), "--format", "{{ json . }}"}
		}},
		{Name: "schema apply --dry-run (multi-file desired state)", Setup: func(w *clih.Work) error {
			if err := db(w); err != nil {
				return err
			}
			return cliSchemaDirs(w)
		}, Args: func(w *clih.Work) []string {
			return append([]string{"schema", "apply", "--url", w.URL("db.sqlite"), "--dry-run"}, toDirs(w)...)
		}},
		{Name: "schema diff (db -> multi-file)", Setup: func(w *clih.Work) error {
			if err := db(w); err != nil {
				return err
			}
			return cliSchemaDirs(w)
		}, Args: func(w *clih.Work) []string {
			return append([]string{"schema", "diff", "--from", w.URL("db.sqlite"), "--dev-url", "sqlite://dev?mode=memory"}, toDirs(w)...)
		}},
		{Name: "migrate diff (writes a file and atlas.sum)", Setup: func(w *clih.Work) error {
			os.MkdirAll(w.Path("migrations"), 0o755)
			return cliSchemaDirs(w)
		}, Args: func(w *clih.Work) []string {
			return append([]string{"migrate", "diff", "init", "--dir", "file://" + w.Path("migrations"), "--dev-url", "sqlite://dev?mode=memory"}, toDirs(w)...)
		}, Env: []string{"VERIF_NOW=20260101000001"}, Collect: func(w *clih.Work) string { return readTree(w, "migrations") }},
		{Name: "migrate hash", Setup: func(w *clih.Work) error {
			os.MkdirAll(w.Path("migrations"), 0o755)
			for i, st := range cliDDL {
				os.WriteFile(w.Path("migrations", fmt.Sprintf("%d_s.sql", i+1)), []byte(st+";\n"), 0o644)
			}
			return nil
		}, Args: func(w *clih.Work) []string {
			return []string{"migrate", "hash", "--dir", "file://" + w.Path("migrations")}
		},
			Collect: func(w *clih.Work) string { return readTree(w, "migrations") }},
		{Name: "migrate lint (json)", Setup: func(w *clih.Work) error {
			return w.WriteDir("migrations", map[string]string{"1_a.sql": strings.Join(cliDDL, ";\n") + ";\n", "2_b.sql": "DROP TABLE tags;\nALTER TABLE posts DROP COLUMN title;\nDROP INDEX users_name;\n"})
		}, Args: func(w *clih.Work) []string {
			return []string{"migrate", "lint", "--dir", "file://" + w.Path("migrations"), "--dev-url", "sqlite://dev?mode=memory", "--latest", "2", "--format", "{{ json .Files }}"}
		}},
		{Name: "migrate apply --dry-run --env (two template_dir data sources over one template path)", Setup: func(w *clih.Work) error {
			os.MkdirAll(w.Path("tmpl"), 0o755)
			os.WriteFile(w.Path("tmpl", "1.sql"), []byte("CREATE TABLE {{ .name }}_t (id integer);\n"), 0o644)
			cfg := fmt.Sprintf(`data "template_dir" "alpha" {
  path = %q
  vars = {
    name = "alpha"
  }
}
data "template_dir" "beta" {
  path = %q
  vars = {
    name = "beta"
  }
}
locals {
  dirs = {
    a = data.template_dir.alpha.url
    b = data.template_dir.beta.url
  }
}
env "a" {
  url = %q
  migration {
    dir = local.dirs.a
  }
}
env "b" {
  url = %q
  migration {
    dir = local.dirs.b
  }
}
`, w.Path("tmpl"), w.Path("tmpl"), w.URL("a.sqlite"), w.URL("b.sqlite"))
			return os.WriteFile(w.Path("atlas.hcl"), []byte(cfg), 0o644)
		}, Args: func(w *clih.Work) []string {
			return []string{"migrate", "apply", "--env", "a", "-c", "file://" + w.Path("atlas.hcl"), "--dry-run"}
		}, Expect: func(out string) string {
			if !strings.Contains(out, "alpha_t") || strings.Contains(out, "beta_t") {
				return "env a must run the directory rendered with name=alpha (CREATE TABLE alpha_t), not the other data source's rendering"
			}
			return ""
		}},
		{Name: "migrate apply --dry-run", Setup: func(w *clih.Work) error {
			return w.WriteDir("migrations", map[string]string{"1_a.sql": strings.Join(cliDDL[:4], ";\n") + ";\n", "2_b.sql": strings.Join(cliDDL[4:], ";\n") + ";\n"})
		}, Args: func(w *clih.Work) []string {
			return []string{"migrate", "apply", "--dir", "file://" + w.Path("migrations"), "--url", w.URL("db.sqlite"), "--dry-run"}
		}},
	}
}

// durations printed by `migrate apply` (e.g. "-- 1.234ms") are wall-clock, not output of the computation.
var reDur = regexp.MustCompile(`\d+(\.\d+)?(ns|µs|ms|s)\b`)

func parallel(n int, f func(i int)) {
	sem := make(chan struct{}, 12)
	var wg sync.WaitGroup
	for i := 0; i < n; i++ {
		wg.Add(1)
		go func(i int) {
			defer wg.Done()
			sem <- struct{}{}
			defer func() { <-sem }()
			f(i)
		}(i)
	}
	wg.Wait()
}

func runCLIOnce(c cliCmd, env []string) (string, error) {
	w, err := clih.NewWork()
	if err != nil {
		return "", err
	}
	defer w.Close()
	if err := c.Setup(w); err != nil {
		return "", fmt.Errorf("setup: %v", err)
	}
	res := w.Run(append(append([]string{}, c.Env...), env...), c.Args(w)...)
	out := fmt.Sprintf("exit=%d\n--stdout\n%s\n--stderr\n%s", res.Exit, res.Stdout, res.Stderr)
	if c.Collect != nil {
		out += "\n--files\n" + c.Collect(w)
	}
	// the private work directory differs between runs.
	out = strings.ReplaceAll(out, w.Dir, "<work>")
	out = reDur.ReplaceAllString(out, "<dur>")
	return out, nil
}

// cliPass returns runs and violations (message, case).
func cliPass(r *report.Run, thorough bool) int {
	defer clih.Cleanup()
	home := os.Getenv("VERIF_HOME")
	if home == "" {
		home = "/verif"
	}
	bin := filepath.Join(home, "bin", "atlas20")
	if _, err := os.Stat(bin); err != nil {
		r.Violate("", "harness: bin/atlas20 missing (./check C20 builds it): "+err.Error(), nil)
		return 0
	}
	os.Setenv("VERIF_ATLAS", bin)
	defer os.Unsetenv("VERIF_ATLAS")
	hashes := []int{0, 1, 2}
	starts := []int{0, 1, 2, 3, 5, 7}
	if thorough {
		hashes = append(hashes, 7, 11)
		starts = append(starts, 4, 6, 11, 13)
	}
	type job struct {
		cmd  int
		h, s int
		real bool
	}
	cmds := cliCmds()
	var jobs []job
	for ci := range cmds {
		for _, h := range hashes {
			for _, s := range starts {
				jobs = append(jobs, job{ci, h, s, false})
			}
		}
		jobs = append(jobs, job{ci, 0, 0, true}, job{ci, 0, 0, true})
	}
	outs := make([]string, len(jobs))
	errs := make([]error, len(jobs))
	parallel(len(jobs), func(i int) {
		j := jobs[i]
		env := []string{"VERIF_MAPCTL=1", fmt.Sprintf("VERIF_MAPHASH0=%d", j.h), fmt.Sprintf("VERIF_MAPR=%d", j.s)}
		if j.real {
			env = []string{"VERIF_MAPCTL=0"}
		}
		outs[i], errs[i] = runCLIOnce(cmds[j.cmd], env)
	})
	base := map[int]string{}
	for i, j := range jobs {
		if errs[i] != nil {
			r.Violate("", fmt.Sprintf("harness: CLI command %q: %v", cmds[j.cmd].Name, errs[i]), nil)
			continue
		}
		if !j.real && j.h == 0 && j.s == 0 {
			base[j.cmd] = outs[i]
			if e := cmds[j.cmd].Expect; e != nil {
				if msg := e(outs[i]); msg != "" {
					r.Violate("", fmt.Sprintf("CLI `%s`: %s: %s", cmds[j.cmd].Name, msg, truncN(outs[i], 500)), map[string]any{"cli_cmd": cmds[j.cmd].Name})
				}
			}
			if !strings.HasPrefix(outs[i], "exit=0") && !strings.Contains(cmds[j.cmd].Name, "lint") {
				r.Violate("", fmt.Sprintf("harness: CLI command %q does not succeed: %s", cmds[j.cmd].Name, truncN(outs[i], 600)), nil)
			}
		}
	}
	for i, j := range jobs {
		if errs[i] != nil {
			continue
		}
		r.CaseDistinct(j.h != 0 || j.s != 0 || j.real)
		if outs[i] != base[j.cmd] {
			what := fmt.Sprintf("hash seed %d, iteration start %d", j.h, j.s)
			if j.real {
				what = "real randomness"
			}
			r.Violate("", fmt.Sprintf("CLI `%s`: output under %s differs from the baseline: %s", cmds[j.cmd].Name, what, firstDiff(base[j.cmd], outs[i])),
				map[string]any{"cli_cmd": cmds[j.cmd].Name, "hash0": j.h, "start": j.s, "real": j.real})
		}
	}
	return len(jobs)
}
