package c09

// Store slice: the revision store the CLI really uses (cmd/atlas/internal/migrate.EntRevisions, over
// ent and the real SQLite driver) under the real migrate.Executor, with faults injected at the
// database calls the store makes - reads as well as writes. The store is internal to the cmd/atlas
// module, so bin/c09store (harness/c09store/main.go.src, compiled as a virtual package of that module
// with `go build -overlay`, /repo untouched) enumerates the executions and this file judges them:
//
//   universe  directory shapes {1},{3},{2,2},{3,1},{1,3} x {no statement failure, the first execution of
//             statement (f,s) fails, for every (f,s)} x every placement of <= bound faults over the
//             revision-table calls of runs 0..n (a faulted call returns an error and does not reach the
//             database), followed by clean runs until "no pending files" (horizon 6 runs).
//   oracle    after EVERY run, observed through an unwrapped handle on the database itself:
//             (a) a revision row never claims more statements than the database shows as executed;
//             (b) while a file is partial its row holds exactly `applied` statement hashes;
//             (c) effects appear in version-then-statement order without gaps;
//             (d) a statement's effect is present twice only if a revision WRITE was faulted (at most one
//                 repeat per such fault) - a failing READ of the history never makes a statement run again;
//             (e) the runs converge: the last one reports nothing pending, every effect is present, every
//                 row says applied == total and carries no error.

import (
	"bufio"
	"bytes"
	"encoding/json"
	"fmt"
	"os"
	osexec "os/exec"
	"path/filepath"
	"strings"

	"verif/engine/report"
)

type StoreFault struct{ Run, Call int }

type StoreCase struct {
	Shape    []int        `json:"shape"`
	FailStmt string       `json:"fail_stmt"`
	Faults   []StoreFault `json:"faults"`
}

type storeRev struct {
	Version string `json:"v"`
	Applied int    `json:"applied"`
	Total   int    `json:"total"`
	Error   string `json:"error"`
	Hashes  int    `json:"hashes"`
}

type storeSnap struct {
	Err    string     `json:"err"`
	Calls  []string   `json:"calls"`
	Log    []string   `json:"log"`
	Revs   []storeRev `json:"revs"`
	ObsErr string     `json:"obs_err"`
}

type storeResult struct {
	StoreCase
	Runs  []storeSnap `json:"runs"`
	Setup string      `json:"setup_err"`
}

func storeBin() string {
	home := os.Getenv("VERIF_HOME")
	if home == "" {
		home = "/verif"
	}
	return filepath.Join(home, "bin", "c09store")
}

func judgeStore(o *storeResult) (problems []string, nontrivial bool) {
	if o.Setup != "" {
		return []string{"setup failed: " + o.Setup}, false
	}
	var order []string // the documented order of effects
	for f, n := range o.Shape {
		for s := 0; s < n; s++ {
			order = append(order, fmt.Sprintf("f%ds%d", f+1, s+1))
		}
	}
	writeFaults := 0
	for _, f := range o.Faults {
		if f.Run < len(o.Runs) && f.Call-1 < len(o.Runs[f.Run].Calls) {
			nontrivial = true
			if o.Runs[f.Run].Calls[f.Call-1] == "w" {
				writeFaults++
			}
		}
	}
	for i, s := range o.Runs {
		if s.ObsErr != "" {
			problems = append(problems, fmt.Sprintf("run %d: observation failed: %s", i, s.ObsErr))
			continue
		}
		count := map[string]int{}
		var first []string
		for _, t := range s.Log {
			if count[t] == 0 {
				first = append(first, t)
			}
			count[t]++
		}
		for k, t := range first {
			if k >= len(order) || order[k] != t {
				problems = append(problems, fmt.Sprintf("run %d: effects %v are not a prefix of the documented order %v", i, first, order))
				break
			}
		}
		repeats := 0
		for _, n := range count {
			repeats += n - 1
		}
		if repeats > writeFaults {
			problems = append(problems, fmt.Sprintf("run %d: %d repeated statement execution(s) with %d faulted history write(s): log %v", i, repeats, writeFaults, s.Log))
		}
		for _, r := range s.Revs {
			var f int
			fmt.Sscanf(r.Version, "%d", &f)
			if f < 1 || f > len(o.Shape) {
				problems = append(problems, fmt.Sprintf("run %d: revision for unknown version %q", i, r.Version))
				continue
			}
			if r.Total != o.Shape[f-1] || r.Applied > r.Total {
				problems = append(problems, fmt.Sprintf("run %d: revision %s says applied %d of %d, the file has %d statements", i, r.Version, r.Applied, r.Total, o.Shape[f-1]))
			}
			for k := 1; k <= r.Applied; k++ {
				if count[fmt.Sprintf("f%ds%d", f, k)] == 0 {
					problems = append(problems, fmt.Sprintf("run %d: revision %s claims %d applied statements, statement %d was never executed (log %v)", i, r.Version, r.Applied, k, s.Log))
					break
				}
			}
			if r.Applied < r.Total && r.Hashes != r.Applied {
				problems = append(problems, fmt.Sprintf("run %d: partial revision %s: applied %d, %d statement hashes", i, r.Version, r.Applied, r.Hashes))
			}
		}
	}
	if n := len(o.Runs); n == 0 {
		problems = append(problems, "no run")
	} else {
		last := o.Runs[n-1]
		if !strings.Contains(last.Err, "no pending migration files") {
			problems = append(problems, fmt.Sprintf("no convergence within %d runs; last error: %s", n, last.Err))
		} else {
			seen := map[string]bool{}
			for _, t := range last.Log {
				seen[t] = true
			}
			for _, t := range order {
				if !seen[t] {
					problems = append(problems, "nothing pending, yet statement "+t+" was never executed")
				}
			}
			if len(last.Revs) != len(o.Shape) {
				problems = append(problems, fmt.Sprintf("nothing pending with %d revision rows for %d files", len(last.Revs), len(o.Shape)))
			}
			for _, r := range last.Revs {
				if r.Applied != r.Total || r.Error != "" {
					problems = append(problems, fmt.Sprintf("nothing pending, yet revision %s says applied %d of %d, error %q", r.Version, r.Applied, r.Total, r.Error))
				}
			}
		}
	}
	return problems, nontrivial
}

// RunStore evaluates the store slice; returns executions judged and how many had a faulted read.
func RunStore(r *report.Run, bound int) {
	cmd := osexec.Command(storeBin(), fmt.Sprint(bound))
	var stdout, stderr bytes.Buffer
	cmd.Stdout, cmd.Stderr = &stdout, &stderr
	if err := cmd.Run(); err != nil {
		r.Violate("", fmt.Sprintf("store slice: harness binary %s failed: %v %s", storeBin(), err, stderr.String()), nil)
		return
	}
	n, reads, writes := 0, 0, 0
	outcomes := map[string]bool{}
	sc := bufio.NewScanner(&stdout)
	sc.Buffer(nil, 1<<22)
	for sc.Scan() {
		var o storeResult
		if err := json.Unmarshal(sc.Bytes(), &o); err != nil {
			r.Violate("", "store slice: bad harness output: "+err.Error(), nil)
			continue
		}
		n++
		problems, nontrivial := judgeStore(&o)
		r.Case(fmt.Sprintf("store|%v|%s|%v", o.Shape, o.FailStmt, o.Faults), nontrivial)
		for _, f := range o.Faults {
			if f.Run < len(o.Runs) && f.Call-1 < len(o.Runs[f.Run].Calls) {
				if o.Runs[f.Run].Calls[f.Call-1] == "r" {
					reads++
				} else {
					writes++
				}
			}
		}
		var tr []string
		for _, s := range o.Runs {
			tr = append(tr, s.Err+"/"+strings.Join(s.Log, ","))
		}
		outcomes[strings.Join(tr, ";")] = true
		if len(problems) > 0 {
			sc := o.StoreCase
			r.Violate("", fmt.Sprintf("store slice shape=%v fail_stmt=%q faults=%v: %s", o.Shape, o.FailStmt, o.Faults, strings.Join(problems, " | ")), Case{Shape: o.Shape, Store: &sc})
		}
	}
	r.Set("store_slice_executions", n)
	r.Set("store_slice_fault_bound", bound)
	r.Set("store_slice_faulted_reads", reads)
	r.Set("store_slice_faulted_writes", writes)
	r.Set("store_slice_distinct_outcomes", len(outcomes))
}

func replayStore(r *report.Run, c Case) {
	raw, _ := json.Marshal(c.Store)
	out, err := osexec.Command(storeBin(), "one", string(raw)).Output()
	if err != nil {
		r.Violate("", "store slice: replay failed: "+err.Error(), c)
		return
	}
	fmt.Println("  ", strings.TrimSpace(string(out)))
	var o storeResult
	if err := json.Unmarshal(out, &o); err != nil {
		r.Violate("", "store slice: bad harness output: "+err.Error(), c)
		return
	}
	r.Case(fmt.Sprint(c), true)
	r.Case(fmt.Sprint(c)+"'", true)
	if problems, _ := judgeStore(&o); len(problems) > 0 {
		r.Violate("", strings.Join(problems, " | "), c)
	}
}
