// Package c09: Executor runs each statement in order, once, and resumes after any failure.
package c09

import (
	"context"
	"encoding/json"
	"errors"
	"fmt"
	"strings"

	"ariga.io/atlas/sql/migrate"

	"verif/engine/enum"
	"verif/engine/explore"
	"verif/engine/report"
	"verif/mighelp"
)

type Case struct {
	Shape   []int `json:"shape"`   // statements per file
	Choices []int `json:"choices"` // explorer choice list
	Crash   bool  `json:"crash_alphabet"`
	// Ck: bit i set = file i+1 is a checkpoint (`-- atlas:checkpoint`); 0 = none. A first run on an
	// empty history starts at the latest checkpoint; the files before it are never executed.
	Ck int `json:"checkpoint,omitempty"`
	// To > 0: the reused-executor slice: one Executor runs ExecuteTo(To) and then ExecuteN(0) until
	// nothing is pending; FailAt > 0: the FailAt-th statement execution fails once.
	To     int `json:"to,omitempty"`
	FailAt int `json:"fail_at,omitempty"`
	// Store != nil: the store slice (store.go): real EntRevisions with faulted database calls.
	Store *StoreCase `json:"store,omitempty"`
}

// reuse: a program that keeps one Executor: ExecuteTo(version `to`), then ExecuteN(0) on the same value
// until it reports nothing pending. It must behave exactly like a program that builds a fresh Executor
// for every call (same statements in the same order, same results, same final history); without
// checkpoints, every statement of the directory is executed, in order, successfully exactly once.
func reuse(shape []int, ck, to, failAt int) (problems []string) {
	bad := func(format string, a ...any) { problems = append(problems, fmt.Sprintf(format, a...)) }
	files := map[string]string{}
	var want []string
	for f, n := range shape {
		var ss []string
		for i := 0; i < n; i++ {
			ss = append(ss, fmt.Sprintf("S_%d_%d", f+1, i+1))
		}
		want = append(want, ss...)
		files[fmt.Sprintf("%d_f.sql", f+1)] = mighelp.StmtFile(ss)
		if ck&(1<<f) != 0 {
			files[fmt.Sprintf("%d_f.sql", f+1)] = "-- atlas:checkpoint\n\n" + mighelp.StmtFile(ss)
		}
	}
	world := func(fresh bool) (got []string, log []string, final string) {
		dir, err := mighelp.Dir(files)
		if err != nil {
			return nil, []string{"harness: " + err.Error()}, ""
		}
		store := mighelp.NewStore()
		calls := 0
		drv := &mighelp.Driver{}
		drv.OnExec = func(q string) error {
			calls++
			if calls == failAt {
				return errInjected
			}
			got = append(got, strings.TrimSuffix(q, ";"))
			return nil
		}
		defer func() {
			if p := recover(); p != nil {
				log = append(log, fmt.Sprintf("panic: %v", p))
			}
		}()
		ex, err := migrate.NewExecutor(drv, dir, store)
		if err != nil {
			return nil, []string{"harness: " + err.Error()}, ""
		}
		err = ex.ExecuteTo(context.Background(), fmt.Sprint(to))
		log = append(log, fmt.Sprintf("ExecuteTo(%d): %v after %d successful statements", to, err, len(got)))
		for k := 0; k < 4; k++ {
			if fresh {
				if ex, err = migrate.NewExecutor(drv, dir, store); err != nil {
					return nil, []string{"harness: " + err.Error()}, ""
				}
			}
			err = ex.ExecuteN(context.Background(), 0)
			log = append(log, fmt.Sprintf("ExecuteN: %v after %d successful statements", err, len(got)))
			if errors.Is(err, migrate.ErrNoPendingFiles) {
				break
			}
		}
		for f := range shape {
			if r, ok := store.Revs[fmt.Sprint(f+1)]; ok {
				final += fmt.Sprintf("%d:%d/%d:%q ", f+1, r.Applied, r.Total, r.Error)
			}
		}
		return got, log, final
	}
	gotR, logR, finR := world(false)
	gotF, logF, finF := world(true)
	if strings.Join(gotR, ",") != strings.Join(gotF, ",") || strings.Join(logR, ";") != strings.Join(logF, ";") || finR != finF {
		bad("one executor kept over ExecuteTo(%d) and ExecuteN calls behaves unlike a fresh executor per call: kept: %v %v history %s; fresh: %v %v history %s", to, gotR, logR, finR, gotF, logF, finF)
	}
	if ck == 0 && strings.Join(gotR, ",") != strings.Join(want, ",") {
		bad("one executor, ExecuteTo(%d) then ExecuteN until nothing is pending: successful executions %v, want each statement once in order %v", to, gotR, want)
	}
	return problems
}

// scanDriver is the recording driver with a statement scanner of its own (like the SQLite and MySQL
// drivers have): the executor must take the file's statements from it.
type scanDriver struct{ *mighelp.Driver }

func (scanDriver) ScanStmts(in string) ([]*migrate.Stmt, error) {
	return (&migrate.Scanner{ScannerOptions: migrate.ScannerOptions{MatchBegin: true}}).Scan(in)
}

// compound: a file whose middle statement is a BEGIN ... END block that only the driver's scanner keeps
// whole; the failAt-th execution fails once, fresh executors re-run until nothing is pending. Every
// statement (as the driver's scanner yields them) is executed whole, in order, successfully exactly once.
func compound(failAt int) (problems []string) {
	bad := func(format string, a ...any) { problems = append(problems, fmt.Sprintf(format, a...)) }
	defer func() {
		if p := recover(); p != nil {
			bad("panic: %v", p)
		}
	}()
	body := "S_1_1;\nCREATE TRIGGER tr AFTER INSERT ON t BEGIN S_a; S_b; END;\nS_1_3;\n"
	dir, err := mighelp.Dir(map[string]string{"1_f.sql": body, "2_f.sql": "S_2_1;\n"})
	if err != nil {
		return []string{"harness: " + err.Error()}
	}
	want := []string{"S_1_1;", "CREATE TRIGGER tr AFTER INSERT ON t BEGIN S_a; S_b; END;", "S_1_3;", "S_2_1;"}
	store := mighelp.NewStore()
	var got []string
	calls := 0
	drv := scanDriver{&mighelp.Driver{}}
	drv.OnExec = func(q string) error {
		calls++
		if calls == failAt {
			return errInjected
		}
		got = append(got, q)
		return nil
	}
	for k := 0; k < 4; k++ {
		ex, err := migrate.NewExecutor(drv, dir, store)
		if err != nil {
			return []string{"harness: " + err.Error()}
		}
		err = ex.ExecuteN(context.Background(), 0)
		if errors.Is(err, migrate.ErrNoPendingFiles) || (err == nil && k > 0) {
			break
		}
	}
	if strings.Join(got, "|") != strings.Join(want, "|") {
		bad("driver with a statement scanner of its own, execution %d failing once: successful executions %q, want each statement of the driver's scanner once, in order: %q", failAt, got, want)
	}
	if r, ok := store.Revs["1"]; !ok || r.Applied != 3 || r.Total != 3 {
		bad("revision of file 1 is %+v, want 3/3 (three statements as the driver's scanner splits the file)", r)
	}
	return problems
}

type attempt struct {
	run, file, stmt int
	ok              bool
}

type crashSentinel struct{}

var errInjected = errors.New("verif: injected fault")

const horizon = 6

// exec runs one execution and returns the list of problems (empty = property held).
func exec(shape []int, crashAlpha bool, ck int, x *explore.X) (problems []string, faults int, trace []string) {
	st := 0 // first file a run on an empty history executes: the latest checkpoint
	for f := range shape {
		if ck&(1<<f) != 0 {
			st = f
		}
	}
	files := map[string]string{}
	var names []string
	stmtsOf := make([][]string, len(shape))
	for f, n := range shape {
		for i := 0; i < n; i++ {
			stmtsOf[f] = append(stmtsOf[f], fmt.Sprintf("S_%d_%d", f+1, i+1))
		}
		name := fmt.Sprintf("%d_f.sql", f+1)
		names = append(names, name)
		files[name] = mighelp.StmtFile(stmtsOf[f])
		if ck&(1<<f) != 0 {
			files[name] = "-- atlas:checkpoint\n\n" + files[name]
		}
	}
	dir, err := mighelp.Dir(files)
	if err != nil {
		return []string{"harness: " + err.Error()}, 0, nil
	}
	index := map[string][2]int{}
	for f := range stmtsOf {
		for i, s := range stmtsOf[f] {
			index[s] = [2]int{f, i}
		}
	}
	bad := func(format string, a ...any) {
		problems = append(problems, fmt.Sprintf(format, a...))
	}
	store := mighelp.NewStore()
	var (
		attempts   []attempt
		succ       = map[[2]int]int{} // successful executions per statement
		lostAfter  = map[[2]int]int{} // faults that lost the bookkeeping of a statement's success
		run        int
		failedRun  bool // a fault happened in this run: no more ExecContext allowed
		dead       bool // simulated process death: stores frozen
		expected   [2]int
		lastOK     *[2]int // statement whose success has not been recorded yet
		stmtFaults int
		revFaults  int
	)
	nopts := 2
	if crashAlpha {
		nopts = 4
	}
	// first statement not recorded in the store.
	firstUnrecorded := func() [2]int {
		for f := st; f < len(shape); f++ {
			r, ok := store.Revs[fmt.Sprint(f+1)]
			if !ok {
				return [2]int{f, 0}
			}
			if r.Applied < shape[f] {
				return [2]int{f, r.Applied}
			}
		}
		return [2]int{len(shape), 0}
	}
	next := func(p [2]int) [2]int {
		if p[1]+1 < shape[p[0]] {
			return [2]int{p[0], p[1] + 1}
		}
		return [2]int{p[0] + 1, 0}
	}
	// store invariant: never claims more than really executed.
	checkStore := func(when string) {
		for f := range shape {
			r, ok := store.Revs[fmt.Sprint(f+1)]
			if !ok {
				continue
			}
			if r.Applied > shape[f] {
				bad("%s: revision %d claims Applied=%d > %d statements", when, f+1, r.Applied, shape[f])
			}
			for i := 0; i < r.Applied && i < shape[f]; i++ {
				if succ[[2]int{f, i}] == 0 {
					bad("%s: revision %d claims Applied=%d but statement %d never executed successfully", when, f+1, r.Applied, i+1)
				}
			}
			if r.Applied != r.Total && len(r.PartialHashes) != r.Applied {
				bad("%s: partial revision %d has Applied=%d but %d partial hashes", when, f+1, r.Applied, len(r.PartialHashes))
			}
		}
	}
	drv := &mighelp.Driver{}
	drv.OnExec = func(q string) error {
		if dead {
			return errInjected
		}
		p, ok := index[strings.TrimSuffix(q, ";")]
		if !ok {
			bad("run %d: unknown statement executed: %q", run, q)
			return nil
		}
		if failedRun {
			bad("run %d: statement %s executed after a failure in the same run", run, q)
		}
		if p != expected {
			bad("run %d: executed %s, expected file %d statement %d (first unrecorded / next in order)", run, q, expected[0]+1, expected[1]+1)
		}
		c := x.Choose("exec "+q, nopts)
		trace = append(trace, fmt.Sprintf("run%d exec %s -> %d", run, q, c))
		switch c {
		case 1:
			faults++
			stmtFaults++
			failedRun = true
			attempts = append(attempts, attempt{run, p[0], p[1], false})
			return errInjected
		case 2: // crash before
			faults++
			dead = true
			panic(crashSentinel{})
		}
		attempts = append(attempts, attempt{run, p[0], p[1], true})
		succ[p]++
		pp := p
		lastOK = &pp
		expected = next(p)
		if c == 3 { // crash after the statement ran, before bookkeeping
			faults++
			lostAfter[p]++
			dead = true
			panic(crashSentinel{})
		}
		return nil
	}
	store.OnWrite = func(r *migrate.Revision) (bool, error) {
		if dead {
			return false, errInjected
		}
		c := x.Choose("rev v"+r.Version, nopts)
		trace = append(trace, fmt.Sprintf("run%d write %s -> %d", run, mighelp.RevString(r), c))
		switch c {
		case 1:
			faults++
			revFaults++
			failedRun = true
			if lastOK != nil {
				lostAfter[*lastOK]++
				lastOK = nil
			}
			return false, errInjected
		case 2: // die before the write reaches the store
			faults++
			if lastOK != nil {
				lostAfter[*lastOK]++
			}
			dead = true
			panic(crashSentinel{})
		case 3: // the write is persisted, then the process dies
			faults++
			store.Revs[r.Version] = mighelp.CopyRev(r)
			dead = true
			panic(crashSentinel{})
		}
		lastOK = nil
		return true, nil
	}
	done := false
	for run = 0; run < horizon && !done; run++ {
		failedRun, dead, lastOK = false, false, nil
		expected = firstUnrecorded()
		faultsBefore := faults
		var rerr error
		func() {
			defer func() {
				if p := recover(); p != nil {
					if _, ok := p.(crashSentinel); ok {
						rerr = errors.New("crashed")
						return
					}
					if d, ok := p.(explore.Diverged); ok {
						panic(d)
					}
					bad("run %d: panic: %v", run, p)
					rerr = fmt.Errorf("panic: %v", p)
				}
			}()
			ex, err := migrate.NewExecutor(drv, dir, store)
			if err != nil {
				rerr = err
				return
			}
			rerr = ex.ExecuteN(context.Background(), 0)
		}()
		dead = false
		checkStore(fmt.Sprintf("after run %d", run))
		trace = append(trace, fmt.Sprintf("run%d returned %v", run, rerr))
		if faults == faultsBefore {
			// a clean run must finish the job.
			if rerr != nil && !errors.Is(rerr, migrate.ErrNoPendingFiles) {
				bad("run %d had no fault but returned error: %v", run, rerr)
			}
			done = true
		} else if rerr == nil {
			bad("run %d had an injected fault but returned nil", run)
		}
	}
	if !done {
		bad("no clean completion within %d runs", horizon)
		return
	}
	// final state.
	for f := range shape {
		r, ok := store.Revs[fmt.Sprint(f+1)]
		if f < st {
			if ok {
				bad("final: file %d precedes the checkpoint and has a revision", f+1)
			}
			for i := 0; i < shape[f]; i++ {
				if succ[[2]int{f, i}] > 0 {
					bad("final: statement %d of file %d, which precedes the checkpoint, was executed", i+1, f+1)
				}
			}
			continue
		}
		if !ok {
			bad("final: no revision for file %d", f+1)
			continue
		}
		if r.Applied != shape[f] || r.Total != shape[f] {
			bad("final: revision %d Applied=%d Total=%d, want %d", f+1, r.Applied, r.Total, shape[f])
		}
		if r.Error != "" || r.ErrorStmt != "" {
			bad("final: revision %d still carries error %q", f+1, r.Error)
		}
		for i := 0; i < shape[f]; i++ {
			p := [2]int{f, i}
			n := succ[p]
			if n == 0 {
				bad("final: statement %d of file %d was skipped", i+1, f+1)
			}
			if n > 1+lostAfter[p] {
				bad("final: statement %d of file %d executed %d times with %d lost bookkeeping writes", i+1, f+1, n, lostAfter[p])
			}
			if revFaults == 0 && !crashAlpha && n != 1 {
				bad("final: only statement faults, yet statement %d of file %d succeeded %d times", i+1, f+1, n)
			}
		}
	}
	// global order of successful first executions is version-then-file order.
	seen := map[[2]int]bool{}
	var order [][2]int
	for _, a := range attempts {
		p := [2]int{a.file, a.stmt}
		if a.ok && !seen[p] {
			seen[p] = true
			order = append(order, p)
		}
	}
	for i := 1; i < len(order); i++ {
		if order[i] != next(order[i-1]) {
			bad("final: first successful executions out of order: %v then %v", order[i-1], order[i])
		}
	}
	return
}

func Run(r *report.Run) {
	bound := 2
	maxFiles, maxStmts := 3, 3
	if r.Tier == "thorough" {
		bound = 3
	}
	r.Rule = "every directory shape (1..3 files x 1..3 statements; any subset of the files being checkpoints) x every placement of <=bound faults over the choice points {ExecContext: ok/fail, WriteRevision: ok/fail-without-persist} and, in the crash alphabet, additionally {die before, die after} at both kinds of point, followed by clean re-runs; plus a reused-executor slice: one Executor value runs ExecuteTo(v) for every version v and then ExecuteN until nothing is pending, over every checkpoint subset, without a fault and with the k-th statement execution failing once, for every k: statements, results and final history equal those of a program building a fresh Executor per call, and without checkpoints every statement runs exactly once, in order; plus a driver-scanner slice: a recording driver that has a statement scanner of its own (BEGIN ... END blocks kept whole) over a file holding such a block, no fault and each single fault position: the statements are the driver scanner's, whole, once, in order; plus a store slice: the real Executor over the real SQLite driver and the CLI's own revision store (EntRevisions over ent), 5 shapes x every statement failing once x every placement of <=bound failing database calls of the store (reads and writes) over the runs, the database observed after every run (no claim beyond what was executed, effects in order, no repeat without a faulted write, convergence); real migrate.Executor over a recording driver/store; non-trivial = execution with >=1 injected fault; distinct = (shape, checkpoint, alphabet, choice list)"
	r.Assumptions = []string{
		"a failed revision write persists nothing; a simulated process death freezes both stores (deferred code may run but cannot write)",
		"statement texts are unique per directory so the recording driver can identify them",
	}
	var shapes [][]int
	for nf := 1; nf <= maxFiles; nf++ {
		dims := make([]int, nf)
		for i := range dims {
			dims[i] = maxStmts
		}
		enum.Product(dims, func(t []int) {
			s := make([]int, nf)
			for i := range t {
				s[i] = t[i] + 1
			}
			shapes = append(shapes, s)
		})
	}
	type job struct {
		shape []int
		crash bool
		ck    int
	}
	var jobs []job
	for _, s := range shapes {
		for ck := 0; ck < 1<<len(s); ck++ {
			jobs = append(jobs, job{s, false, ck}, job{s, true, ck})
		}
	}
	stats := make([]explore.Stats, len(jobs))
	outcomes := make([]map[string]bool, len(jobs))
	enum.Parallel(len(jobs), func(i, _ int) {
		j := jobs[i]
		outcomes[i] = map[string]bool{}
		b := bound
		if j.crash && r.Tier != "thorough" {
			b = 2
		}
		stats[i] = explore.Explore(b, func(x *explore.X) {
			problems, faults, trace := exec(j.shape, j.crash, j.ck, x)
			cs := explore.Trim(x.Choices())
			key := fmt.Sprintf("%v|%v|%v|%v", j.shape, j.ck, j.crash, cs)
			r.Case(key, faults > 0)
			outcomes[i][strings.Join(trace, ";")] = true
			c := Case{Shape: j.shape, Choices: cs, Crash: j.crash, Ck: j.ck}
			if len(problems) > 0 {
				// believe a failure only if it reproduces identically.
				for k := 0; k < 2; k++ {
					p2, _, _ := exec(j.shape, j.crash, j.ck, explore.Replay(cs))
					if strings.Join(p2, "\n") != strings.Join(problems, "\n") {
						r.Violate("", "NONDETERMINISTIC HARNESS: replay of "+key+" differs", c)
						return
					}
				}
				r.Violate("", fmt.Sprintf("shape=%v checkpoints=%b crash=%v choices=%v: %s", j.shape, j.ck, j.crash, cs, strings.Join(problems, " | ")), c)
			}
			if faults == 2 && len(j.shape) == 2 && j.ck == 0 {
				r.Sample(map[string]any{"shape": j.shape, "crash_alphabet": j.crash, "choices": cs, "trace": trace})
			}
		}, func(*explore.X) {})
	})
	// reused executor: every shape x every target version x {no fault, the k-th execution fails once}.
	reused := 0
	for _, sh := range shapes {
		total := 0
		for _, n := range sh {
			total += n
		}
		for ck := 0; ck < 1<<len(sh); ck++ {
			for to := 1; to <= len(sh); to++ {
				for failAt := 0; failAt <= total; failAt++ {
					reused++
					c := Case{Shape: sh, Ck: ck, To: to, FailAt: failAt}
					r.Case(fmt.Sprintf("reuse|%v|%d|%d|%d", sh, ck, to, failAt), true)
					if problems := reuse(sh, ck, to, failAt); len(problems) > 0 {
						r.Violate("", fmt.Sprintf("reused executor shape=%v checkpoints=%b to=%d fail_at=%d: %s", sh, ck, to, failAt, strings.Join(problems, " | ")), c)
					}
				}
			}
		}
	}
	r.Set("reused_executor_cases", reused)
	// driver-scanner slice: the compound-statement file, no fault and every single fault position.
	for failAt := 0; failAt <= 4; failAt++ {
		r.Case(fmt.Sprintf("compound|%d", failAt), true)
		if problems := compound(failAt); len(problems) > 0 {
			r.Violate("", fmt.Sprintf("compound statement, fail_at=%d: %s", failAt, strings.Join(problems, " | ")), Case{Shape: []int{3, 1}, To: -1, FailAt: failAt})
		}
	}
	// store slice: the CLI's own revision store with faulted reads and writes (store.go).
	RunStore(r, bound)
	var tot explore.Stats
	nout := 0
	for i := range stats {
		tot.Executions += stats[i].Executions
		tot.Points += stats[i].Points
		if stats[i].MaxDepth > tot.MaxDepth {
			tot.MaxDepth = stats[i].MaxDepth
		}
		nout += len(outcomes[i])
	}
	r.Set("shapes", len(shapes))
	r.Set("shape_checkpoint_alphabet_combinations", len(jobs))
	r.Set("deviation_bound_completed", bound)
	r.Set("executions", tot.Executions)
	r.Set("choice_points_visited", tot.Points)
	r.Set("max_depth", tot.MaxDepth)
	r.Set("distinct_observed_traces", nout)
}

func Replay(r *report.Run, raw json.RawMessage) {
	var v struct{ Case Case }
	if err := json.Unmarshal(raw, &v); err != nil {
		r.Violate("", "bad replay file: "+err.Error(), nil)
		return
	}
	c := v.Case
	if c.Store != nil {
		replayStore(r, c)
		return
	}
	if c.To < 0 {
		problems := compound(c.FailAt)
		r.Case(fmt.Sprint(c), true)
		r.Case(fmt.Sprint(c)+"'", true)
		if len(problems) > 0 {
			r.Violate("", strings.Join(problems, " | "), c)
		}
		return
	}
	if c.To > 0 {
		problems := reuse(c.Shape, c.Ck, c.To, c.FailAt)
		r.Case(fmt.Sprint(c), true)
		r.Case(fmt.Sprint(c)+"'", true)
		if len(problems) > 0 {
			r.Violate("", strings.Join(problems, " | "), c)
		}
		return
	}
	x := explore.Replay(c.Choices)
	problems, _, trace := exec(c.Shape, c.Crash, c.Ck, x)
	for _, t := range trace {
		fmt.Println("  ", t)
	}
	r.Case(fmt.Sprint(c), true)
	r.Case(fmt.Sprint(c)+"'", true)
	if len(problems) > 0 {
		r.Violate("", strings.Join(problems, " | "), c)
	}
}
