// Package c18: lint flags every destructive migration and no purely additive one.
package c18

import (
	"encoding/json"
	"fmt"
	"os"
	"sort"
	"strings"

	"verif/clih"
	"verif/engine/enum"
	"verif/engine/report"
)

// ---------- schema model ----------

type col struct {
	Name, Type string
	Virtual    string // generated VIRTUAL expression ("" = plain)
}

type table struct {
	Name   string
	Cols   []col
	Idx    map[string]string // name -> column
	Checks []string
	Ref    string // table whose id the column `<Ref>_id` of this table references ("" = no foreign key)
}

type model struct {
	Tables []*table
	// Virt: the virtual table vt (an R*Tree index) exists. It has no HCL form, so from then on the
	// last file is hand-written only.
	Virt bool
}

func (m *model) clone() *model {
	n := &model{Virt: m.Virt}
	for _, t := range m.Tables {
		c := &table{Name: t.Name, Cols: append([]col(nil), t.Cols...), Idx: map[string]string{}, Checks: append([]string(nil), t.Checks...), Ref: t.Ref}
		for k, v := range t.Idx {
			c.Idx[k] = v
		}
		n.Tables = append(n.Tables, c)
	}
	return n
}

func (m *model) table(n string) *table {
	for _, t := range m.Tables {
		if t.Name == n {
			return t
		}
	}
	return nil
}

func (t *table) col(n string) *col {
	for i := range t.Cols {
		if t.Cols[i].Name == n {
			return &t.Cols[i]
		}
	}
	return nil
}

func (m *model) canon() string {
	var out []string
	for _, t := range m.Tables {
		var cs []string
		for _, c := range t.Cols {
			cs = append(cs, c.Name+":"+c.Type+":"+c.Virtual)
		}
		var ix []string
		for k, v := range t.Idx {
			ix = append(ix, k+"="+v)
		}
		sort.Strings(ix)
		out = append(out, fmt.Sprintf("%s(%s|%s|%s|%s)", t.Name, strings.Join(cs, ","), strings.Join(ix, ","), strings.Join(t.Checks, ","), t.Ref))
	}
	sort.Strings(out)
	if m.Virt {
		out = append(out, "virtual:vt")
	}
	return strings.Join(out, ";")
}

func createSQL(t *table, name string) string {
	var defs []string
	for _, c := range t.Cols {
		switch {
		case c.Name == "id":
			defs = append(defs, "`id` integer NOT NULL")
		case c.Virtual != "":
			defs = append(defs, fmt.Sprintf("`%s` %s AS (%s) VIRTUAL", c.Name, c.Type, c.Virtual))
		default:
			defs = append(defs, fmt.Sprintf("`%s` %s NULL", c.Name, c.Type))
		}
	}
	defs = append(defs, "PRIMARY KEY (`id`)")
	for i, ck := range t.Checks {
		defs = append(defs, fmt.Sprintf("CONSTRAINT `ck%d` CHECK (%s)", i+1, ck))
	}
	if t.Ref != "" {
		defs = append(defs, fmt.Sprintf("CONSTRAINT `%s_%s` FOREIGN KEY (`%s_id`) REFERENCES `%s` (`id`)", t.Name, t.Ref, t.Ref, t.Ref))
	}
	return fmt.Sprintf("CREATE TABLE `%s` (%s)", name, strings.Join(defs, ", "))
}

func (m *model) hcl() string {
	var b strings.Builder
	b.WriteString("schema \"main\" {\n}\n")
	for _, t := range m.Tables {
		fmt.Fprintf(&b, "table %q {\n  schema = schema.main\n", t.Name)
		for _, c := range t.Cols {
			fmt.Fprintf(&b, "  column %q {\n    type = %s\n    null = %v\n", c.Name, c.Type, c.Name != "id")
			if c.Virtual != "" {
				fmt.Fprintf(&b, "    as {\n      expr = %q\n      type = VIRTUAL\n    }\n", c.Virtual)
			}
			b.WriteString("  }\n")
		}
		b.WriteString("  primary_key {\n    columns = [column.id]\n  }\n")
		var names []string
		for k := range t.Idx {
			names = append(names, k)
		}
		sort.Strings(names)
		for _, k := range names {
			fmt.Fprintf(&b, "  index %q {\n    columns = [column.%s]\n  }\n", k, t.Idx[k])
		}
		for i, ck := range t.Checks {
			fmt.Fprintf(&b, "  check \"ck%d\" {\n    expr = %q\n  }\n", i+1, ck)
		}
		if t.Ref != "" {
			fmt.Fprintf(&b, "  foreign_key \"%s_%s\" {\n    columns = [column.%s_id]\n    ref_columns = [table.%s.column.id]\n  }\n", t.Name, t.Ref, t.Ref, t.Ref)
		}
		b.WriteString("}\n")
	}
	return b.String()
}

func base() *model {
	return &model{Tables: []*table{
		{Name: "t", Cols: []col{{"id", "integer", ""}, {"a", "integer", ""}, {"b", "text", ""}, {"g", "integer", "a + 1"}}, Idx: map[string]string{}},
		{Name: "u", Cols: []col{{"id", "integer", ""}, {"v", "text", ""}}, Idx: map[string]string{}},
	}}
}

func baseSQL() string {
	m := base()
	return createSQL(m.table("t"), "t") + ";\n" + createSQL(m.table("u"), "u") + ";\n"
}

// ---------- evolutions ----------

// expectation of a file: which destructive diagnostics lint must report, and where.
type expect struct {
	Code string // DS102 | DS103
	What string // table / column name
	// the statement (by prefix) the diagnostic position must fall into.
	StmtPrefix []string
	// Optional: may be reported, need not be (the shadow tables SQLite drops together with a virtual table).
	Optional bool
}

type step struct {
	Op      string
	SQL     []string // hand-written statements of the file
	Expect  []expect
	ViaDiff bool // the same evolution can be produced by `migrate diff` from the model
}

func rebuild(m *model, tname string, mutate func(*table)) ([]string, *table) {
	old := m.table(tname)
	nt := &table{Name: old.Name, Cols: append([]col(nil), old.Cols...), Idx: old.Idx, Checks: append([]string(nil), old.Checks...)}
	mutate(nt)
	var keep []string
	for _, c := range nt.Cols {
		if c.Virtual == "" && old.col(c.Name) != nil {
			keep = append(keep, "`"+c.Name+"`")
		}
	}
	stmts := []string{
		"PRAGMA foreign_keys = off",
		createSQL(nt, "new_"+tname),
		fmt.Sprintf("INSERT INTO `new_%s` (%s) SELECT %s FROM `%s`", tname, strings.Join(keep, ", "), strings.Join(keep, ", "), tname),
		fmt.Sprintf("DROP TABLE `%s`", tname),
		fmt.Sprintf("ALTER TABLE `new_%s` RENAME TO `%s`", tname, tname),
	}
	var names []string
	for k := range nt.Idx {
		names = append(names, k)
	}
	sort.Strings(names)
	for _, k := range names {
		if nt.col(nt.Idx[k]) != nil {
			stmts = append(stmts, fmt.Sprintf("CREATE INDEX `%s` ON `%s` (`%s`)", k, tname, nt.Idx[k]))
		}
	}
	stmts = append(stmts, "PRAGMA foreign_keys = on")
	return stmts, nt
}

// readd is the model after column b of t was dropped and added back: b is the last column.
func readd(m *model) *model {
	n := m.clone()
	nt := n.table("t")
	for i, c := range nt.Cols {
		if c.Name == "b" {
			nt.Cols = append(nt.Cols[:i], nt.Cols[i+1:]...)
			break
		}
	}
	nt.Cols = append(nt.Cols, col{"b", "text", ""})
	return n
}

// ops returns the evolutions applicable to m at step k, each with the resulting model.
func ops(m *model, k int) (out []struct {
	s    step
	next *model
}) {
	add := func(s step, next *model) {
		if m.Virt || next.Virt {
			s.ViaDiff = false
		}
		out = append(out, struct {
			s    step
			next *model
		}{s, next})
	}
	if !m.Virt {
		n := m.clone()
		n.Virt = true
		add(step{Op: "add_virtual_table", SQL: []string{"CREATE VIRTUAL TABLE `vt` USING rtree(id, minx, maxx)"}}, n)
	} else {
		n := m.clone()
		n.Virt = false
		add(step{Op: "drop_virtual_table", SQL: []string{"DROP TABLE `vt`"}, Expect: []expect{
			{Code: "DS102", What: "vt", StmtPrefix: []string{"DROP TABLE `vt`"}},
			{Code: "DS102", What: "vt_node", StmtPrefix: []string{"DROP TABLE `vt`"}, Optional: true},
			{Code: "DS102", What: "vt_rowid", StmtPrefix: []string{"DROP TABLE `vt`"}, Optional: true},
			{Code: "DS102", What: "vt_parent", StmtPrefix: []string{"DROP TABLE `vt`"}, Optional: true},
		}}, n)
	}
	t := m.table("t")
	// add table
	{
		n := m.clone()
		name := fmt.Sprintf("x%d", k)
		n.Tables = append(n.Tables, &table{Name: name, Cols: []col{{"id", "integer", ""}, {"v", "text", ""}}, Idx: map[string]string{}})
		add(step{Op: "add_table", SQL: []string{createSQL(n.table(name), name)}, ViaDiff: true}, n)
	}
	if t != nil && m.table("r") == nil {
		// add a table whose foreign key references t: the rebuilds of t that follow are rebuilds of a
		// referenced table (t itself is never dropped for good by an evolution).
		n := m.clone()
		n.Tables = append(n.Tables, &table{Name: "r", Cols: []col{{"id", "integer", ""}, {"t_id", "integer", ""}}, Idx: map[string]string{}, Ref: "t"})
		add(step{Op: "add_table_referencing_t", SQL: []string{createSQL(n.table("r"), "r")}, ViaDiff: true}, n)
	}
	if t != nil {
		// add nullable column
		n := m.clone()
		cn := fmt.Sprintf("c%d", k)
		n.table("t").Cols = append(n.table("t").Cols, col{cn, "integer", ""})
		add(step{Op: "add_column", SQL: []string{fmt.Sprintf("ALTER TABLE `t` ADD COLUMN `%s` integer NULL", cn)}, ViaDiff: true}, n)
		// add index on a
		if t.col("a") != nil {
			n := m.clone()
			in := fmt.Sprintf("idx%d", k)
			n.table("t").Idx[in] = "a"
			add(step{Op: "add_index", SQL: []string{fmt.Sprintf("CREATE INDEX `%s` ON `t` (`a`)", in)}, ViaDiff: true}, n)
		}
		// drop column b: ALTER ... DROP COLUMN, and by rebuild
		if t.col("b") != nil {
			n := m.clone()
			nt := n.table("t")
			for i, c := range nt.Cols {
				if c.Name == "b" {
					nt.Cols = append(nt.Cols[:i], nt.Cols[i+1:]...)
					break
				}
			}
			add(step{Op: "drop_column_alter", SQL: []string{"ALTER TABLE `t` DROP COLUMN `b`"},
				Expect: []expect{{"DS103", "b", []string{"ALTER TABLE `t` DROP COLUMN `b`"}, false}}}, n)
			stmts, _ := rebuild(m, "t", func(x *table) {
				for i, c := range x.Cols {
					if c.Name == "b" {
						x.Cols = append(x.Cols[:i:i], x.Cols[i+1:]...)
						break
					}
				}
			})
			add(step{Op: "drop_column_rebuild", SQL: stmts, ViaDiff: true,
				Expect: []expect{{"DS103", "b", []string{"CREATE TABLE `new_t`", "ALTER TABLE `t` DROP COLUMN `b`"}, false}}}, n)
			// the column is dropped and a column of the same name added back in the same file: its data is gone.
			add(step{Op: "drop_readd_column", SQL: []string{"ALTER TABLE `t` DROP COLUMN `b`", "ALTER TABLE `t` ADD COLUMN `b` text NULL"},
				Expect: []expect{{"DS103", "b", []string{"ALTER TABLE `t` DROP COLUMN `b`"}, false}}}, readd(m))
			add(step{Op: "rebuild_drop_readd_column", SQL: append(append([]string{}, stmts...), "ALTER TABLE `t` ADD COLUMN `b` text NULL"),
				Expect: []expect{{"DS103", "b", []string{"CREATE TABLE `new_t`", "ALTER TABLE `t` DROP COLUMN `b`"}, false}}}, readd(m))
		}
		// dropped, added back and dropped again: the column is gone.
		if t.col("b") != nil {
			n := m.clone()
			nt := n.table("t")
			for i, c := range nt.Cols {
				if c.Name == "b" {
					nt.Cols = append(nt.Cols[:i], nt.Cols[i+1:]...)
					break
				}
			}
			add(step{Op: "drop_readd_drop_column", SQL: []string{"ALTER TABLE `t` DROP COLUMN `b`", "ALTER TABLE `t` ADD COLUMN `b` text NULL", "ALTER TABLE `t` DROP COLUMN `b`"},
				Expect: []expect{{"DS103", "b", []string{"ALTER TABLE `t` DROP COLUMN `b`"}, false}}}, n)
		}
		// change column type a integer -> text by rebuild: nothing lost
		if c := t.col("a"); c != nil && c.Type == "integer" {
			n := m.clone()
			n.table("t").col("a").Type = "text"
			stmts, _ := rebuild(m, "t", func(x *table) { x.col("a").Type = "text" })
			add(step{Op: "change_type_rebuild", SQL: stmts, ViaDiff: true}, n)
		}
		// add check by rebuild
		if len(t.Checks) == 0 {
			n := m.clone()
			n.table("t").Checks = []string{"id > 0"}
			stmts, _ := rebuild(m, "t", func(x *table) { x.Checks = []string{"id > 0"} })
			add(step{Op: "add_check_rebuild", SQL: stmts, ViaDiff: true}, n)
		}
		// drop the VIRTUAL generated column
		if t.col("g") != nil {
			n := m.clone()
			nt := n.table("t")
			for i, c := range nt.Cols {
				if c.Name == "g" {
					nt.Cols = append(nt.Cols[:i], nt.Cols[i+1:]...)
					break
				}
			}
			add(step{Op: "drop_virtual_column", SQL: []string{"ALTER TABLE `t` DROP COLUMN `g`"}}, n)
		}
		// the VIRTUAL column and then an ordinary one dropped in the same file: only the second loses data.
		if t.col("g") != nil && t.col("b") != nil {
			n := m.clone()
			nt := n.table("t")
			var keep []col
			for _, c := range nt.Cols {
				if c.Name != "g" && c.Name != "b" {
					keep = append(keep, c)
				}
			}
			nt.Cols = keep
			add(step{Op: "drop_virtual_then_ordinary_column", SQL: []string{"ALTER TABLE `t` DROP COLUMN `g`", "ALTER TABLE `t` DROP COLUMN `b`"},
				Expect: []expect{{"DS103", "b", []string{"ALTER TABLE `t` DROP COLUMN `b`"}, false}}}, n)
		}
		// temporary column within one file
		add(step{Op: "temp_column", SQL: []string{fmt.Sprintf("ALTER TABLE `t` ADD COLUMN `tmp%d` integer NULL", k), fmt.Sprintf("ALTER TABLE `t` DROP COLUMN `tmp%d`", k)}}, m.clone())
	}
	// a rebuild of t directly followed by DROP TABLE u in the same file
	if t != nil && m.table("u") != nil {
		if c := t.col("a"); c != nil && c.Type == "integer" {
			n := m.clone()
			n.table("t").col("a").Type = "text"
			for i, x := range n.Tables {
				if x.Name == "u" {
					n.Tables = append(n.Tables[:i], n.Tables[i+1:]...)
					break
				}
			}
			stmts, _ := rebuild(m, "t", func(x *table) { x.col("a").Type = "text" })
			var body []string
			for _, st := range stmts {
				if !strings.HasPrefix(st, "PRAGMA") && !strings.HasPrefix(st, "CREATE INDEX") {
					body = append(body, st)
				}
			}
			body = append(body, "DROP TABLE `u`")
			add(step{Op: "rebuild_then_drop_table", SQL: body, Expect: []expect{{"DS102", "u", []string{"DROP TABLE `u`"}, false}}}, n)
		}
	}
	// two tables rebuilt in one file: nothing is lost
	if t != nil && m.table("u") != nil && len(t.Checks) == 0 && len(m.table("u").Checks) == 0 && len(t.Idx) == 0 {
		n := m.clone()
		n.table("t").Checks = []string{"id > 0"}
		n.table("u").Checks = []string{"id > 0"}
		s1, _ := rebuild(m, "t", func(x *table) { x.Checks = []string{"id > 0"} })
		s2, _ := rebuild(m, "u", func(x *table) { x.Checks = []string{"id > 0"} })
		var body []string
		body = append(body, "PRAGMA foreign_keys = off")
		for _, st := range append(s1, s2...) {
			if !strings.HasPrefix(st, "PRAGMA") {
				body = append(body, st)
			}
		}
		body = append(body, "PRAGMA foreign_keys = on")
		add(step{Op: "two_rebuilds", SQL: body, ViaDiff: true}, n)
	}
	// drop table u
	if m.table("u") != nil {
		n := m.clone()
		for i, x := range n.Tables {
			if x.Name == "u" {
				n.Tables = append(n.Tables[:i], n.Tables[i+1:]...)
				break
			}
		}
		add(step{Op: "drop_table", SQL: []string{"DROP TABLE `u`"}, ViaDiff: true, Expect: []expect{{"DS102", "u", []string{"DROP TABLE `u`"}, false}}}, n)
	}
	// table u dropped and a table of the same name created again in the same file: its rows are gone.
	if u := m.table("u"); u != nil {
		add(step{Op: "drop_recreate_table", SQL: []string{"DROP TABLE `u`", createSQL(u, "u")},
			Expect: []expect{{"DS102", "u", []string{"DROP TABLE `u`"}, false}}}, m.clone())
	}
	// dropped, created again and dropped again in one file: the table and its rows are gone.
	if u := m.table("u"); u != nil {
		n := m.clone()
		for i, x := range n.Tables {
			if x.Name == "u" {
				n.Tables = append(n.Tables[:i], n.Tables[i+1:]...)
				break
			}
		}
		add(step{Op: "drop_recreate_drop_table", SQL: []string{"DROP TABLE `u`", createSQL(u, "u"), "DROP TABLE `u`"},
			Expect: []expect{{"DS102", "u", []string{"DROP TABLE `u`"}, false}}}, n)
	}
	// long files (more than 10 statements; the analyzers' loader treats long files specially):
	// (a) five temporary tables created and dropped, then DROP TABLE u;
	// (b) two rebuilds of which the one of t omits column b.
	if m.table("u") != nil {
		n := m.clone()
		for i, x := range n.Tables {
			if x.Name == "u" {
				n.Tables = append(n.Tables[:i], n.Tables[i+1:]...)
				break
			}
		}
		var body []string
		for i := 0; i < 5; i++ {
			body = append(body, fmt.Sprintf("CREATE TABLE `tmpl%d_%d` (`id` integer)", k, i), fmt.Sprintf("DROP TABLE `tmpl%d_%d`", k, i))
		}
		body = append(body, "DROP TABLE `u`")
		add(step{Op: "long_file_drop_table", SQL: body, Expect: []expect{{"DS102", "u", []string{"DROP TABLE `u`"}, false}}}, n)
	}
	if t != nil && t.col("b") != nil && m.table("u") != nil && len(m.table("u").Checks) == 0 && len(t.Idx) == 0 {
		n := m.clone()
		nt := n.table("t")
		for i, c := range nt.Cols {
			if c.Name == "b" {
				nt.Cols = append(nt.Cols[:i], nt.Cols[i+1:]...)
				break
			}
		}
		n.table("u").Checks = []string{"id > 0"}
		s1, _ := rebuild(m, "t", func(x *table) {
			for i, c := range x.Cols {
				if c.Name == "b" {
					x.Cols = append(x.Cols[:i:i], x.Cols[i+1:]...)
					break
				}
			}
		})
		s2, _ := rebuild(m, "u", func(x *table) { x.Checks = []string{"id > 0"} })
		body := []string{"PRAGMA foreign_keys = off"}
		for _, st := range append(s2, s1...) {
			if !strings.HasPrefix(st, "PRAGMA") {
				body = append(body, st)
			}
		}
		body = append(body, "PRAGMA foreign_keys = on", fmt.Sprintf("CREATE TABLE `extra%d` (`id` integer)", k))
		n.Tables = append(n.Tables, &table{Name: fmt.Sprintf("extra%d", k), Cols: []col{{"id", "integer", ""}}, Idx: map[string]string{}})
		add(step{Op: "long_file_two_rebuilds_drop_column", SQL: body,
			Expect: []expect{{"DS103", "b", []string{"CREATE TABLE `new_t`", "ALTER TABLE `t` DROP COLUMN `b`"}, false}}}, n)
	}
	// a table literally named new_u is created (not a rebuild: no copy, no rename follows), more tables
	// are created, and only then u is dropped: the drop is a real one.
	if m.table("u") != nil && m.table("new_u") == nil {
		n := m.clone()
		for i, x := range n.Tables {
			if x.Name == "u" {
				n.Tables = append(n.Tables[:i], n.Tables[i+1:]...)
				break
			}
		}
		var body []string
		for _, name := range []string{"new_u", fmt.Sprintf("na%d", k), fmt.Sprintf("nb%d", k), fmt.Sprintf("nc%d", k)} {
			t := &table{Name: name, Cols: []col{{"id", "integer", ""}}, Idx: map[string]string{}}
			n.Tables = append(n.Tables, t)
			body = append(body, createSQL(t, name))
		}
		body = append(body, "DROP TABLE `u`")
		add(step{Op: "create_new_prefixed_table_then_drop", SQL: body, Expect: []expect{{"DS102", "u", []string{"DROP TABLE `u`"}, false}}}, n)
	}
	// statements that begin like the rebuild of u (create new_u, copy, drop u) but do not end in
	// "rename new_u to u": u is gone for good.
	if u := m.table("u"); u != nil && m.table("new_u") == nil {
		drop := func(extraName string, tail string, keep *table) {
			n := m.clone()
			for i, x := range n.Tables {
				if x.Name == "u" {
					n.Tables = append(n.Tables[:i], n.Tables[i+1:]...)
					break
				}
			}
			n.Tables = append(n.Tables, keep)
			nu := &table{Name: "new_u", Cols: append([]col(nil), u.Cols...), Idx: map[string]string{}}
			var cs []string
			for _, c := range u.Cols {
				if c.Virtual == "" {
					cs = append(cs, "`"+c.Name+"`")
				}
			}
			cl := strings.Join(cs, ", ")
			body := []string{createSQL(nu, "new_u"), "INSERT INTO `new_u` (" + cl + ") SELECT " + cl + " FROM `u`", "DROP TABLE `u`", tail}
			add(step{Op: extraName, SQL: body, Expect: []expect{{"DS102", "u", []string{"DROP TABLE `u`"}, false}}}, n)
		}
		drop("copy_drop_then_index_instead_of_rename", "CREATE INDEX `new_u_id` ON `new_u` (`id`)",
			&table{Name: "new_u", Cols: append([]col(nil), u.Cols...), Idx: map[string]string{}})
		drop("copy_drop_then_rename_to_another_name", fmt.Sprintf("ALTER TABLE `new_u` RENAME TO `u_v%d`", k),
			&table{Name: fmt.Sprintf("u_v%d", k), Cols: append([]col(nil), u.Cols...), Idx: map[string]string{}})
	}
	// the four statements of a rebuild of t, but the second one is not the row copy: it drops table u
	// (or a column of u). Both u (its column) and the rows of t are gone.
	if u := m.table("u"); u != nil && t != nil && m.table("new_t") == nil && len(t.Idx) == 0 {
		for _, variant := range []string{"table", "column"} {
			if variant == "column" && u.col("v") == nil {
				continue
			}
			n := m.clone()
			want := []expect{{"DS102", "t", []string{"DROP TABLE `t`"}, false}}
			mid := "DROP TABLE `u`"
			if variant == "table" {
				for i, x := range n.Tables {
					if x.Name == "u" {
						n.Tables = append(n.Tables[:i], n.Tables[i+1:]...)
						break
					}
				}
				want = append(want, expect{"DS102", "u", []string{"DROP TABLE `u`"}, false})
			} else {
				nu := n.table("u")
				for i, c := range nu.Cols {
					if c.Name == "v" {
						nu.Cols = append(nu.Cols[:i], nu.Cols[i+1:]...)
						break
					}
				}
				mid = "ALTER TABLE `u` DROP COLUMN `v`"
				want = append(want, expect{"DS103", "v", []string{mid}, false})
			}
			add(step{Op: "rebuild_shape_with_drop_" + variant + "_instead_of_copy", SQL: []string{createSQL(t, "new_t"), mid, "DROP TABLE `t`", "ALTER TABLE `new_t` RENAME TO `t`"}, Expect: want}, n)
		}
	}
	// one of two destructive statements is silenced by a statement-level atlas:nolint directive: the
	// other one is still an error.
	if t != nil && t.col("b") != nil && m.table("u") != nil {
		n := m.clone()
		nt := n.table("t")
		for i, c := range nt.Cols {
			if c.Name == "b" {
				nt.Cols = append(nt.Cols[:i], nt.Cols[i+1:]...)
				break
			}
		}
		for i, x := range n.Tables {
			if x.Name == "u" {
				n.Tables = append(n.Tables[:i], n.Tables[i+1:]...)
				break
			}
		}
		add(step{Op: "drop_column_nolint_then_drop_table", SQL: []string{"-- atlas:nolint DS103\nALTER TABLE `t` DROP COLUMN `b`", "DROP TABLE `u`"},
			Expect: []expect{{"DS102", "u", []string{"DROP TABLE `u`"}, false}}}, n)
	}
	// temporary table within one file
	add(step{Op: "temp_table", SQL: []string{fmt.Sprintf("CREATE TABLE `tmpt%d` (`id` integer)", k), fmt.Sprintf("DROP TABLE `tmpt%d`", k)}}, m.clone())
	return
}

// ---------- one directory = one history of evolutions ----------

type Case struct {
	Ops     []string `json:"ops"`
	ViaDiff []bool   `json:"via_diff"` // file produced by `migrate diff` instead of hand-written SQL
	Latest  int      `json:"latest"`
	// CRLF: the last (hand-written) file is saved with CR LF line endings below 200 comment lines, so
	// that byte positions and line numbers drift apart if anything normalises the text in between.
	CRLF bool `json:"crlf,omitempty"`
}

type lintOut struct {
	Files []struct {
		Name    string
		Text    string
		Error   string
		Reports []struct {
			Text        string
			Diagnostics []struct {
				Pos  int
				Text string
				Code string
			}
		}
	}
}

func Eval(c Case) (problems []string, skipped string) {
	bad := func(f string, a ...any) { problems = append(problems, fmt.Sprintf(f, a...)) }
	w, err := clih.NewWork()
	if err != nil {
		return []string{"harness: " + err.Error()}, ""
	}
	defer w.Close()
	if err := w.WriteDir("migrations", map[string]string{"0_base.sql": baseSQL()}); err != nil {
		return []string{"harness: " + err.Error()}, ""
	}
	m := base()
	var expects [][]expect
	var names []string
	for k, opName := range c.Ops {
		var chosen *step
		var next *model
		for _, o := range ops(m, k+1) {
			if o.s.Op == opName {
				s := o.s
				chosen, next = &s, o.next
			}
		}
		if chosen == nil {
			return nil, "evolution " + opName + " not applicable"
		}
		name := fmt.Sprintf("%d_step.sql", k+1)
		if c.ViaDiff[k] {
			if !chosen.ViaDiff {
				return nil, "evolution " + opName + " cannot be produced by migrate diff"
			}
			os.WriteFile(w.Path("desired.hcl"), []byte(next.hcl()), 0o644)
			before := w.ReadDir("migrations")
			r := w.Run(nil, "migrate", "diff", "step", "--dir", "file://"+w.Path("migrations"), "--to", "file://"+w.Path("desired.hcl"), "--dev-url", w.URL("dev.sqlite"))
			if r.Exit != 0 {
				return []string{"harness: migrate diff failed: " + r.String()}, ""
			}
			after := w.ReadDir("migrations")
			name = ""
			for n := range after {
				if _, ok := before[n]; !ok {
					name = n
				}
			}
			if name == "" {
				return nil, "migrate diff produced no file for " + opName
			}
			// keep file order = history order: rename to the step's version.
			nn := fmt.Sprintf("%d_step.sql", k+1)
			os.Rename(w.Path("migrations", name), w.Path("migrations", nn))
			name = nn
			if err := clih.Rehash(w.Path("migrations")); err != nil {
				return []string{"harness: " + err.Error()}, ""
			}
		} else {
			body := strings.Join(chosen.SQL, ";\n") + ";\n"
			if c.CRLF && k == len(c.Ops)-1 {
				body = strings.Repeat("-- pad\r\n", 200) + strings.ReplaceAll(body, "\n", "\r\n")
			}
			os.WriteFile(w.Path("migrations", name), []byte(body), 0o644)
			if err := clih.Rehash(w.Path("migrations")); err != nil {
				return []string{"harness: " + err.Error()}, ""
			}
		}
		names = append(names, name)
		expects = append(expects, chosen.Expect)
		m = next
	}
	res := w.Run(nil, "migrate", "lint", "--dir", "file://"+w.Path("migrations"), "--dev-url", w.URL("dev.sqlite"), "--latest", fmt.Sprint(c.Latest), "--format", "{{ json . }}")
	var out lintOut
	if err := json.Unmarshal([]byte(res.Stdout), &out); err != nil {
		bad("lint output is not JSON (exit %d): %s", res.Exit, res)
		return
	}
	window := map[string]bool{}
	for i := len(names) - c.Latest; i < len(names); i++ {
		if i >= 0 {
			window[names[i]] = true
		}
	}
	anyDestructive := false
	seen := map[string]bool{}
	disk := w.ReadDir("migrations")
	// the line numbers atlas prints for the same diagnostics (FileReport.Line), from a second run.
	lres := w.Run(nil, "migrate", "lint", "--dir", "file://"+w.Path("migrations"), "--dev-url", w.URL("dev.sqlite"), "--latest", fmt.Sprint(c.Latest),
		"--format", "{{ range .Files }}{{ $f := . }}{{ range .Reports }}{{ range .Diagnostics }}{{ $f.Name }}|{{ .Code }}|{{ $f.Line .Pos }}\n{{ end }}{{ end }}{{ end }}")
	if strings.Contains(lres.Stderr, "panic") || strings.Contains(lres.Stderr, "slice bounds") || strings.Contains(lres.Stderr, "error calling Line") {
		bad("computing the line of a diagnostic fails: %s", lres)
	}
	var gotLines, wantLines []string
	for _, l := range strings.Split(strings.TrimSpace(lres.Stdout), "\n") {
		if p := strings.Split(l, "|"); len(p) == 3 && strings.HasPrefix(p[1], "DS1") {
			gotLines = append(gotLines, l)
		}
	}
	for _, f := range out.Files {
		for _, r := range f.Reports {
			for _, d := range r.Diagnostics {
				if strings.HasPrefix(d.Code, "DS1") && d.Pos >= 0 && d.Pos <= len(disk[f.Name]) {
					wantLines = append(wantLines, fmt.Sprintf("%s|%s|%d", f.Name, d.Code, 1+strings.Count(disk[f.Name][:d.Pos], "\n")))
				}
			}
		}
	}
	sort.Strings(gotLines)
	sort.Strings(wantLines)
	if fmt.Sprint(gotLines) != fmt.Sprint(wantLines) {
		bad("line numbers printed for the diagnostics %v differ from the lines their positions are on in the file %v", gotLines, wantLines)
	}
	for _, f := range out.Files {
		seen[f.Name] = true
		// positions are byte offsets into the file as it is on disk.
		if d, ok := disk[f.Name]; ok {
			f.Text = d
		}
		if !window[f.Name] {
			bad("file %s is outside the --latest %d window but is reported", f.Name, c.Latest)
			continue
		}
		var want []expect
		for i, n := range names {
			if n == f.Name {
				want = expects[i]
			}
		}
		// the file-level verdict ("Error" of the file report: what the text report prints and counts
		// as a file with errors) follows the file's own diagnostics.
		if len(want) == 0 && f.Error != "" {
			bad("file %s destroys nothing that existed before it, yet its report carries the error %q", f.Name, f.Error)
		}
		if len(want) > 0 && f.Error == "" {
			bad("file %s is destructive, yet its report carries no error", f.Name)
		}
		type diag struct {
			code, text string
			pos        int
		}
		var got []diag
		for _, r := range f.Reports {
			for _, d := range r.Diagnostics {
				if strings.HasPrefix(d.Code, "DS1") {
					got = append(got, diag{d.Code, d.Text, d.Pos})
				}
			}
		}
		for _, e := range want {
			anyDestructive = true
			found := false
			for _, g := range got {
				if g.code != e.Code || !strings.Contains(g.text, `"`+e.What+`"`) {
					continue
				}
				found = true
				if g.pos < 0 || g.pos >= len(f.Text) {
					bad("%s: %s at position %d outside the file", f.Name, g.code, g.pos)
					continue
				}
				ok := false
				for _, p := range e.StmtPrefix {
					if strings.HasPrefix(f.Text[g.pos:], p) {
						ok = true
					}
				}
				if !ok {
					end := g.pos + 50
					if end > len(f.Text) {
						end = len(f.Text)
					}
					bad("%s: %s for %q is reported at position %d (%q), not on the statement that causes it (%v)", f.Name, g.code, e.What, g.pos, f.Text[g.pos:end], e.StmtPrefix)
				}
			}
			if !found && !e.Optional {
				bad("%s removes %s %q that existed before the file, but lint reports no %s (diagnostics: %v)\n%s", f.Name, map[string]string{"DS102": "table", "DS103": "column"}[e.Code], e.What, e.Code, got, f.Text)
			}
		}
		for _, g := range got {
			expected := false
			for _, e := range want {
				if g.code == e.Code && strings.Contains(g.text, `"`+e.What+`"`) {
					expected = true
				}
			}
			if !expected {
				bad("%s destroys nothing that existed before it, yet lint reports %s %q\n%s", f.Name, g.code, g.text, f.Text)
			}
		}
	}
	for n := range window {
		if !seen[n] {
			bad("file %s is inside the --latest %d window but is not analysed", n, c.Latest)
		}
		for i, nn := range names {
			if nn == n && len(expects[i]) > 0 {
				anyDestructive = true
			}
		}
	}
	if anyDestructive && res.Exit == 0 {
		bad("a destructive file is inside the window but lint exited 0")
	}
	if !anyDestructive && res.Exit != 0 {
		bad("no destructive file inside the window but lint exited %d: %s", res.Exit, res.Stderr)
	}
	return
}

func Run(r *report.Run) {
	defer clih.Cleanup()
	depth := 2
	if r.Tier == "thorough" {
		depth = 3
	}
	r.Rule = fmt.Sprintf("BFS to depth %d over schema evolutions of a two-table SQLite schema (add table, add a table whose foreign key references the table that later files rebuild, create a virtual table (R*Tree) / drop it in a later file, add nullable column, add index, drop column by ALTER, drop column by table rebuild, drop column (by ALTER / by rebuild) and add it back in the same file, drop table, drop table and create it again in the same file, change type by rebuild, add check by rebuild, drop VIRTUAL column, temporary table / temporary column inside one file, a rebuild directly followed by DROP TABLE, two rebuilds in one file, two destructive statements of which one is silenced by atlas:nolint, a table / column dropped, added back and dropped again, files of more than 10 statements ending in DROP TABLE / containing a column-dropping rebuild); every history becomes a migration directory in which the last file is written by hand and, where the evolution can be expressed as a desired schema, also by the real `atlas migrate diff` (earlier files hand-written); x --latest N for every N<=depth (and, for --latest 1, the hand-written file saved with CR LF line endings below 200 comment lines); the line number atlas prints for each diagnostic must be the line its byte position is on; the file-level error of each file report follows the file's own diagnostics; the real `atlas migrate lint` runs against a real SQLite dev database; states de-duplicated by the canonical schema model for expansion; non-trivial = every directory; distinct = (history, producer, N)", depth)
	r.Assumptions = []string{
		"a file is destructive iff it removes a table or a non-virtual column that existed before the file (reference model of the evolution)",
		"for a table rebuild the diagnostic position is the first statement of the CREATE/INSERT/DROP/RENAME group, as sqlitecheck documents",
	}
	type node struct {
		ops []string
		m   *model
	}
	frontier := []node{{nil, base()}}
	var cases []Case
	states, transitions := 1, 0
	seen := map[string]bool{base().canon(): true}
	for d := 1; d <= depth; d++ {
		var next []node
		for _, n := range frontier {
			for _, o := range ops(n.m, d) {
				transitions++
				hist := append(append([]string(nil), n.ops...), o.s.Op)
				for latest := 1; latest <= d; latest++ {
					via := make([]bool, d)
					cases = append(cases, Case{Ops: hist, ViaDiff: via, Latest: latest})
					if latest == 1 && d <= 2 {
						cases = append(cases, Case{Ops: hist, ViaDiff: via, Latest: latest, CRLF: true})
					}
					if o.s.ViaDiff {
						v2 := make([]bool, d)
						v2[d-1] = true
						cases = append(cases, Case{Ops: hist, ViaDiff: v2, Latest: latest})
					}
				}
				k := o.next.canon() + "|" + fmt.Sprint(d)
				if !seen[k] {
					seen[k] = true
					states++
					next = append(next, node{hist, o.next})
				}
			}
		}
		frontier = next
	}
	res := make([][]string, len(cases))
	skip := make([]string, len(cases))
	enum.Parallel(len(cases), func(i, _ int) { res[i], skip[i] = Eval(cases[i]) })
	skipped := 0
	for i, c := range cases {
		r.Case(fmt.Sprint(c), skip[i] == "")
		if skip[i] != "" {
			skipped++
			continue
		}
		if len(res[i]) > 0 {
			r.Violate("", fmt.Sprintf("history=%v via_diff=%v latest=%d: %s", c.Ops, c.ViaDiff, c.Latest, strings.Join(res[i], " | ")), c)
		}
		if len(c.Ops) == 2 && c.Ops[0] == "add_index" && c.Ops[1] == "drop_column_rebuild" && c.ViaDiff[1] {
			r.Sample(c)
		}
	}
	r.Set("states", states)
	r.Set("transitions", transitions)
	r.Set("traces_validated_against_impl", len(cases)-skipped)
	r.Set("directories_linted", len(cases)-skipped)
	r.Set("skipped", skipped)
}

func Replay(r *report.Run, raw json.RawMessage) {
	defer clih.Cleanup()
	var v struct{ Case Case }
	if err := json.Unmarshal(raw, &v); err != nil {
		r.Violate("", "bad replay file: "+err.Error(), nil)
		return
	}
	p, skip := Eval(v.Case)
	fmt.Printf("  case %+v skipped=%q\n", v.Case, skip)
	r.Case("a", true)
	r.Case("b", true)
	if len(p) > 0 {
		r.Violate("", strings.Join(p, " | "), v.Case)
	}
}
