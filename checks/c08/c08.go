// Package c08: the statement scanner is total, lossless and position-accurate.
package c08

import (
	"encoding/json"
	"fmt"
	"os"
	"strings"
	"sync"
	"sync/atomic"
	"time"
	"unicode"
	"unicode/utf8"

	"ariga.io/atlas/sql/migrate"
	"ariga.io/atlas/sql/mysql"
	"ariga.io/atlas/sql/postgres"
	"ariga.io/atlas/sql/sqlite"

	"verif/engine/enum"
	"verif/engine/report"
)

type optSet struct {
	Name string
	O    migrate.ScannerOptions
	// judged: positions/losslessness are asserted (option sets the drivers use);
	// otherwise only totality (the struct exposes the options, no driver uses them).
	Judged bool
}

var optSets = []optSet{
	{"default", migrate.ScannerOptions{MatchBeginAtomic: true, MatchDollarQuote: true}, true},
	{"mysql", migrate.ScannerOptions{MatchBegin: true, BackslashEscapes: true, HashComments: true, ExecutableComments: true}, true},
	{"postgres", migrate.ScannerOptions{MatchBegin: true, MatchBeginAtomic: true, MatchDollarQuote: true, EscapedStringExt: true}, true},
	{"sqlite", migrate.ScannerOptions{MatchBegin: true}, true},
	{"tsql-like", migrate.ScannerOptions{MatchBegin: true, MatchBeginTryCatch: true, GoCommand: true, BeginEndTerminator: true}, false},
}

var alphabet = []string{
	"a", " ", "\n", ";", "'", "\"", "`", "(", ")", "--", "/*", "*/", "#", "\\", "$$", "$t$", "E'", "é", "\u00a0",
	"BEGIN ", "ATOMIC ", "END", "DELIMITER ", "//", "GO", "\nGO\n", "-- atlas:delimiter // \n",
}

type Case struct {
	Input string `json:"input"`
	Opt   string `json:"opt"`
	// for generated scripts: the intended statements.
	Want []wantStmt `json:"want,omitempty"`
}

type wantStmt struct {
	Text string `json:"text"`
	Line int    `json:"line"`
}

func scan(o migrate.ScannerOptions, in string) (st []*migrate.Stmt, err error, panicked any) {
	defer func() {
		if p := recover(); p != nil {
			panicked = p
		}
	}()
	st, err = (&migrate.Scanner{ScannerOptions: o}).Scan(in)
	return
}

// gapOK is the reference lexer for what may lie between statements: white space,
// complete comments of the enabled kinds, the active delimiter, DELIMITER / GO
// commands. It tracks the active delimiter across gaps. Returns the offending
// offset or -1.
type gapLexer struct {
	delim string
	o     migrate.ScannerOptions
}

func unescapeDelim(d string) string {
	return strings.NewReplacer(`\n`, "\n", `\r`, "\r", `\t`, "\t").Replace(d)
}

func (g *gapLexer) accept(gap string, atLineStart, afterStmt bool) int {
	i := 0
	// a statement is directly followed by the delimiter that ended it (the default
	// delimiter is part of the statement text, custom ones are trimmed from it).
	// (white space may separate them: the text is trimmed after the delimiter is cut off.)
	delimPending := afterStmt && g.delim != ""
	for i < len(gap) {
		rest := gap[i:]
		r, w := utf8.DecodeRuneInString(rest)
		switch {
		case delimPending && strings.HasPrefix(rest, g.delim):
			i += len(g.delim)
			atLineStart = strings.HasSuffix(g.delim, "\n")
			delimPending = false
		case len(rest) > 9 && strings.EqualFold(rest[:9], "delimiter") && rest[9] == ' ':
			j := strings.IndexByte(rest, '\n')
			line := rest
			if j >= 0 {
				line = rest[:j]
			}
			delimPending = false
			d := strings.TrimSpace(line[9:])
			if strings.HasPrefix(d, "'") && strings.HasSuffix(d, "'") && len(d) >= 2 {
				d = strings.ReplaceAll(d[1:len(d)-1], "''", "'")
			}
			if d == "" {
				return i
			}
			g.delim = unescapeDelim(d)
			i += len(line)
			atLineStart = false
		case unicode.IsSpace(r):
			atLineStart = r == '\n'
			i += w
		case strings.HasPrefix(rest, "--"), g.o.HashComments && r == '#':
			j := strings.IndexByte(rest, '\n')
			if j < 0 {
				return -1
			}
			i += j + 1
			atLineStart = true
		case strings.HasPrefix(rest, "/*"):
			j := strings.Index(rest[2:], "*/")
			if j < 0 {
				return i // a block comment that is never closed is no comment: its text is statement text
			}
			i += 2 + j + 2
			atLineStart = false
		case g.o.GoCommand && atLineStart && len(rest) >= 2 && strings.EqualFold(rest[:2], "GO") && (len(rest) == 2 || unicode.IsSpace(rune(rest[2]))):
			j := strings.IndexByte(rest, '\n')
			if j < 0 {
				return -1
			}
			i += j
		default:
			return i
		}
	}
	return -1
}

// judge checks one successful scan. Returns "" or the problem.
func judge(o migrate.ScannerOptions, in string, st []*migrate.Stmt) string {
	g := &gapLexer{delim: ";", o: o}
	prev := 0
	// header directive: "-- atlas:delimiter X" on the first line.
	first := in
	if j := strings.IndexByte(in, '\n'); j >= 0 {
		first = in[:j]
	}
	if strings.HasPrefix(first, "-- atlas:delimiter ") {
		if d := strings.TrimSpace(strings.TrimPrefix(first, "-- atlas:delimiter ")); d != "" {
			g.delim = unescapeDelim(d)
			prev = len(first)
			if prev < len(in) {
				prev++ // the newline ending the directive line
			}
		}
	}
	for i, s := range st {
		if s.Pos < 0 || s.Pos+len(s.Text) > len(in) {
			return fmt.Sprintf("statement %d: Pos=%d len=%d outside input of %d bytes", i, s.Pos, len(s.Text), len(in))
		}
		if in[s.Pos:s.Pos+len(s.Text)] != s.Text {
			return fmt.Sprintf("statement %d: text %q is not at its reported position %d (found %q)", i, s.Text, s.Pos, in[s.Pos:s.Pos+len(s.Text)])
		}
		if s.Pos < prev {
			return fmt.Sprintf("statement %d at %d overlaps the previous one ending at %d", i, s.Pos, prev)
		}
		if i > 0 && s.Pos <= st[i-1].Pos && !(len(s.Text) == 0 || len(st[i-1].Text) == 0) {
			return fmt.Sprintf("statement %d: positions not increasing (%d after %d)", i, s.Pos, st[i-1].Pos)
		}
		gap := in[prev:s.Pos]
		if off := g.accept(gap, prev == 0 || in[prev-1] == '\n', i > 0); off >= 0 {
			return fmt.Sprintf("text dropped before statement %d: gap %q contains %q which is neither white space, comment, delimiter nor a delimiter command", i, gap, gap[off:])
		}
		prev = s.Pos + len(s.Text)
	}
	if off := g.accept(in[prev:], prev == 0 || in[prev-1] == '\n', len(st) > 0); off >= 0 {
		return fmt.Sprintf("text dropped after the last statement: %q", in[prev:][off:])
	}
	return ""
}

func classify(in string, problem string) string {
	return ""
}

func kindOf(pr string) string {
	for _, k := range []string{"outside input", "not at its reported position", "overlaps", "not increasing", "text dropped before", "text dropped after"} {
		if strings.Contains(pr, k) {
			return k
		}
	}
	return "other"
}

// ---------- (b) well-formed scripts ----------

type shape struct {
	text string
	sets string // option sets (by initial) the shape is valid for: d m p s
}

var shapes = []shape{
	{"SELECT 1", "dmps"},
	{"INSERT INTO t VALUES ('a;b')", "dmps"},
	{"SELECT \"x;y\" FROM t", "dmps"},
	{"SELECT `a;b` FROM t", "dmps"},
	{"CREATE TABLE t (a int, b text DEFAULT ('x;y)'), CHECK (a > (1)))", "dmps"},
	{"SELECT 1 /* c; */ + 2", "dmps"},
	{"SELECT 1 -- c;\n + 2", "dmps"},
	{"SELECT 'it''s; ok'", "dmps"},
	{"CREATE TABLE u (\n  a int,\n  b int\n)", "dmps"},
	{"SELECT 'é→;'", "dmps"},
	{"SELECT 'a\\';b'", "m"},
	{"SELECT E'a\\\\;b'", "p"},
	{"SELECT E'it\\'s; ok'", "p"},
	{"SELECT e'\\'; ', 2", "p"},
	{"SELECT 1 WHERE name LIKE'x\\'", "p"},
	{"SELECT 1 # c;\n + 2", "m"},
	{"/*!40101 SET NAMES utf8 */", "m"},
	{"/*!50003 CREATE TABLE ec (a int, b text DEFAULT 'x;y') */", "m"},
	{"CREATE FUNCTION f() RETURNS int AS $$ SELECT 1; $$ LANGUAGE sql", "dp"},
	{"CREATE FUNCTION g() RETURNS int AS $t$ SELECT ';'; $$ $t$ LANGUAGE sql", "dp"},
	{"CREATE TRIGGER tr AFTER INSERT ON t BEGIN UPDATE t SET a = 1; DELETE FROM u; END", "mps"},
	{"CREATE FUNCTION h() RETURNS int BEGIN ATOMIC SELECT 1; SELECT 2; END", "dp"},
}

var seps = []string{";\n", ";", ";\n\n", ";\n-- note\n", "; /* c */ ", ";\n\n-- a;\n-- b\n"}
var leads = []string{"", "\n\n", "-- file comment;\n\n", "/* c; */\n", "\u00a0\n\n", "\ufeff"}
var tails = []string{";", ";\n", "", ";\n-- bye\n", ";\n-- bye", "; -- bye"}

type delimMode struct {
	header string // text before the statements that switches the delimiter
	delim  string
}

var delimModes = []delimMode{
	{"", ";"},
	{"-- atlas:delimiter //\n\n", "//"},
	{"DELIMITER //\n", "//"},
	{"-- atlas:delimiter \\n\\n\n", "\n\n"},
	{"DELIMITER §\n", "§"},
	{"DELIMITER →→\n", "→→"},
	{"-- atlas:delimiter ;;\n", ";;"},
}

func scripts(set optSet, maxStmts int, full bool, f func(Case)) {
	init := set.Name[:1]
	var ok []string
	for _, s := range shapes {
		if strings.Contains(s.sets, init) {
			ok = append(ok, s.text)
		}
	}
	for _, dm := range delimModes {
		for n := 1; n <= maxStmts; n++ {
			dims := make([]int, n)
			for i := range dims {
				dims[i] = len(ok)
			}
			enum.Product(dims, func(pick []int) {
				sepChoices := seps
				if !full && n == 3 {
					sepChoices = seps[:2]
				}
				for _, lead := range leads {
					for _, tail := range tails {
						for _, sep := range sepChoices {
							if dm.delim == "\n\n" && (strings.Contains(lead, "\n\n") || strings.Contains(sep, "\n\n") || strings.Contains(sep, "--")) {
								continue
							}
							if lead == "\ufeff" && dm.header != "" {
								continue // a byte order mark is the first thing in a file
							}
							var b strings.Builder
							b.WriteString(dm.header)
							if dm.header != "" && strings.HasPrefix(dm.header, "--") && !strings.HasSuffix(dm.header, "\n\n") && lead == "" {
								// a directive line directly followed by the statement is fine.
							}
							b.WriteString(lead)
							var want []wantStmt
							bad := false
							for i, p := range pick {
								text := ok[p]
								if dm.delim == "\n\n" && strings.Contains(text, "\n\n") {
									bad = true
								}
								// a statement ending in '/' followed by a delimiter starting with '/' is ambiguous text.
								if strings.HasSuffix(text, "/") && strings.HasPrefix(dm.delim, "/") {
									bad = true
								}
								if dm.delim != ";" && strings.Contains(text, dm.delim) {
									bad = true
								}
								line := 1 + strings.Count(b.String(), "\n")
								b.WriteString(text)
								last := i == len(pick)-1
								d := strings.Replace(sep, ";", dm.delim, 1)
								if last {
									d = strings.Replace(tail, ";", dm.delim, 1)
								}
								b.WriteString(d)
								w := text
								// a byte order mark is no white space: it belongs to the first statement, where its
								// position is counted (the scanner must not strip it silently).
								if i == 0 && lead == "\ufeff" && dm.header == "" {
									w = lead + w
								}
								if dm.delim == ";" && strings.HasPrefix(d, ";") {
									w += ";"
								}
								want = append(want, wantStmt{w, line})
							}
							if bad {
								continue
							}
							f(Case{Input: b.String(), Opt: set.Name, Want: want})
						}
					}
				}
			})
		}
	}
}

func judgeScript(o migrate.ScannerOptions, c Case, st []*migrate.Stmt) string {
	if len(st) != len(c.Want) {
		var got []string
		for _, s := range st {
			got = append(got, s.Text)
		}
		return fmt.Sprintf("scanned %d statements %q, intended %d", len(st), got, len(c.Want))
	}
	for i, s := range st {
		if s.Text != c.Want[i].Text {
			return fmt.Sprintf("statement %d text %q, intended %q", i, s.Text, c.Want[i].Text)
		}
		if s.Pos >= 0 && s.Pos <= len(c.Input) {
			if line := 1 + strings.Count(c.Input[:s.Pos], "\n"); line != c.Want[i].Line {
				return fmt.Sprintf("statement %d (%q) reported at byte %d = line %d, it is on line %d", i, s.Text, s.Pos, line, c.Want[i].Line)
			}
		}
	}
	return ""
}

// ---------- driver ----------

func optByName(n string) optSet {
	for _, s := range optSets {
		if s.Name == n {
			return s
		}
	}
	return optSets[0]
}

// evalCase runs one input under one option set.
func evalCase(c Case) (problem, key string) {
	set := optByName(c.Opt)
	st, err, p := scan(set.O, c.Input)
	if p != nil {
		return fmt.Sprintf("scanner panicked: %v", p), ""
	}
	if err != nil {
		if c.Want != nil {
			return fmt.Sprintf("well-formed script rejected: %v", err), classify(c.Input, "text dropped")
		}
		return "", ""
	}
	if !set.Judged {
		return "", ""
	}
	if pr := judge(set.O, c.Input, st); pr != "" {
		return pr, classify(c.Input, pr)
	}
	if c.Want != nil {
		if pr := judgeScript(set.O, c, st); pr != "" {
			return pr, classify(c.Input, "not at its reported position")
		}
		// the option sets above are this check's copy of what the drivers configure: the driver's own
		// entry point must split the script the same way (or the copy no longer describes the driver).
		if ds, derr, ok := driverScan(set.Name, c.Input); ok {
			if derr != nil {
				return fmt.Sprintf("the %s driver's ScanStmts rejects the well-formed script: %v", set.Name, derr), ""
			}
			if pr := judgeScript(set.O, c, ds); pr != "" {
				return fmt.Sprintf("through the %s driver's ScanStmts: %s", set.Name, pr), ""
			}
		}
	}
	return "", ""
}

// driverScan scans the input through the dialect driver's own ScanStmts (ok=false: no such driver).
func driverScan(name, in string) (st []*migrate.Stmt, err error, ok bool) {
	defer func() {
		if p := recover(); p != nil {
			err = fmt.Errorf("panic: %v", p)
		}
	}()
	switch name {
	case "mysql":
		st, err = (*mysql.Driver)(nil).ScanStmts(in)
	case "postgres":
		st, err = (*postgres.Driver)(nil).ScanStmts(in)
	case "sqlite":
		st, err = (*sqlite.Driver)(nil).ScanStmts(in)
	default:
		return nil, nil, false
	}
	return st, err, true
}

func Run(r *report.Run) {
	L, maxStmts, full := 4, 2, false
	if r.Tier == "thorough" {
		L, maxStmts, full = 5, 3, true
	}
	r.Rule = fmt.Sprintf("(a) every string of <=%d tokens over a %d-token alphabet (quotes, parens, comment markers, backslash, dollar tags, E', multi-byte rune, non-ASCII white space (NBSP), BEGIN/ATOMIC/END, DELIMITER, //, GO, the atlas:delimiter header) x the 4 scanner option sets the drivers use (positions, overlap and gap oracle) plus a T-SQL-like set (totality only); (b) every script of <=%d statements from %d statement shapes (per option set) x 6 leads (incl. a UTF-8 byte order mark) x %d separators x 6 tails (incl. a line comment ended by the end of the input) x 7 delimiter modes (default, header directive //, DELIMITER //, blank-line delimiter, two multi-byte delimiters via DELIMITER, ;;) with the intended split and line numbers known to the generator, scanned with the option set and through the dialect driver's own ScanStmts; non-trivial = input that scans to >=1 statement or an error; inputs are distinct by construction", L, len(alphabet), maxStmts, len(shapes), len(seps))
	r.Assumptions = []string{
		"an error return is always acceptable for arbitrary token strings (the property allows 'an error or a list'); for generated well-formed scripts an error is a violation",
		"a gap may contain white space, complete comments of the enabled kinds, the active delimiter and DELIMITER/GO command lines; an unterminated comment in a gap counts as text dropped",
		"GoCommand / MatchBeginTryCatch / BeginEndTerminator are used by no community driver: checked for totality only",
	}
	// watchdog for non-termination
	type slot struct {
		in    atomic.Pointer[string]
		since atomic.Int64
	}
	W := enum.Workers()
	slots := make([]slot, W)
	stop := make(chan struct{})
	go func() {
		for {
			select {
			case <-stop:
				return
			case <-time.After(time.Second):
			}
			for i := range slots {
				if p := slots[i].in.Load(); p != nil && time.Now().UnixNano()-slots[i].since.Load() > int64(20*time.Second) {
					fmt.Printf("VIOLATION property=C08 replay=/verif/replays/C08/hang.json\n  scanner did not terminate within 20s on %q\n", *p)
					os.MkdirAll(report.Root+"/replays/C08", 0o755)
					b, _ := json.Marshal(map[string]any{"case": Case{Input: *p}, "msg": "non-termination"})
					os.WriteFile(report.Root+"/replays/C08/hang.json", b, 0o644)
					os.Exit(1)
				}
			}
		}
	}()
	defer close(stop)
	var nontrivial, errs, panics, total atomic.Int64
	var mu sync.Mutex
	byOpt := map[string]int64{}
	// (a) token strings: shard on the first two tokens.
	n := len(alphabet)
	type shard struct{ a, b int }
	var shards []shard
	shards = append(shards, shard{-1, -1}) // lengths 0 and 1
	for a := 0; a < n; a++ {
		for b := 0; b < n; b++ {
			shards = append(shards, shard{a, b})
		}
	}
	enum.Parallel(len(shards), func(si, w int) {
		if r.Expired() {
			return
		}
		sh := shards[si]
		var inputs []string
		if sh.a < 0 {
			inputs = append(inputs, "")
			inputs = append(inputs, alphabet...)
		} else {
			prefix := alphabet[sh.a] + alphabet[sh.b]
			inputs = append(inputs, prefix)
			for l := 1; l <= L-2; l++ {
				dims := make([]int, l)
				for i := range dims {
					dims[i] = n
				}
				enum.Product(dims, func(t []int) {
					s := prefix
					for _, k := range t {
						s += alphabet[k]
					}
					inputs = append(inputs, s)
				})
			}
		}
		local := map[string]int64{}
		for _, in := range inputs {
			for _, set := range optSets {
				in := in
				slots[w].since.Store(time.Now().UnixNano())
				slots[w].in.Store(&in)
				st, err, p := scan(set.O, in)
				slots[w].in.Store(nil)
				total.Add(1)
				local[set.Name]++
				if len(st) > 0 || err != nil {
					nontrivial.Add(1)
				}
				c := Case{Input: in, Opt: set.Name}
				switch {
				case p != nil:
					panics.Add(1)
					r.Violate("", fmt.Sprintf("[%s] %q: scanner panicked: %v", set.Name, in, p), c)
				case err != nil:
					errs.Add(1)
				case set.Judged:
					if pr := judge(set.O, in, st); pr != "" {
						r.Count("kind:"+kindOf(pr), 1)
						r.Violate(classify(in, pr), fmt.Sprintf("[%s] %q: %s", set.Name, in, pr), c)
					}
				}
			}
		}
		mu.Lock()
		for k, v := range local {
			byOpt[k] += v
		}
		mu.Unlock()
	})
	tokenInputs := total.Load()
	// (b) scripts
	var scriptCases []Case
	for _, set := range optSets[:4] {
		scripts(set, maxStmts, full, func(c Case) { scriptCases = append(scriptCases, c) })
	}
	enum.Parallel(len(scriptCases), func(i, w int) {
		c := scriptCases[i]
		slots[w].since.Store(time.Now().UnixNano())
		slots[w].in.Store(&c.Input)
		pr, key := evalCase(c)
		slots[w].in.Store(nil)
		total.Add(1)
		nontrivial.Add(1)
		if pr != "" {
			r.Violate(key, fmt.Sprintf("[%s] script %q: %s", c.Opt, c.Input, pr), c)
		}
	})
	r.AddEvals(total.Load())
	// counted as distinct by construction
	for i := int64(0); i < nontrivial.Load(); i++ {
		r.CaseDistinct(true)
	}
	r.AddEvals(-nontrivial.Load())
	r.Set("token_string_scans", tokenInputs)
	r.Set("token_max_len", L)
	r.Set("script_cases", len(scriptCases))
	r.Set("scans_returning_error", errs.Load())
	r.Set("scans_by_option_set", byOpt)
	if len(scriptCases) > 1000 {
		r.Sample(scriptCases[len(scriptCases)/2])
		r.Sample(scriptCases[len(scriptCases)-7])
	}
	r.Sample(Case{Input: alphabet[22] + alphabet[23] + alphabet[2] + alphabet[0] + alphabet[23], Opt: "mysql"})
}

func Replay(r *report.Run, raw json.RawMessage) {
	var v struct{ Case Case }
	if err := json.Unmarshal(raw, &v); err != nil {
		r.Violate("", "bad replay file: "+err.Error(), nil)
		return
	}
	r.Case("a", true)
	r.Case("b", true)
	set := optByName(v.Case.Opt)
	st, err, p := scan(set.O, v.Case.Input)
	fmt.Printf("  input %q opts %s\n  err=%v panic=%v\n", v.Case.Input, set.Name, err, p)
	for _, s := range st {
		fmt.Printf("  stmt Pos=%d Text=%q\n", s.Pos, s.Text)
	}
	if pr, key := evalCase(v.Case); pr != "" {
		r.Violate(key, pr, v.Case)
	}
}
