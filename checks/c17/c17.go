// Package c17: reverse statements undo the plan (SQLite engine) and down files carry exactly them.
package c17

import (
	"context"
	"encoding/json"
	"fmt"
	"github.com/DATA-DOG/go-sqlmock"
	"os"
	"reflect"
	"regexp"
	"sort"
	"strings"
	"sync"

	"ariga.io/atlas/sql/migrate"
	"ariga.io/atlas/sql/mysql"
	"ariga.io/atlas/sql/postgres"
	"ariga.io/atlas/sql/schema"
	"ariga.io/atlas/sql/sqlite"
	"ariga.io/atlas/sql/sqltool"

	"verif/engine/enum"
	"verif/engine/report"
	"verif/sqliteh"
	"verif/universe/dfu"
	"verif/universe/squ"
)

type Case struct {
	A      []string `json:"a"`
	B      []string `json:"b"`
	Indent string   `json:"indent"`
	// Inspected: the desired state is inspected from a live database created with B's DDL (what
	// `--to sqlite://...` does) instead of evaluated from B's HCL; auto indexes then carry engine names.
	Inspected bool `json:"inspected,omitempty"`
}

func stateOf(names []string) squ.State {
	var s squ.State
	for _, n := range names {
		for i, f := range squ.Features {
			if f.Name == n {
				s = append(s, i)
			}
		}
	}
	return s
}

type Result struct {
	Problems   []string
	Skipped    string
	Reversible bool
	NonEmpty   bool
	Up, Down   []string
}

// DownStmts extracts the statements of the down part written by a formatter.
func DownStmts(format string, files []migrate.File, scan func(string) ([]string, error)) ([]string, error) {
	var text string
	switch format {
	case "golang-migrate":
		for _, f := range files {
			if strings.HasSuffix(f.Name(), ".down.sql") {
				text = string(f.Bytes())
			}
		}
	case "flyway":
		for _, f := range files {
			if strings.HasPrefix(f.Name(), "U") {
				text = string(f.Bytes())
			}
		}
	case "goose":
		b := string(files[0].Bytes())
		i := strings.Index(b, "-- +goose Down\n")
		if i < 0 {
			return nil, fmt.Errorf("no goose Down section")
		}
		text = b[i+len("-- +goose Down\n"):]
	case "dbmate":
		b := string(files[0].Bytes())
		i := strings.Index(b, "-- migrate:down\n")
		if i < 0 {
			return nil, fmt.Errorf("no migrate:down section")
		}
		text = b[i+len("-- migrate:down\n"):]
	case "liquibase":
		// rollback lines: a statement ends at a line ending in ';', other lines continue it.
		var out []string
		cur, open := "", false
		for _, l := range strings.Split(string(files[0].Bytes()), "\n") {
			if !strings.HasPrefix(l, "--rollback: ") {
				if open {
					return nil, fmt.Errorf("rollback statement %q is cut off by the line %q which is not a rollback line", cur, l)
				}
				continue
			}
			l = strings.TrimPrefix(l, "--rollback: ")
			if open {
				cur += "\n" + l
			} else {
				cur, open = l, true
			}
			if strings.HasSuffix(cur, ";") {
				out = append(out, strings.TrimSuffix(cur, ";"))
				cur, open = "", false
			}
		}
		if open {
			return nil, fmt.Errorf("unterminated rollback statement %q", cur)
		}
		return out, nil
	}
	st, err := scan(text)
	if err != nil {
		return nil, err
	}
	for i := range st {
		st[i] = strings.TrimSuffix(st[i], ";")
	}
	return st, nil
}

var Formats = []struct {
	Name string
	F    migrate.Formatter
}{
	{"golang-migrate", sqltool.GolangMigrateFormatter},
	{"goose", sqltool.GooseFormatter},
	{"flyway", sqltool.FlywayFormatter},
	{"liquibase", sqltool.LiquibaseFormatter},
	{"dbmate", sqltool.DBMateFormatter},
}

// CheckPlanFlags checks the parts of the property that need no engine: Reversible <=> every change
// has a reverse, and every formatter's down part equals the reverses in reverse order.
func CheckPlanFlags(plan *migrate.Plan, scan func(string) ([]string, error), bad func(string, ...any)) (down []string) {
	all := true
	for i := len(plan.Changes) - 1; i >= 0; i-- {
		rs, err := plan.Changes[i].ReverseStmts()
		if err != nil {
			bad("change %d: %v", i, err)
		}
		// session settings wrapped around a plan (PRAGMA foreign_keys = off/on) change nothing
		// in the schema and need no reverse.
		if len(rs) == 0 && !strings.HasPrefix(plan.Changes[i].Cmd, "PRAGMA ") {
			all = false
		}
		down = append(down, rs...)
	}
	if plan.Reversible != all {
		bad("plan.Reversible=%v but 'every schema-changing statement has a reverse'=%v", plan.Reversible, all)
	}
	for _, f := range Formats {
		files, err := f.F.Format(plan)
		if err != nil {
			bad("%s: format: %v", f.Name, err)
			continue
		}
		got, err := DownStmts(f.Name, files, scan)
		if err != nil {
			bad("%s: reading the down part: %v", f.Name, err)
			continue
		}
		want := down
		if f.Name == "liquibase" {
			// liquibase attaches the rollback to each changeset (and runs changesets backwards itself):
			// the file lists the reverse statements change by change in forward order.
			want = nil
			for _, ch := range plan.Changes {
				rs, _ := ch.ReverseStmts()
				want = append(want, rs...)
			}
		}
		if !reflect.DeepEqual(got, want) && !(len(got) == 0 && len(want) == 0) {
			bad("%s: down part holds %q, expected %q", f.Name, got, want)
		}
	}
	return down
}

var reRebuild = regexp.MustCompile("`new_")

func Eval(ctx context.Context, c Case) (res Result) {
	bad := func(f string, a ...any) { res.Problems = append(res.Problems, fmt.Sprintf(f, a...)) }
	A, B := stateOf(c.A).Build(), stateOf(c.B).Build()
	e, err := sqliteh.Open(ctx)
	if err != nil {
		bad("harness: %v", err)
		return
	}
	defer e.Close()
	if err := e.Exec(ctx, A.DDL(0)...); err != nil {
		res.Skipped = "engine rejects A"
		return
	}
	ref, err := sqliteh.Open(ctx)
	if err != nil {
		bad("harness: %v", err)
		return
	}
	if err := ref.Exec(ctx, B.DDL(0)...); err != nil {
		ref.Close()
		res.Skipped = "engine rejects B"
		return
	}
	defer ref.Close()
	defer func() {
		if p := recover(); p != nil {
			bad("panic: %v", p)
		}
	}()
	o := sqliteh.DumpOptions{UniqueOriginInsensitive: true}
	before, err := sqliteh.Dump(ctx, e.Own, o)
	if err != nil {
		bad("harness: %v", err)
		return
	}
	cur, err := e.Atlas.InspectRealm(ctx, nil)
	if err != nil {
		bad("inspect: %v", err)
		return
	}
	desired := &schema.Realm{}
	if c.Inspected {
		if desired, err = ref.Atlas.InspectRealm(ctx, nil); err != nil {
			bad("inspect desired: %v", err)
			return
		}
	} else if err := sqlite.EvalHCLBytes([]byte(B.HCL()), desired, nil); err != nil {
		bad("harness: HCL: %v", err)
		return
	}
	changes, err := e.Atlas.RealmDiff(cur, desired, schema.DiffNormalized())
	if err != nil {
		bad("diff: %v", err)
		return
	}
	if len(changes) == 0 {
		return
	}
	res.NonEmpty = true
	plan, err := e.Atlas.PlanChanges(ctx, "p", changes, func(o *migrate.PlanOptions) { o.Indent = c.Indent })
	if err != nil {
		bad("plan: %v", err)
		return
	}
	plan.Version = "1"
	scan := func(s string) ([]string, error) {
		st, err := e.Atlas.Driver.(migrate.StmtScanner).ScanStmts(s)
		if err != nil {
			return nil, err
		}
		out := make([]string, len(st))
		for i := range st {
			out[i] = st[i].Text
		}
		return out, nil
	}
	res.Reversible = plan.Reversible
	for _, ch := range plan.Changes {
		res.Up = append(res.Up, ch.Cmd)
	}
	res.Down = CheckPlanFlags(plan, scan, bad)
	// a plan that rebuilds a table or drops a column loses information and can never be reversible.
	for _, ch := range plan.Changes {
		if reRebuild.MatchString(ch.Cmd) && plan.Reversible {
			bad("plan rebuilds a table (%s) yet is reported reversible", ch.Cmd)
			break
		}
	}
	if !plan.Reversible {
		return
	}
	if err := e.Exec(ctx, res.Up...); err != nil {
		res.Skipped = "up failed: " + err.Error() // C01's business
		return
	}
	if err := e.Exec(ctx, res.Down...); err != nil {
		bad("reverse statements fail on the engine: %v", err)
		return
	}
	after, err := sqliteh.Dump(ctx, e.Own, o)
	if err != nil {
		bad("harness: %v", err)
		return
	}
	if after.String() != before.String() {
		bad("up then down does not restore the schema:\n%s", lineDiff(before.Lines, after.Lines))
	}
	// and atlas sees no difference from the starting schema either way.
	a0, err := sqliteh.Open(ctx)
	if err != nil {
		bad("harness: %v", err)
		return
	}
	defer a0.Close()
	a0.Exec(ctx, A.DDL(0)...)
	for dir, pair := range [][2]*sqliteh.Engine{{e, a0}, {a0, e}} {
		x, err1 := pair[0].Atlas.InspectRealm(ctx, nil)
		y, err2 := pair[1].Atlas.InspectRealm(ctx, nil)
		if err1 != nil || err2 != nil {
			bad("inspect: %v %v", err1, err2)
			break
		}
		cs, err := e.Atlas.RealmDiff(x, y, schema.DiffNormalized())
		if err != nil {
			bad("diff after down: %v", err)
		} else if len(cs) > 0 {
			bad("after up+down atlas still reports %d changes against the starting schema (direction %d)", len(cs), dir)
		}
	}
	return
}

func lineDiff(want, got []string) string {
	w, g := map[string]bool{}, map[string]bool{}
	for _, l := range want {
		w[l] = true
	}
	for _, l := range got {
		g[l] = true
	}
	var b strings.Builder
	for _, l := range want {
		if !g[l] {
			b.WriteString("    before: " + l + "\n")
		}
	}
	for _, l := range got {
		if !w[l] {
			b.WriteString("    after:  " + l + "\n")
		}
	}
	return b.String()
}

func pairs(tier string) []Case {
	var cs []Case
	u1 := squ.Universe(1)
	for _, a := range u1 {
		for _, b := range u1 {
			for _, ind := range []string{"", "  "} {
				cs = append(cs, Case{a.Names(), b.Names(), ind, false})
			}
			cs = append(cs, Case{a.Names(), b.Names(), "", true})
		}
	}
	u2 := squ.Universe(2)
	if tier == "thorough" {
		for _, a := range u2 {
			for _, b := range u2 {
				if len(a) <= 1 && len(b) <= 1 {
					continue
				}
				ind := ""
				if (len(a)+len(b))%2 == 1 {
					ind = "  "
				}
				cs = append(cs, Case{a.Names(), b.Names(), ind, (len(a)+len(b))%3 == 0})
			}
		}
		return cs
	}
	for _, s := range u2 {
		if len(s) != 2 {
			continue
		}
		for i := 0; i < 2; i++ {
			sub := squ.State{s[i]}
			cs = append(cs, Case{s.Names(), sub.Names(), "", false}, Case{sub.Names(), s.Names(), "  ", true})
		}
		// and against the bare skeleton: both features go (come) in one plan.
		cs = append(cs, Case{s.Names(), nil, "", false}, Case{nil, s.Names(), "", false})
	}
	return cs
}

// ---------- planner level: MySQL / PostgreSQL (no engine) ----------

type PCase struct {
	Dialect string   `json:"dialect"`
	Kind    string   `json:"kind"`
	Edits   []string `json:"edits,omitempty"`
	Indent  string   `json:"indent"`
}

func evalPlanner(c PCase) (problems []string, n int) {
	bad := func(f string, a ...any) { problems = append(problems, fmt.Sprintf(f, a...)) }
	defer func() {
		if p := recover(); p != nil {
			bad("panic: %v", p)
		}
	}()
	d, pl := dfu.MySQL, mysql.DefaultPlan
	scan := func(in string) ([]string, error) { return texts((*mysql.Driver)(nil).ScanStmts(in)) }
	if c.Dialect == "tidb" {
		// the MySQL driver opened on a connection that reports a TiDB version plans through the TiDB
		// planner (one sub-plan per atomic change, merged afterwards); planning issues no queries.
		db, m, err := sqlmock.New()
		if err != nil {
			return []string{"harness: " + err.Error()}, 0
		}
		defer db.Close()
		m.ExpectQuery("SELECT @@version").WillReturnRows(sqlmock.NewRows([]string{"@@version", "@@collation_server", "@@character_set_server", "@@lower_case_table_names"}).
			AddRow("5.7.25-TiDB-v6.1.0", "utf8mb4_bin", "utf8mb4", 2))
		drv, err := mysql.Open(db)
		if err != nil {
			return []string{"harness: opening the TiDB driver: " + err.Error()}, 0
		}
		pl = drv
	}
	if c.Dialect == "postgres" {
		d, pl = dfu.Postgres, postgres.DefaultPlan
		scan = func(in string) ([]string, error) { return texts((*postgres.Driver)(nil).ScanStmts(in)) }
	}
	from, to := dfu.Base(d), dfu.Base(d)
	empty := schema.New(d.Schema)
	schema.NewRealm(empty)
	switch c.Kind {
	case "create_all":
		from = empty
	case "drop_all":
		to = empty
		// the state the tables are dropped from was inspected from a named schema (the dev database);
		// the plan is scoped (empty qualifier), so that name may appear nowhere.
		from.Name, empty.Name = "dev_db", "dev_db"
	default:
		for _, n := range c.Edits {
			for _, e := range dfu.Edits(d) {
				if e.Name == n {
					e.Apply(to)
				}
			}
		}
	}
	changes, err := d.Diff.SchemaDiff(from, to, schema.DiffNormalized())
	if c.Kind == "drop_cycle_selfref" {
		// two tables that reference each other are dropped, one of them references itself too.
		intT := func() *schema.Column { return &schema.Column{Name: "x", Type: &schema.ColumnType{Type: d.Int()}} }
		_ = intT
		users := schema.NewTable("users")
		works := schema.NewTable("workplaces")
		uid := &schema.Column{Name: "id", Type: &schema.ColumnType{Type: d.Int()}}
		uw := &schema.Column{Name: "workplace_id", Type: &schema.ColumnType{Type: d.Int(), Null: true}}
		us := &schema.Column{Name: "spouse_id", Type: &schema.ColumnType{Type: d.Int(), Null: true}}
		wid := &schema.Column{Name: "id", Type: &schema.ColumnType{Type: d.Int()}}
		wo := &schema.Column{Name: "owner_id", Type: &schema.ColumnType{Type: d.Int(), Null: true}}
		users.AddColumns(uid, uw, us).SetPrimaryKey(schema.NewPrimaryKey(uid))
		works.AddColumns(wid, wo).SetPrimaryKey(schema.NewPrimaryKey(wid))
		users.AddForeignKeys(
			schema.NewForeignKey("workplace").AddColumns(uw).SetRefTable(works).AddRefColumns(wid),
			schema.NewForeignKey("spouse").AddColumns(us).SetRefTable(users).AddRefColumns(uid),
		)
		works.AddForeignKeys(schema.NewForeignKey("owner").AddColumns(wo).SetRefTable(users).AddRefColumns(uid))
		sc := schema.New(d.Schema).AddTables(users, works)
		schema.NewRealm(sc)
		changes, err = []schema.Change{&schema.DropTable{T: users}, &schema.DropTable{T: works}}, nil
	}
	if c.Kind == "unnamed" {
		// constraints added without a name (the database generates one): the change list is written
		// by hand, as a program using the planner directly would.
		t := dfu.T(from, "t")
		var sub []schema.Change
		for _, n := range c.Edits {
			switch n {
			case "index":
				sub = append(sub, &schema.AddIndex{I: schema.NewIndex("").AddColumns(dfu.C(t, "z0"))})
			case "unique":
				sub = append(sub, &schema.AddIndex{I: schema.NewUniqueIndex("").AddColumns(dfu.C(t, "z0"))})
			case "fk":
				pt := dfu.T(from, "p")
				sub = append(sub, &schema.AddForeignKey{F: schema.NewForeignKey("").SetTable(t).AddColumns(dfu.C(t, "z0")).SetRefTable(pt).AddRefColumns(pt.Columns[0])})
			case "check":
				sub = append(sub, &schema.AddCheck{C: schema.NewCheck().SetExpr("z0 > 0")})
			case "column": // a named change next to it: its reverse must survive or the plan be irreversible
				sub = append(sub, &schema.AddColumn{C: schema.NewIntColumn("zz", "int")})
			}
		}
		changes, err = []schema.Change{&schema.ModifyTable{T: t, Changes: sub}}, nil
	}
	if c.Kind == "pg_constraint_using" {
		// PostgreSQL: a constraint made from an existing unique index (ALTER TABLE ... ADD [CONSTRAINT n]
		// PRIMARY KEY | UNIQUE USING INDEX i). The server renames the index to the constraint's name, so the
		// constraint is called n if a name is given and i otherwise: that is the name the reverse must drop.
		// Edits: [pk|unique, constraint name, index name].
		t := dfu.T(from, "t")
		idx := schema.NewUniqueIndex(c.Edits[2]).AddColumns(dfu.C(t, "z0"))
		idx.Table = t
		var ch schema.Change = &postgres.AddPKConstraint{Name: c.Edits[1], Using: idx}
		if c.Edits[0] == "unique" {
			ch = &postgres.AddUniqueConstraint{Name: c.Edits[1], Using: idx}
		}
		changes, err = []schema.Change{&schema.ModifyTable{T: t, Changes: []schema.Change{ch}}}, nil
	}
	if err != nil || len(changes) == 0 {
		return nil, 0
	}
	plan, err := pl.PlanChanges(context.Background(), "p", changes, func(o *migrate.PlanOptions) {
		o.Indent = c.Indent
		o.SchemaQualifier = new(string)
	})
	if err != nil {
		return nil, 0
	}
	plan.Version = "1"
	CheckPlanFlags(plan, scan, bad)
	// the reverse of DROP TABLE x is the CREATE TABLE x the same planner writes, under the same
	// options, for the inverse change (both sides are plans of the real planner).
	if c.Kind == "drop_all" {
		inv, err := d.Diff.SchemaDiff(to, from, schema.DiffNormalized())
		if err != nil {
			bad("diff of the inverse change fails: %v", err)
		} else {
			var adds []schema.Change // (schema attributes are no part of a scoped plan.)
			for _, ch := range inv {
				if _, ok := ch.(*schema.AddTable); ok {
					adds = append(adds, ch)
				}
			}
			ip, err := pl.PlanChanges(context.Background(), "p", adds, func(o *migrate.PlanOptions) {
				o.Indent = c.Indent
				o.SchemaQualifier = new(string)
			})
			if err != nil {
				bad("planning the inverse change fails: %v", err)
			} else {
				creates := map[string]bool{}
				for _, ch := range ip.Changes {
					if strings.HasPrefix(ch.Cmd, "CREATE TABLE") {
						creates[ch.Cmd] = true
					}
				}
				for _, ch := range plan.Changes {
					if !strings.HasPrefix(ch.Cmd, "DROP TABLE") {
						continue
					}
					rs, _ := ch.ReverseStmts()
					for _, r := range rs {
						if strings.Contains(r, "dev_db") {
							bad("the plan is scoped to one schema, yet the reverse of %q names the schema the state was inspected from: %q", ch.Cmd, r)
						}
						if strings.HasPrefix(r, "CREATE TABLE") && !creates[r] {
							bad("the reverse of %q is not a statement the planner writes for the inverse change under the same options: %q", ch.Cmd, r)
						}
					}
				}
			}
		}
	}
	// the reverse of a reversible plan does what the same planner writes, under the same options, for
	// the inverse change: both are broken into (table, clause) units and compared as multisets.
	if c.Kind == "edits" && plan.Reversible && os.Getenv("VERIF_C17_INVERSE") != "off" {
		if inv, err := d.Diff.SchemaDiff(to, from, schema.DiffNormalized()); err == nil && len(inv) > 0 {
			if ip, err := pl.PlanChanges(context.Background(), "p", inv, func(o *migrate.PlanOptions) {
				o.Indent = c.Indent
				o.SchemaQualifier = new(string)
			}); err == nil {
				var rev, fwd []string
				for _, ch := range plan.Changes {
					rs, _ := ch.ReverseStmts()
					for _, r := range rs {
						rev = append(rev, clauseUnits(r)...)
					}
				}
				for _, ch := range ip.Changes {
					fwd = append(fwd, clauseUnits(ch.Cmd)...)
				}
				// MySQL drops and re-creates the index it keeps for a foreign key whenever the key is
				// re-created: both plans do so, each in its own direction; those units are not compared.
				rev, fwd = dropFKIndexUnits(rev), dropFKIndexUnits(fwd)
				sort.Strings(rev)
				sort.Strings(fwd)
				// everything the inverse plan does has to be in the reverse (the reverse may do more, e.g.
				// set an unchanged comment again).
				if missing := minus(fwd, rev); len(missing) > 0 {
					bad("the reverse statements do not do what the planner writes for the inverse change: missing from the reverse %q", missing)
				}
			}
		}
	}
	// every foreign key of the dropped tables comes back with the reverse statements.
	if c.Kind == "drop_cycle_selfref" && plan.Reversible {
		var all []string
		for _, ch := range plan.Changes {
			rs, _ := ch.ReverseStmts()
			all = append(all, rs...)
		}
		text := strings.Join(all, ";\n")
		for _, fk := range []string{"workplace", "spouse", "owner"} {
			if !strings.Contains(text, "CONSTRAINT `"+fk+"`") && !strings.Contains(text, "CONSTRAINT \""+fk+"\"") {
				bad("the plan is reported reversible, yet no reverse statement restores foreign key %s:\n%s", fk, text)
			}
			if n := strings.Count(text, "CONSTRAINT `"+fk+"`") + strings.Count(text, "CONSTRAINT \""+fk+"\""); n > 1 {
				bad("the reverse statements restore foreign key %s %d times (the second one fails: the constraint exists):\n%s", fk, n, text)
			}
		}
	}
	if c.Kind == "pg_constraint_using" {
		for _, ch := range plan.Changes {
			m := reUsingIndex.FindStringSubmatch(ch.Cmd)
			if m == nil {
				bad("no ADD ... USING INDEX clause in %q", ch.Cmd)
				continue
			}
			name := m[2]
			if name == "" {
				name = m[4]
			}
			if name != c.Edits[1] && !(c.Edits[1] == "" && name == c.Edits[2]) {
				bad("the constraint asked for is %q over index %q, the statement says %q", c.Edits[1], c.Edits[2], ch.Cmd)
			}
			rs, _ := ch.ReverseStmts()
			if !plan.Reversible || len(rs) == 0 {
				continue
			}
			if want := "DROP CONSTRAINT \"" + name + "\""; !strings.Contains(strings.Join(rs, ";"), want) {
				bad("after %q the constraint is called %q (the server renames the index to the constraint's name), the reverse is %q", ch.Cmd, name, rs)
			}
		}
	}
	// a reverse statement names what it drops (a constraint the database named cannot be undone by text).
	for _, ch := range plan.Changes {
		rs, _ := ch.ReverseStmts()
		for _, r := range rs {
			if reDropNothing.MatchString(r) {
				bad("reverse statement drops a constraint without naming it: %q (forward: %s)", r, ch.Cmd)
			}
		}
	}
	// a reverse undoes the whole statement: an ALTER TABLE of k clauses is reversed by k clauses.
	for _, ch := range plan.Changes {
		k := alterClauses(ch.Cmd)
		if k == 0 {
			continue
		}
		rs, _ := ch.ReverseStmts()
		if len(rs) == 0 {
			continue
		}
		rk := 0
		for _, r := range rs {
			if reBareAlter.MatchString(r) {
				bad("reverse statement alters nothing: %q (forward: %s)", r, ch.Cmd)
			}
			if reNoParts.MatchString(r) {
				bad("reverse statement declares an index without columns: %q (forward: %s)", r, ch.Cmd)
			}
			if n := alterClauses(r); n > 0 {
				rk += n
			} else {
				rk++ // a separate statement (DROP INDEX, DROP SEQUENCE, ...) undoes one clause
			}
		}
		if rk < k {
			bad("statement with %d clauses is reversed by %d clause(s) only: %s  <=  %q", k, rk, ch.Cmd, rs)
		}
	}
	return problems, len(plan.Changes)
}

var reUsingIndex = regexp.MustCompile(`ADD (CONSTRAINT "([^"]+)" )?(PRIMARY KEY|UNIQUE) USING INDEX "([^"]+)"`)

var reDropNothing = regexp.MustCompile("(?i)\\bDROP\\s+(INDEX|KEY|FOREIGN\\s+KEY|CONSTRAINT|CHECK)\\s*(,|;|$|``|\"\")")

var reNoParts = regexp.MustCompile("(?i)\\b(INDEX|KEY)\\s+(`[^`]+`|\"[^\"]+\")\\s*\\(\\s*\\)")

var reBareAlter = regexp.MustCompile("(?is)^\\s*ALTER\\s+TABLE\\s+(`[^`]+`|\"[^\"]+\"|\\S+)(\\.(`[^`]+`|\"[^\"]+\"))?\\s*;?\\s*$")

var reAlter = regexp.MustCompile("(?is)^\\s*ALTER\\s+TABLE\\s+(`[^`]+`|\"[^\"]+\"|\\S+)(\\.(`[^`]+`|\"[^\"]+\"))?\\s+(.*)$")

// alterClauses counts the top-level comma-separated clauses of an ALTER TABLE statement (0: not one).
var reFKIndexUnit = regexp.MustCompile("\\| (ADD|DROP) INDEX `fk_\\w+`")

func dropFKIndexUnits(us []string) []string {
	var out []string
	for _, u := range us {
		if !reFKIndexUnit.MatchString(u) {
			out = append(out, u)
		}
	}
	return out
}

// minus returns the elements of a (a multiset) that b does not hold.
func minus(a, b []string) []string {
	n := map[string]int{}
	for _, x := range b {
		n[x]++
	}
	var out []string
	for _, x := range a {
		if n[x] > 0 {
			n[x]--
			continue
		}
		out = append(out, x)
	}
	return out
}

// classifyPlanner names the known finding a failing planner-level case belongs to ("" = none).
func classifyPlanner(c PCase, problems []string) string {
	if c.Kind == "drop_cycle_selfref" {
		for _, p := range problems {
			if !strings.Contains(p, "no reverse statement restores foreign key spouse") {
				return ""
			}
		}
		return "self-referencing-foreign-key-of-a-table-dropped-in-a-cycle-is-not-restored"
	}
	// MySQL drops an index implicitly with the column it covers and the planner leaves the DROP INDEX
	// out; the reverse then re-adds the column but not the index.
	if c.Dialect == "postgres" || len(problems) == 0 {
		return ""
	}
	for _, p := range problems {
		if p != "the reverse statements do not do what the planner writes for the inverse change: missing from the reverse [\"ALTER TABLE `t` | ADD INDEX `c` (`c`)\"]" {
			return ""
		}
	}
	for _, e := range c.Edits {
		if e == "drop_indexed_column_and_add_index" {
			return "mysql-index-dropped-implicitly-with-its-column-is-not-restored-by-the-reverse"
		}
	}
	return ""
}

// clauseUnits breaks a statement into comparable units: "ALTER TABLE x | clause" per top-level clause
// of an ALTER TABLE, the whole statement otherwise (white space normalised).
func clauseUnits(stmt string) []string {
	norm := func(s string) string { return strings.Join(strings.Fields(s), " ") }
	m := reAlter.FindStringSubmatch(stmt)
	if m == nil {
		return []string{norm(stmt)}
	}
	head := norm(strings.TrimSuffix(strings.TrimSpace(stmt), m[4]))
	body, depth, start := m[4], 0, 0
	var quote byte
	var out []string
	for i := 0; i < len(body); i++ {
		ch := body[i]
		switch {
		case quote != 0:
			if ch == quote {
				quote = 0
			}
		case ch == '\'' || ch == '"' || ch == '`':
			quote = ch
		case ch == '(':
			depth++
		case ch == ')':
			depth--
		case ch == ',' && depth == 0:
			out = append(out, head+" | "+norm(body[start:i]))
			start = i + 1
		}
	}
	return append(out, head+" | "+norm(body[start:]))
}

func alterClauses(stmt string) int {
	m := reAlter.FindStringSubmatch(stmt)
	if m == nil {
		return 0
	}
	body, depth, n := m[4], 0, 1
	var quote byte
	for i := 0; i < len(body); i++ {
		c := body[i]
		switch {
		case quote != 0:
			if c == quote {
				quote = 0
			}
		case c == '\'' || c == '"' || c == '`':
			quote = c
		case c == '(':
			depth++
		case c == ')':
			depth--
		case c == ',' && depth == 0:
			n++
		}
	}
	return n
}

func texts(st []*migrate.Stmt, err error) ([]string, error) {
	if err != nil {
		return nil, err
	}
	out := make([]string, len(st))
	for i := range st {
		out[i] = st[i].Text
	}
	return out, nil
}

func plannerCases(tier string) []PCase {
	var cs []PCase
	for _, dn := range []string{"mysql", "postgres", "tidb"} {
		d := dfu.MySQL
		if dn == "postgres" {
			d = dfu.Postgres
		}
		for _, ind := range []string{"", "  "} {
			cs = append(cs, PCase{dn, "create_all", nil, ind}, PCase{dn, "drop_all", nil, ind})
			cs = append(cs, PCase{dn, "drop_cycle_selfref", nil, ind})
			for _, u := range [][]string{{"index"}, {"unique"}, {"fk"}, {"check"}, {"index", "fk"}, {"column", "index"}, {"fk", "column"}, {"column", "check", "unique"}} {
				cs = append(cs, PCase{dn, "unnamed", u, ind})
			}
			if dn == "postgres" {
				for _, k := range []string{"pk", "unique"} {
					for _, nm := range []string{"", "t_z0_idx", "t_z0_con"} {
						cs = append(cs, PCase{dn, "pg_constraint_using", []string{k, nm, "t_z0_idx"}, ind})
					}
				}
			}
			es := dfu.Edits(d)
			for _, e := range es {
				cs = append(cs, PCase{dn, "edits", []string{e.Name}, ind})
			}
			for i := range es {
				for j := i + 1; j < len(es); j++ {
					if dfu.Compatible(es[i], es[j]) && (tier == "thorough" || (i+j)%5 == 0) {
						cs = append(cs, PCase{dn, "edits", []string{es[i].Name, es[j].Name}, ind})
					}
				}
			}
		}
	}
	return cs
}

func Run(r *report.Run) {
	ctx := context.Background()
	pcs := plannerCases(r.Tier)
	pn := 0
	for _, c := range pcs {
		problems, n := evalPlanner(c)
		r.Case(fmt.Sprintf("planner|%v", c), n > 0)
		if n > 0 {
			pn++
		}
		if len(problems) > 0 {
			r.Violate(classifyPlanner(c, problems), fmt.Sprintf("%s %s %v indent=%q: %s", c.Dialect, c.Kind, c.Edits, c.Indent, strings.Join(problems, " | ")), map[string]any{"planner": c})
		}
	}
	r.Set("mysql_postgres_plans_checked_for_flag_and_down_files", pn)
	r.Rule = "(planner level; PostgreSQL also: a primary key / unique constraint made from an existing index, ADD [CONSTRAINT n] ... USING INDEX i, for n in {none, i, another name}: the reverse drops the constraint by the name it has after the server renamed the index) MySQL, PostgreSQL and TiDB (MySQL driver on a mocked TiDB connection) plans of the differ universe (create-all, drop-all, every single edit, a fifth of the compatible pairs; thorough: all pairs) x 2 indents: parts (a) and (b) below, an ALTER TABLE of k clauses must be reversed by at least k clauses, and the reverse of a reversible plan must hold every (table, clause) unit the same planner writes, under the same options, for the inverse change; (engine level) pairs (A,B) of the SQLite universe as in C01 x indent {none, two spaces} x desired state {evaluated from HCL, inspected from a live database built with B's DDL}: plan from the real differ/planner; (a) Reversible <=> every change has a reverse statement, a plan that rebuilds a table is never reversible; (b) for the 5 third-party formatters the down part (our own extraction + the dialect scanner) equals the reverse statements in reverse change order; (c) for reversible plans: up then down on the real engine restores the catalogue read by our own pragma dump, and atlas reports no difference from the starting schema in both directions; non-trivial = pair with a non-empty plan; distinct = (A,B,indent,source)"
	r.Assumptions = []string{"MySQL/PostgreSQL plans are covered for (a) and (b) by the planner-level checks; (c) needs an engine and is SQLite only"}
	cs := pairs(r.Tier)
	var mu sync.Mutex
	rev, irrev, skipped := 0, 0, 0
	err := enum.ProcMap(len(cs), func(i int) Result { return Eval(ctx, cs[i]) }, func(i int, res Result) {
		c := cs[i]
		r.Case(fmt.Sprintf("%v|%v|%q|%v", c.A, c.B, c.Indent, c.Inspected), res.NonEmpty)
		mu.Lock()
		if res.Skipped != "" {
			skipped++
		}
		if res.NonEmpty {
			if res.Reversible {
				rev++
			} else {
				irrev++
			}
		}
		mu.Unlock()
		if len(res.Problems) > 0 {
			r.Violate(classify(c, res), fmt.Sprintf("A=%v B=%v indent=%q: %s", c.A, c.B, c.Indent, strings.Join(res.Problems, " | ")), c)
		}
		if res.Reversible && len(c.A) == 0 && len(c.B) == 1 && c.B[0] == "col_c_null" {
			r.Sample(map[string]any{"case": c, "up": res.Up, "down": res.Down})
		}
	})
	if err != nil {
		r.Violate("", "harness: "+err.Error(), nil)
	}
	r.Set("reversible_plans_executed_up_and_down", rev)
	r.Set("irreversible_plans", irrev)
	r.Set("skipped", skipped)
}

func classify(c Case, res Result) string {
	return ""
}

func Replay(r *report.Run, raw json.RawMessage) {
	var pv struct {
		Case struct{ Planner *PCase }
	}
	if json.Unmarshal(raw, &pv) == nil && pv.Case.Planner != nil {
		problems, n := evalPlanner(*pv.Case.Planner)
		fmt.Printf("  planner case %+v changes=%d\n", *pv.Case.Planner, n)
		r.Case("a", true)
		r.Case("b", true)
		if len(problems) > 0 {
			r.Violate("", strings.Join(problems, " | "), pv.Case)
		}
		return
	}
	var v struct{ Case Case }
	if err := json.Unmarshal(raw, &v); err != nil {
		r.Violate("", "bad replay file: "+err.Error(), nil)
		return
	}
	res := Eval(context.Background(), v.Case)
	fmt.Printf("  A=%v B=%v reversible=%v skipped=%q\n  up: %q\n  down: %q\n", v.Case.A, v.Case.B, res.Reversible, res.Skipped, res.Up, res.Down)
	r.Case("a", true)
	r.Case("b", true)
	if len(res.Problems) > 0 {
		r.Violate(classify(v.Case, res), strings.Join(res.Problems, " | "), v.Case)
	}
}
