// Package c13: failure atomicity follows the transaction mode; dry-run changes nothing.
package c13

import (
	"encoding/json"
	"fmt"
	"os"
	"regexp"
	"sort"
	"strconv"
	"strings"

	"verif/clih"
	"verif/engine/enum"
	"verif/engine/report"
)

type fileSpec struct {
	N      int    `json:"n"`
	TxMode string `json:"txmode,omitempty"`
	Ck     bool   `json:"checkpoint,omitempty"`
}

// startOf: a first run on an empty database starts at the latest checkpoint file (or the first file).
func startOf(shape []fileSpec) int {
	st := 0
	for f, fs := range shape {
		if fs.Ck {
			st = f
		}
	}
	return st
}

type Case struct {
	Kind  string     `json:"kind"` // migrate_fail | migrate_dryrun | schema_fail | schema_dryrun
	Mode  string     `json:"tx_mode,omitempty"`
	Shape []fileSpec `json:"shape,omitempty"`
	FailF int        `json:"fail_file"`            // 0-based index of the file holding the failing statement (-1 none)
	FailK int        `json:"fail_stmt"`            // 0-based index of the failing statement
	Fail2 int        `json:"fail_stmt2,omitempty"` // a second failing statement later in the same file (0 = none): fail, repair, fail again, repair
	Count int        `json:"count"`                // apply count argument (0 = all)
	State string     `json:"state,omitempty"`      // dry-run start state: fresh | partial | full
	Scen  string     `json:"scenario,omitempty"`   // schema apply scenario
	Extra string     `json:"extra,omitempty"`      // extra flag (e.g. baseline)
	// FailKind: "" = a statement naming a missing table; "or_rollback" = a constraint violation with the
	// SQLite conflict clause OR ROLLBACK (the engine itself rolls the open transaction back).
	FailKind string `json:"fail_kind,omitempty"`
	// NoFK: the database URL carries no _fk=1 (SQLite's default: foreign keys not enforced).
	NoFK bool `json:"no_fk,omitempty"`
	// Format: "" = an Atlas directory; otherwise the same files in another tool's layout, opened with
	// ?format=<Format> (plain shapes only).
	Format string `json:"format,omitempty"`
	// Grow / Shrink: the repair changes the number of statements of the failing file: one more
	// statement at its end / its last statement removed (the failing one is not the last).
	Grow   bool `json:"grow,omitempty"`
	Shrink bool `json:"shrink,omitempty"`
}

// writeDir writes the files of a case as a directory of its format.
func writeDir(w *clih.Work, c Case, m map[string]string) error {
	if c.Format == "" {
		return w.WriteDir("migrations", m)
	}
	out := map[string]string{}
	for n, body := range m {
		v := strings.TrimSuffix(n, "_f.sql")
		switch c.Format {
		case "golang-migrate":
			out[v+"_f.up.sql"] = body
			out[v+"_f.down.sql"] = "DELETE FROM journal;\n"
		case "flyway":
			out["V"+v+"__f.sql"] = body
		}
	}
	return w.WriteDirFormat("migrations", c.Format, out)
}

func dbURL(w *clih.Work, c Case) string {
	if c.NoFK {
		return strings.TrimSuffix(w.URL("db.sqlite"), "?_fk=1")
	}
	return w.URL("db.sqlite")
}

func failingOf(c Case) string {
	if c.FailKind == "or_rollback" {
		return "INSERT OR ROLLBACK INTO journal (sid) VALUES (NULL)"
	}
	return failing
}

func sid(f, i int) int { return (f+1)*10 + i + 1 }

const failing = "INSERT INTO no_such_table VALUES (1)"

func files(c Case, repaired bool) map[string]string {
	lvl := 0
	if repaired {
		lvl = 2
	}
	return filesLvl(c, lvl)
}

// filesLvl: level 0 = nothing repaired, 1 = the first failing statement repaired, 2 = all repaired.
func filesLvl(c Case, lvl int) map[string]string {
	repaired := lvl >= 1
	out := map[string]string{}
	for f, fs := range c.Shape {
		var b strings.Builder
		if fs.Ck {
			b.WriteString("-- atlas:checkpoint\n")
		}
		if fs.TxMode != "" {
			b.WriteString("-- atlas:txmode " + fs.TxMode + "\n")
		}
		if fs.Ck || fs.TxMode != "" {
			b.WriteString("\n")
		}
		n := fs.N
		if lvl >= 2 && f == c.FailF && c.Grow {
			n++
		}
		if lvl >= 2 && f == c.FailF && c.Shrink {
			n--
		}
		for i := 0; i < n; i++ {
			switch {
			case f == startOf(c.Shape) && i == 0:
				b.WriteString("CREATE TABLE journal (sid integer NOT NULL);\n")
			case f == c.FailF && i == c.FailK && !repaired:
				b.WriteString(failingOf(c) + ";\n")
			case f == c.FailF && c.Fail2 > 0 && i == c.Fail2 && lvl < 2:
				b.WriteString(failing + ";\n")
			default:
				fmt.Fprintf(&b, "INSERT INTO journal (sid) VALUES (%d);\n", sid(f, i))
			}
		}
		out[fmt.Sprintf("%d_f.sql", f+1)] = b.String()
	}
	return out
}

func modeOf(mode string, fs fileSpec) string {
	if fs.TxMode != "" {
		return fs.TxMode
	}
	return mode
}

// model of the database after a `migrate apply`: journal sids and revision rows.
type model struct {
	table bool
	sids  map[int]int
	revs  map[string]string // version -> "applied/total/err?"
}

func (m model) String() string {
	var s []string
	for k, n := range m.sids {
		s = append(s, fmt.Sprintf("%dx%d", k, n))
	}
	sort.Strings(s)
	var r []string
	for k, v := range m.revs {
		r = append(r, k+":"+v)
	}
	sort.Strings(r)
	return fmt.Sprintf("journal_table=%v sids=%v revisions=%v", m.table, s, r)
}

// expect computes the state the documentation promises after the failing run on a fresh database.
func expect(c Case) (model, bool) {
	m := model{sids: map[int]int{}, revs: map[string]string{}}
	failed := false
	st := startOf(c.Shape)
	limit := len(c.Shape)
	if c.Count > 0 && st+c.Count < limit {
		limit = st + c.Count
	}
	type undo struct {
		table bool
		sids  map[int]int
		revs  map[string]string
	}
	snap := func() undo {
		u := undo{m.table, map[int]int{}, map[string]string{}}
		for k, v := range m.sids {
			u.sids[k] = v
		}
		for k, v := range m.revs {
			u.revs[k] = v
		}
		return u
	}
	start := snap()
	for f := st; f < limit && !failed; f++ {
		fs := c.Shape[f]
		before := snap()
		mode := modeOf(c.Mode, fs)
		for i := 0; i < fs.N; i++ {
			if f == c.FailF && i == c.FailK {
				failed = true
				switch {
				case c.Mode == "all":
					m.table, m.sids, m.revs = start.table, start.sids, start.revs
				case mode == "file":
					m.table, m.sids, m.revs = before.table, before.sids, before.revs
				default: // none
					m.revs[strconv.Itoa(f+1)] = fmt.Sprintf("%d/%d/err", i, fs.N)
				}
				break
			}
			if f == st && i == 0 {
				m.table = true
			} else {
				m.sids[sid(f, i)]++
			}
		}
		if !failed {
			m.revs[strconv.Itoa(f+1)] = fmt.Sprintf("%d/%d/", fs.N, fs.N)
		}
	}
	return m, failed
}

func observe(w *clih.Work) (model, error) {
	m := model{sids: map[int]int{}, revs: map[string]string{}}
	if _, err := os.Stat(w.Path("db.sqlite")); err != nil {
		return m, nil
	}
	t, err := w.Query("db.sqlite", "SELECT name FROM sqlite_master WHERE type='table' AND name='journal'")
	if err != nil {
		return m, err
	}
	if len(t) == 1 {
		m.table = true
		rows, err := w.Query("db.sqlite", "SELECT sid FROM journal")
		if err != nil {
			return m, err
		}
		for _, r := range rows {
			n, _ := strconv.Atoi(r[0])
			m.sids[n]++
		}
	}
	revs, err := w.Revisions("db.sqlite")
	if err != nil {
		return m, err
	}
	for v, r := range revs {
		e := ""
		if r[2] != "" {
			e = "err"
		}
		m.revs[v] = fmt.Sprintf("%s/%s/%s", r[0], r[1], e)
	}
	return m, nil
}

func applyArgs(w *clih.Work, c Case, extra ...string) []string {
	a := []string{"migrate", "apply"}
	if c.Count > 0 {
		a = append(a, strconv.Itoa(c.Count))
	}
	dir := "file://" + w.Path("migrations")
	if c.Format != "" {
		dir += "?format=" + c.Format
	}
	a = append(a, "--dir", dir, "--url", dbURL(w, c), "--lock-timeout", "1ms")
	if c.Mode != "" {
		a = append(a, "--tx-mode", c.Mode)
	}
	return append(a, extra...)
}

var reMaskHash = regexp.MustCompile(`row atlas_schema_revisions .*`)

// maskRevisionHashes blanks the hash / partial_hashes columns: a repaired file legitimately has another hash.
func maskRevisionHashes(dump string) string {
	return reMaskHash.ReplaceAllStringFunc(dump, func(l string) string {
		f := strings.Split(l, "|")
		// columns: version, description, type, applied, total, executed_at, execution_time, error, error_stmt, hash, partial_hashes, operator_version
		if len(f) >= 12 {
			f[9], f[10] = "<hash>", "<hashes>"
		}
		return strings.Join(f, "|")
	})
}

func evalMigrateFail(c Case) (problems []string, skipped string) {
	bad := func(f string, a ...any) { problems = append(problems, fmt.Sprintf(f, a...)) }
	w, err := clih.NewWork()
	if err != nil {
		return []string{"harness: " + err.Error()}, ""
	}
	defer w.Close()
	if err := writeDir(w, c, files(c, false)); err != nil {
		return []string{"harness: " + err.Error()}, ""
	}
	want, fails := expect(c)
	r1 := w.Run(nil, applyArgs(w, c)...)
	if fails && r1.Exit == 0 {
		bad("the failing statement was within the applied range but the command exited 0: %s", r1)
	}
	if !fails && r1.Exit != 0 {
		bad("no failing statement within the first %d files, yet the command failed: %s", c.Count, r1)
	}
	got, err := observe(w)
	if err != nil {
		return []string{"harness: " + err.Error()}, ""
	}
	if got.String() != want.String() {
		bad("after the failing run: %s; the transaction mode promises: %s", got, want)
	}
	if c.Fail2 > 0 {
		// repair only the first failing statement: the next run must fail again, later in the same file.
		if err := writeDir(w, c, filesLvl(c, 1)); err != nil {
			return []string{"harness: " + err.Error()}, ""
		}
		rr := w.Run(nil, applyArgs(w, c)...)
		if rr.Exit == 0 {
			bad("the second failing statement was reached but the command exited 0: %s", rr)
		} else if !strings.Contains(rr.Stdout+rr.Stderr, "no_such_table") {
			bad("after repairing the first failing statement the run fails for another reason than the second one: %s", rr)
		}
	}
	// repair the file, re-hash, run to the end: same final state as a run that never failed.
	if err := writeDir(w, c, files(c, true)); err != nil {
		return []string{"harness: " + err.Error()}, ""
	}
	full := c
	full.Count = 0
	r2 := w.Run(nil, applyArgs(w, full)...)
	if r2.Exit != 0 {
		bad("after repairing the file the command still fails: %s", r2)
		return
	}
	d1, err := w.Dump("db.sqlite")
	if err != nil {
		return []string{"harness: " + err.Error()}, ""
	}
	ref, err := clih.NewWork()
	if err != nil {
		return []string{"harness: " + err.Error()}, ""
	}
	defer ref.Close()
	writeDir(ref, c, files(c, true))
	// the reference run uses the same directory path so that nothing path-dependent differs.
	r3 := ref.Run(nil, applyArgs(ref, full)...)
	if r3.Exit != 0 {
		return []string{"harness: reference run failed: " + r3.String()}, ""
	}
	d2, _ := ref.Dump("db.sqlite")
	if maskRevisionHashes(d1) != maskRevisionHashes(d2) {
		bad("final state after failure+repair differs from a run without failure:\n%s", lineDiff(maskRevisionHashes(d2), maskRevisionHashes(d1)))
	}
	return
}

func lineDiff(want, got string) string {
	w, g := map[string]int{}, map[string]int{}
	for _, l := range strings.Split(want, "\n") {
		w[l]++
	}
	for _, l := range strings.Split(got, "\n") {
		g[l]++
	}
	var b strings.Builder
	for _, l := range strings.Split(want, "\n") {
		if g[l] < w[l] {
			b.WriteString("    without failure: " + l + "\n")
		}
	}
	for _, l := range strings.Split(got, "\n") {
		if w[l] < g[l] {
			b.WriteString("    after repair:    " + l + "\n")
		}
	}
	return b.String()
}

// dry-run from a reached state: nothing may change.
func evalMigrateDryRun(c Case) (problems []string, skipped string) {
	bad := func(f string, a ...any) { problems = append(problems, fmt.Sprintf(f, a...)) }
	w, err := clih.NewWork()
	if err != nil {
		return []string{"harness: " + err.Error()}, ""
	}
	defer w.Close()
	shape := []fileSpec{{N: 2}, {N: 2}, {N: 1}}
	prep := Case{Mode: "none", Shape: shape, FailF: -1}
	switch c.State {
	case "fresh":
		w.WriteDir("migrations", files(prep, true))
	case "partial":
		prep.FailF, prep.FailK = 1, 1
		w.WriteDir("migrations", files(prep, false))
		if r := w.Run(nil, applyArgs(w, prep)...); r.Exit == 0 {
			return []string{"harness: preparatory failing run succeeded"}, ""
		}
		w.WriteDir("migrations", files(prep, true))
	case "one":
		w.WriteDir("migrations", files(prep, true))
		one := prep
		one.Count = 1
		if r := w.Run(nil, applyArgs(w, one)...); r.Exit != 0 {
			return []string{"harness: preparatory run failed: " + r.String()}, ""
		}
	case "full":
		w.WriteDir("migrations", files(prep, true))
		if r := w.Run(nil, applyArgs(w, prep)...); r.Exit != 0 {
			return []string{"harness: preparatory run failed: " + r.String()}, ""
		}
	case "dirty":
		w.WriteDir("migrations", files(prep, true))
		if err := w.Exec("db.sqlite", "CREATE TABLE existing (id integer)", "INSERT INTO existing VALUES (1)"); err != nil {
			return []string{"harness: " + err.Error()}, ""
		}
	}
	before, err := w.Dump("db.sqlite")
	if err != nil {
		return []string{"harness: " + err.Error()}, ""
	}
	dirBefore := fmt.Sprint(w.ReadDir("migrations"))
	args := applyArgs(w, Case{Mode: c.Mode, Count: c.Count}, "--dry-run")
	if c.Extra != "" {
		args = append(args, strings.Fields(c.Extra)...)
	}
	res := w.Run(nil, args...)
	after, err := w.Dump("db.sqlite")
	if err != nil {
		return []string{"harness: " + err.Error()}, ""
	}
	if before != after {
		bad("`migrate apply --dry-run %s` (exit %d) changed the database:\n%s", c.Extra, res.Exit, dumpDiff(before, after))
	}
	if fmt.Sprint(w.ReadDir("migrations")) != dirBefore {
		bad("dry-run changed the migration directory")
	}
	return
}

func dumpDiff(before, after string) string {
	w, g := map[string]int{}, map[string]int{}
	for _, l := range strings.Split(before, "\n") {
		w[l]++
	}
	for _, l := range strings.Split(after, "\n") {
		g[l]++
	}
	var b strings.Builder
	for _, l := range strings.Split(before, "\n") {
		if g[l] < w[l] {
			b.WriteString("    before: " + l + "\n")
		}
	}
	for _, l := range strings.Split(after, "\n") {
		if w[l] < g[l] {
			b.WriteString("    after:  " + l + "\n")
		}
	}
	return b.String()
}

// schema apply scenarios: populated table, plan of >=2 statements whose later statement fails on the data.
var scenarios = map[string]struct {
	setup   []string
	desired string
}{
	"add_column_then_unique_index_on_duplicates": {
		setup: []string{"CREATE TABLE t (id integer NOT NULL PRIMARY KEY, b text)", "INSERT INTO t VALUES (1, 'x'), (2, 'x')", "CREATE TABLE u (id integer NOT NULL PRIMARY KEY)"},
		desired: `schema "main" {}
table "t" {
  schema = schema.main
  column "id" {
    type = integer
  }
  column "b" {
    type = text
    null = true
  }
  column "c" {
    type = integer
    null = true
  }
  primary_key {
    columns = [column.id]
  }
  index "uq_b" {
    unique = true
    columns = [column.b]
  }
}
table "u" {
  schema = schema.main
  column "id" {
    type = integer
  }
  primary_key {
    columns = [column.id]
  }
}
table "added" {
  schema = schema.main
  column "id" {
    type = integer
  }
}`},
	"rebuild_with_not_null_over_null": {
		setup: []string{"CREATE TABLE t (id integer NOT NULL PRIMARY KEY, b text)", "INSERT INTO t VALUES (1, NULL), (2, 'y')", "CREATE INDEX idx_b ON t (b)"},
		desired: `schema "main" {}
table "first" {
  schema = schema.main
  column "id" {
    type = integer
  }
}
table "t" {
  schema = schema.main
  column "id" {
    type = integer
  }
  column "b" {
    type = text
    null = false
  }
  primary_key {
    columns = [column.id]
  }
  index "idx_b" {
    columns = [column.b]
  }
}`},
	"drop_table_then_failing_unique": {
		setup: []string{"CREATE TABLE gone (id integer)", "INSERT INTO gone VALUES (7)", "CREATE TABLE t (id integer NOT NULL PRIMARY KEY, b text)", "INSERT INTO t VALUES (1, 'x'), (2, 'x')"},
		desired: `schema "main" {}
table "t" {
  schema = schema.main
  column "id" {
    type = integer
  }
  column "b" {
    type = text
    null = true
  }
  primary_key {
    columns = [column.id]
  }
  index "uq_b" {
    unique = true
    columns = [column.b]
  }
}`},
}

// generated scenarios: every subset of {add table, add column, b NOT NULL (rebuild, fails on the NULL row),
// unique index on b (fails on the duplicate rows), drop table} holding at least one failing change;
// one-change plans whose single change is several statements are in there.
var genFlags = []string{"first", "colc", "notnull", "uniq", "dropgone"}

func init() {
	for m := 1; m < 1<<len(genFlags); m++ {
		on := map[string]bool{}
		var names []string
		for i, f := range genFlags {
			if m&(1<<i) != 0 {
				on[f] = true
				names = append(names, f)
			}
		}
		prefix := "gen:"
		if !on["notnull"] && !on["uniq"] {
			prefix = "ok:" // the plan succeeds: only previewed (--dry-run), never expected to fail
		}
		var b strings.Builder
		b.WriteString("schema \"main\" {}\n")
		if on["first"] {
			b.WriteString("table \"first\" {\n  schema = schema.main\n  column \"id\" {\n    type = integer\n  }\n}\n")
		}
		b.WriteString("table \"t\" {\n  schema = schema.main\n  column \"id\" {\n    type = integer\n  }\n")
		fmt.Fprintf(&b, "  column \"b\" {\n    type = text\n    null = %v\n  }\n", !on["notnull"])
		if on["colc"] {
			b.WriteString("  column \"c\" {\n    type = integer\n    null = true\n  }\n")
		}
		b.WriteString("  primary_key {\n    columns = [column.id]\n  }\n  index \"idx_b\" {\n    columns = [column.b]\n  }\n")
		if on["uniq"] {
			b.WriteString("  index \"uq_b\" {\n    unique = true\n    columns = [column.b]\n  }\n")
		}
		b.WriteString("}\n")
		if !on["dropgone"] {
			b.WriteString("table \"gone\" {\n  schema = schema.main\n  column \"id\" {\n    type = integer\n    null = true\n  }\n}\n")
		}
		scenarios[prefix+strings.Join(names, "+")] = struct {
			setup   []string
			desired string
		}{
			setup: []string{"CREATE TABLE t (id integer NOT NULL PRIMARY KEY, b text)", "INSERT INTO t VALUES (1, NULL), (2, 'x'), (3, 'x')",
				"CREATE INDEX idx_b ON t (b)", "CREATE TABLE gone (id integer)", "INSERT INTO gone VALUES (7)"},
			desired: b.String(),
		}
	}
}

func evalSchema(c Case) (problems []string, skipped string) {
	bad := func(f string, a ...any) { problems = append(problems, fmt.Sprintf(f, a...)) }
	w, err := clih.NewWork()
	if err != nil {
		return []string{"harness: " + err.Error()}, ""
	}
	defer w.Close()
	sc := scenarios[c.Scen]
	if err := w.Exec("db.sqlite", sc.setup...); err != nil {
		return []string{"harness: " + err.Error()}, ""
	}
	os.WriteFile(w.Path("desired.hcl"), []byte(sc.desired), 0o644)
	before, _ := w.Dump("db.sqlite")
	args := []string{"schema", "apply", "--url", dbURL(w, c), "--to", "file://" + w.Path("desired.hcl"), "--auto-approve"}
	if c.Kind == "schema_dryrun" {
		args[len(args)-1] = "--dry-run"
	}
	if c.Mode != "" {
		args = append(args, "--tx-mode", c.Mode)
	}
	stdin := ""
	if c.Extra == "prompt" {
		// the plan is approved at the prompt (a newline selects "Apply") instead of by --auto-approve.
		var a2 []string
		for _, a := range args {
			if a != "--auto-approve" {
				a2 = append(a2, a)
			}
		}
		args, stdin = a2, "\n"
	}
	rejected := false // a flag combination the command may refuse (it still must not touch the database)
	if c.Kind == "schema_dryrun" {
		switch c.Extra {
		case "format_json":
			args = append(args, "--format", "{{ json .Changes }}")
		case "auto_approve":
			args, rejected = append(args, "--auto-approve"), true
		case "auto_approve_format":
			args, rejected = append(args, "--auto-approve", "--format", "{{ json .Changes }}"), true
		case "auto_approve_log":
			args, rejected = append(args, "--auto-approve", "--log", "{{ json .Changes }}"), true
		}
	}
	res := w.RunStdin(stdin, nil, args...)
	after, err := w.Dump("db.sqlite")
	if err != nil {
		return []string{"harness: " + err.Error()}, ""
	}
	switch {
	case c.Kind == "schema_dryrun":
		if before != after {
			bad("`schema apply --dry-run` (exit %d) changed the database:\n%s", res.Exit, dumpDiff(before, after))
		}
		if !rejected && (strings.TrimSpace(res.Stdout) == "" || res.Exit != 0) {
			bad("dry-run did not print a plan: %s", res)
		}
	case c.Mode == "none":
		if res.Exit == 0 {
			bad("the plan was expected to fail on the data, but the command exited 0")
		}
		// partial application is allowed without a transaction; nothing to compare but the untouched rows.
	default:
		if res.Exit == 0 {
			bad("the plan was expected to fail on the data, but the command exited 0")
		} else if !strings.Contains(res.Stderr+res.Stdout, "constraint failed") {
			bad("harness: the command failed for another reason than the data: %s", res)
		}
		if before != after {
			bad("`schema apply` failed midway (exit %d) but the database changed:\n%s", res.Exit, dumpDiff(before, after))
		}
	}
	return
}

func Eval(c Case) ([]string, string) {
	switch c.Kind {
	case "migrate_fail":
		return evalMigrateFail(c)
	case "migrate_dryrun":
		return evalMigrateDryRun(c)
	case "migrate_fkcommit":
		return evalFKCommit(c), ""
	case "migrate_lockcommit":
		return evalLockCommit(c), ""
	default:
		return evalSchema(c)
	}
}

// evalFKCommit: the failure is the transaction's commit itself. The SQLite driver switches foreign-key
// enforcement off inside its transactions and refuses the commit when the transaction has added a
// violation. The database already holds one violation (an orphan row written with enforcement off);
// the first file removes that row and inserts another orphan, so the number of violations stays the
// same: the commit must still be refused and nothing of the file (file mode) / of any file (all
// mode) may remain.
func evalFKCommit(c Case) (problems []string) {
	bad := func(f string, a ...any) { problems = append(problems, fmt.Sprintf(f, a...)) }
	w, err := clih.NewWork()
	if err != nil {
		return []string{"harness: " + err.Error()}
	}
	defer w.Close()
	if err := w.Exec("db.sqlite", "PRAGMA foreign_keys = off",
		"CREATE TABLE parent (id integer PRIMARY KEY)",
		"CREATE TABLE child (id integer PRIMARY KEY, pid integer REFERENCES parent (id))",
		"INSERT INTO child VALUES (1, 999)",
		"CREATE TABLE journal (sid integer NOT NULL)"); err != nil {
		return []string{"harness: " + err.Error()}
	}
	swap := []string{"DELETE FROM child WHERE id = 1", "INSERT INTO child (id, pid) VALUES (2, 998)"}
	if c.Extra == "two_for_one" {
		// two old orphans are replaced by one new one: the count even drops.
		if err := w.Exec("db.sqlite", "PRAGMA foreign_keys = off", "INSERT INTO child VALUES (3, 997)"); err != nil {
			return []string{"harness: " + err.Error()}
		}
		swap = append([]string{"DELETE FROM child WHERE id = 3"}, swap...)
	}
	switch c.Extra {
	case "fresh_rowid", "fresh_without_rowid":
		// no violation beforehand; the file adds the first one, in a child table with / without a rowid.
		opt := ""
		if c.Extra == "fresh_without_rowid" {
			opt = " WITHOUT ROWID"
		}
		if err := w.Exec("db.sqlite", "PRAGMA foreign_keys = off", "DELETE FROM child",
			"CREATE TABLE kid (k text PRIMARY KEY, pid integer REFERENCES parent (id))"+opt); err != nil {
			return []string{"harness: " + err.Error()}
		}
		swap = []string{"INSERT INTO kid (k, pid) VALUES ('a', 42)"}
	}
	f1 := "INSERT INTO journal (sid) VALUES (11);\n" + strings.Join(swap, ";\n") + ";\nINSERT INTO journal (sid) VALUES (12);\n"
	if err := w.WriteDir("migrations", map[string]string{"1_f.sql": f1, "2_f.sql": "INSERT INTO journal (sid) VALUES (21);\n"}); err != nil {
		return []string{"harness: " + err.Error()}
	}
	childBefore, _ := w.Query("db.sqlite", "SELECT id, pid FROM child ORDER BY id")
	r := w.Run(nil, "migrate", "apply", "--dir", "file://"+w.Path("migrations"), "--url", w.URL("db.sqlite"), "--tx-mode", c.Mode, "--allow-dirty")
	if r.Exit == 0 {
		bad("the transaction adds a foreign-key violation, yet its commit was accepted and the command exited 0: %s", r)
	}
	j, _ := w.Query("db.sqlite", "SELECT sid FROM journal ORDER BY rowid")
	if len(j) != 0 {
		bad("after the refused commit statements of the file remain: journal %v", j)
	}
	childAfter, _ := w.Query("db.sqlite", "SELECT id, pid FROM child ORDER BY id")
	if strings.HasPrefix(c.Extra, "fresh_") {
		if kids, _ := w.Query("db.sqlite", "SELECT k, pid FROM kid"); len(kids) != 0 {
			bad("after the refused commit the orphan row is in the database: kid %v", kids)
		}
	}
	if fmt.Sprint(childBefore) != fmt.Sprint(childAfter) {
		bad("after the refused commit the rows of child differ: %v -> %v", childBefore, childAfter)
	}
	if revs, err := w.Revisions("db.sqlite"); err == nil {
		for v, rv := range revs {
			if rv[0] != "0" {
				bad("after the refused commit revision %s records applied=%s total=%s", v, rv[0], rv[1])
			}
		}
	}
	return
}

// evalLockCommit: the COMMIT of a file's transaction fails for a reason outside the file: another
// connection holds a read transaction on the database, so the commit cannot get its lock
// (SQLITE_BUSY). Extra "fk_on": the connection enforces foreign keys (the driver then wraps the
// transaction in its own bookkeeping), "": it does not.
func evalLockCommit(c Case) (problems []string) {
	bad := func(f string, a ...any) { problems = append(problems, fmt.Sprintf(f, a...)) }
	w, err := clih.NewWork()
	if err != nil {
		return []string{"harness: " + err.Error()}
	}
	defer w.Close()
	if err := w.WriteDir("migrations", map[string]string{
		"1_f.sql": "CREATE TABLE journal (sid integer NOT NULL);\nINSERT INTO journal (sid) VALUES (11);\n",
		"2_f.sql": "INSERT INTO journal (sid) VALUES (21);\nINSERT INTO journal (sid) VALUES (22);\n",
		"3_f.sql": "INSERT INTO journal (sid) VALUES (31);\n",
	}); err != nil {
		return []string{"harness: " + err.Error()}
	}
	url := "sqlite://" + w.Path("db.sqlite") + "?_busy_timeout=50"
	if c.Extra == "fk_on" {
		url += "&_fk=1"
	}
	apply := func(args ...string) clih.Result {
		return w.Run(nil, append([]string{"migrate", "apply", "--dir", "file://" + w.Path("migrations"), "--url", url, "--tx-mode", c.Mode}, args...)...)
	}
	if r := apply("1"); r.Exit != 0 {
		return []string{"harness: applying the first file failed: " + r.String()}
	}
	release, err := w.HoldReadLock("db.sqlite")
	if err != nil {
		return []string{"harness: " + err.Error()}
	}
	r := apply()
	release()
	j, _ := w.Query("db.sqlite", "SELECT sid FROM journal ORDER BY rowid")
	revs, _ := w.Revisions("db.sqlite")
	if fmt.Sprint(j) != "[[11]]" {
		if r.Exit == 0 {
			bad("no commit can get through while the database is read-locked, yet rows of the files are there: journal %v", j)
		} else {
			bad("after the failed commit statements of the files remain: journal %v", j)
		}
	}
	for _, v := range []string{"2", "3"} {
		if rv, ok := revs[v]; ok && rv[0] != "0" {
			bad("after the failed commit revision %s records applied=%s total=%s", v, rv[0], rv[1])
		}
	}
	if r.Exit == 0 {
		bad("the commit of file 2 cannot have succeeded (journal %v, revisions %v), yet the command exited 0: %s", j, revs, r)
	}
	// the same command again, nobody in the way.
	if r2 := apply(); r2.Exit != 0 {
		bad("the same command again, without the lock, fails: %s", r2)
		return
	}
	j, _ = w.Query("db.sqlite", "SELECT sid FROM journal ORDER BY rowid")
	if fmt.Sprint(j) != "[[11] [21] [22] [31]]" {
		bad("after the second run the journal is %v, expected every statement once, in order", j)
	}
	revs, _ = w.Revisions("db.sqlite")
	for v, n := range map[string]string{"1": "2", "2": "2", "3": "1"} {
		if rv := revs[v]; rv[0] != n || rv[1] != n || rv[2] != "" {
			bad("after the second run revision %s is applied=%s total=%s error=%q", v, rv[0], rv[1], rv[2])
		}
	}
	return
}

func cases(tier string) []Case {
	var cs []Case
	for _, mode := range []string{"file", "all"} {
		cs = append(cs, Case{Kind: "migrate_lockcommit", Mode: mode, FailF: -1}, Case{Kind: "migrate_lockcommit", Mode: mode, FailF: -1, Extra: "fk_on"})
	}
	for _, mode := range []string{"file", "all"} {
		cs = append(cs, Case{Kind: "migrate_fkcommit", Mode: mode, FailF: -1}, Case{Kind: "migrate_fkcommit", Mode: mode, FailF: -1, Extra: "two_for_one"},
			Case{Kind: "migrate_fkcommit", Mode: mode, FailF: -1, Extra: "fresh_rowid"}, Case{Kind: "migrate_fkcommit", Mode: mode, FailF: -1, Extra: "fresh_without_rowid"})
	}
	shapes := [][]fileSpec{{{N: 2}}, {{N: 3}}, {{N: 2}, {N: 2}}, {{N: 1}, {N: 3}}, {{N: 2}, {N: 1}, {N: 2}}}
	if tier == "thorough" {
		shapes = append(shapes, [][]fileSpec{{{N: 1}}, {{N: 1}, {N: 1}}, {{N: 3}, {N: 3}}, {{N: 1}, {N: 1}, {N: 1}}, {{N: 2}, {N: 2}, {N: 2}}, {{N: 1}, {N: 2}, {N: 3}}, {{N: 3}, {N: 2}, {N: 1}}}...)
	}
	for _, sh := range shapes {
		for f := range sh {
			for k := 0; k < sh[f].N; k++ {
				if f == 0 && k == 0 {
					continue // the CREATE TABLE statement is not replaced
				}
				for _, mode := range []string{"file", "all", "none"} {
					// per-file directive on the failing file and on the file before it.
					type dir struct{ onFail, onPrev string }
					dirs := []dir{{"", ""}}
					if mode != "all" {
						dirs = append(dirs, dir{"none", ""}, dir{"file", ""})
						if f > 0 {
							dirs = append(dirs, dir{"", "none"}, dir{"", "file"})
						}
					}
					for _, d := range dirs {
						if d.onFail == mode || d.onPrev == mode {
							continue // same as no directive
						}
						s2 := append([]fileSpec(nil), sh...)
						s2[f].TxMode = d.onFail
						if f > 0 {
							s2[f-1].TxMode = d.onPrev
						}
						counts := []int{0}
						if len(sh) > 1 {
							counts = append(counts, 1, 2)
						}
						for _, n := range counts {
							cs = append(cs, Case{Kind: "migrate_fail", Mode: mode, Shape: s2, FailF: f, FailK: k, Count: n})
							if n == 0 && d == (dir{}) {
								cs = append(cs, Case{Kind: "migrate_fail", Mode: mode, Shape: s2, FailF: f, FailK: k, NoFK: true})
								for _, fm := range []string{"golang-migrate", "flyway"} {
									cs = append(cs, Case{Kind: "migrate_fail", Mode: mode, Shape: s2, FailF: f, FailK: k, Format: fm})
								}
								cs = append(cs, Case{Kind: "migrate_fail", Mode: mode, Shape: s2, FailF: f, FailK: k, FailKind: "or_rollback"})
							}
						}
					}
				}
			}
		}
	}
	// checkpoint directories: files precede the checkpoint a first run starts from; the failure is inside
	// the checkpoint or in a file after it.
	for _, sh := range [][]fileSpec{{{N: 1}, {N: 2}, {N: 3, Ck: true}, {N: 2}}, {{N: 2}, {N: 2, Ck: true}}} {
		st := startOf(sh)
		for f := st; f < len(sh); f++ {
			for k := 0; k < sh[f].N; k++ {
				if f == st && k == 0 {
					continue
				}
				for _, mode := range []string{"file", "all", "none"} {
					cs = append(cs, Case{Kind: "migrate_fail", Mode: mode, Shape: sh, FailF: f, FailK: k})
				}
			}
		}
	}
	// the repair changes the number of statements of the file (one more at its end / the last one removed).
	for _, sh := range [][]fileSpec{{{N: 3}}, {{N: 1}, {N: 3}}, {{N: 2}, {N: 3}, {N: 1}}} {
		for f := range sh {
			for k := 0; k < sh[f].N; k++ {
				if f == 0 && k == 0 {
					continue
				}
				for _, mode := range []string{"file", "all", "none"} {
					cs = append(cs, Case{Kind: "migrate_fail", Mode: mode, Shape: sh, FailF: f, FailK: k, Grow: true})
					if k < sh[f].N-1 {
						cs = append(cs, Case{Kind: "migrate_fail", Mode: mode, Shape: sh, FailF: f, FailK: k, Shrink: true})
					}
				}
			}
		}
	}
	// fail, repair, fail again later in the same file, repair (every pair of positions).
	for _, sh := range [][]fileSpec{{{N: 3}}, {{N: 4}}, {{N: 1}, {N: 3}}} {
		f := len(sh) - 1
		for k1 := 0; k1 < sh[f].N; k1++ {
			for k2 := k1 + 1; k2 < sh[f].N; k2++ {
				if f == 0 && k1 == 0 {
					continue
				}
				for _, mode := range []string{"file", "all", "none"} {
					cs = append(cs, Case{Kind: "migrate_fail", Mode: mode, Shape: sh, FailF: f, FailK: k1, Fail2: k2})
				}
			}
		}
	}
	for _, st := range []string{"fresh", "partial", "one", "full", "dirty"} {
		for _, mode := range []string{"file", "all", "none"} {
			for _, n := range []int{0, 1} {
				cs = append(cs, Case{Kind: "migrate_dryrun", Mode: mode, State: st, Count: n, FailF: -1})
			}
		}
		cs = append(cs, Case{Kind: "migrate_dryrun", Mode: "file", State: st, Extra: "--baseline 1", FailF: -1})
		cs = append(cs, Case{Kind: "migrate_dryrun", Mode: "file", State: st, Extra: "--allow-dirty", FailF: -1})
	}
	for name := range scenarios {
		// the preview together with the other flags of the command: nothing may ever change.
		for _, x := range []string{"format_json", "auto_approve", "auto_approve_format", "auto_approve_log"} {
			if strings.HasPrefix(name, "ok:") || strings.Count(name, "+") == 0 {
				cs = append(cs, Case{Kind: "schema_dryrun", Scen: name, FailF: -1, Extra: x})
			}
		}
		if strings.HasPrefix(name, "ok:") {
			cs = append(cs, Case{Kind: "schema_dryrun", Scen: name, FailF: -1})
			continue
		}
		cs = append(cs, Case{Kind: "schema_fail", Scen: name, FailF: -1, Extra: "prompt"}, Case{Kind: "schema_fail", Scen: name, Mode: "file", FailF: -1, Extra: "prompt"})
		cs = append(cs, Case{Kind: "schema_fail", Scen: name, FailF: -1, NoFK: true}, Case{Kind: "schema_fail", Scen: name, Mode: "file", FailF: -1, NoFK: true})
		cs = append(cs, Case{Kind: "schema_fail", Scen: name, FailF: -1}, Case{Kind: "schema_fail", Scen: name, Mode: "none", FailF: -1},
			Case{Kind: "schema_fail", Scen: name, Mode: "file", FailF: -1}, Case{Kind: "schema_dryrun", Scen: name, FailF: -1})
	}
	sort.Slice(cs, func(i, j int) bool { return fmt.Sprint(cs[i]) < fmt.Sprint(cs[j]) })
	return cs
}

func classify(c Case, problems []string) string {
	if c.Kind == "migrate_fail" && c.FailKind == "or_rollback" && c.FailF >= 0 && modeOf(c.Mode, c.Shape[c.FailF]) != "none" {
		for _, p := range problems {
			if !strings.HasPrefix(p, "after the failing run:") && !strings.HasPrefix(p, "after repairing the file the command still fails") &&
				!strings.HasPrefix(p, "final state after failure+repair differs") {
				return ""
			}
		}
		return "statement-that-makes-sqlite-roll-back-leaves-a-partial-revision-of-undone-statements"
	}
	if c.Kind == "migrate_dryrun" {
		onlyRevTable := true
		for _, p := range problems {
			for _, l := range strings.Split(p, "\n") {
				l = strings.TrimSpace(l)
				if l == "" || strings.HasPrefix(l, "`migrate apply --dry-run") {
					continue
				}
				switch {
				case l == "after:" || l == "before:":
				case strings.HasPrefix(l, "after:  master") && strings.Contains(l, "atlas_schema_revisions"):
				case strings.HasPrefix(l, "before: <no database file>"):
				case c.Extra == "--baseline 1" && strings.HasPrefix(l, "after:  row atlas_schema_revisions '1'") && strings.Contains(l, "|1|0|0|"):
				default:
					onlyRevTable = false
				}
			}
		}
		if onlyRevTable && (c.State == "fresh" || c.State == "dirty") {
			return "dry-run-creates-revisions-table"
		}
	}
	return ""
}

func Run(r *report.Run) {
	defer clih.Cleanup()
	r.Rule = "real CLI on real SQLite files: (1) `migrate apply`: directory shapes (1-3 files x 1-3 statements, and directories with a checkpoint file preceded by older files) x a really failing statement (naming a missing table; for the plain directories also a constraint violation with the SQLite conflict clause OR ROLLBACK) at every position x tx-mode {file, all, none} (also with a database URL that does not switch foreign-key enforcement on, and with the directory in the golang-migrate / flyway layout) x per-file txmode directive on the failing / preceding file x apply count {all, 1, 2} (plus every pair of failing positions in one file, repaired one after the other; plus repairs that change the number of statements of the failing file: one more at its end, or its last one removed): the state after the failure (journal rows written by the statements themselves + revision rows, read by our own connection) must equal what the mode promises, and after repairing the file and re-running the full dump must equal that of a run that never failed; (1b) a failure of the commit itself: the SQLite driver refuses to commit a transaction that adds a foreign-key violation; on a database that already holds one (two) orphan rows the first file replaces them by another orphan (same / lower count), and on a database without violations the first file adds one in a child table with / without a rowid: file and all mode must fail and keep nothing; (1c) a commit that fails for a reason outside the file: another connection holds a read transaction on the database while the files are applied (connection with and without foreign-key enforcement): the command must fail, keep nothing of the files, and the same command again must complete; (2) `migrate apply --dry-run` from 5 start states (fresh, partially applied, one file applied, fully applied, non-empty without history) x modes x count x {--baseline, --allow-dirty}: dump and directory byte-identical; (3) `schema apply` on populated tables whose plan fails midway on the data, default / file / none tx-mode, approved by --auto-approve or at the prompt, and --dry-run (also of plans that would succeed, alone and together with --format / --log / --auto-approve); non-trivial = every case; distinct = the case tuple"
	r.Assumptions = []string{
		"after a repair the hash / partial_hashes columns of the revision row legitimately differ from a never-failed run and are masked; timestamps are masked",
		"`--tx-mode all` with per-file txmode directives is rejected by the CLI and not enumerated",
	}
	cs := cases(r.Tier)
	kinds := map[string]int{}
	res := make([][]string, len(cs))
	enum.Parallel(len(cs), func(i, _ int) {
		res[i], _ = Eval(cs[i])
	})
	for i, c := range cs {
		r.Case(fmt.Sprint(c), true)
		kinds[c.Kind]++
		if len(res[i]) > 0 {
			r.Violate(classify(c, res[i]), fmt.Sprintf("%+v: %s", c, strings.Join(res[i], " | ")), c)
		}
		if c.Kind == "migrate_fail" && c.Mode == "file" && len(c.Shape) == 3 && c.FailF == 1 && c.Count == 0 && c.Shape[1].TxMode == "none" {
			r.Sample(c)
		}
	}
	r.Set("cases_by_kind", kinds)
}

func Replay(r *report.Run, raw json.RawMessage) {
	defer clih.Cleanup()
	var v struct{ Case Case }
	if err := json.Unmarshal(raw, &v); err != nil {
		r.Violate("", "bad replay file: "+err.Error(), nil)
		return
	}
	problems, _ := Eval(v.Case)
	fmt.Printf("  case %+v\n", v.Case)
	r.Case("a", true)
	r.Case("b", true)
	if len(problems) > 0 {
		r.Violate(classify(v.Case, problems), strings.Join(problems, " | "), v.Case)
	}
}
