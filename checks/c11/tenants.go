package c11

// Several environments in one run: `atlas migrate apply --env tenants` walks every env block named
// "tenants" of the project file, one database after the other, in one process. What is pending for a
// database depends on its own history and its own env block only: every (attributes of the first
// block) x (attributes of the second block) x (order of the blocks) is enumerated and each database
// must end up exactly where a run of its own would have taken it.

import (
	"fmt"
	"os"
	"sort"
	"strings"

	"verif/clih"
	"verif/engine/enum"
	"verif/engine/report"
)

// TenantCase: a directory of N one-statement files; per tenant a baseline (0 = none; the database then
// already holds what the files up to it create) and an execution order ("" = not stated).
type TenantCase struct {
	N        int      `json:"files"`
	Baseline []int    `json:"baseline"`   // per env block, in file order of the project file
	Order    []string `json:"exec_order"` // per env block
}

func tenantFile(v int) string {
	return fmt.Sprintf("CREATE TABLE t%d (c int);\n", v)
}

func evalTenants(c TenantCase) (problems []string) {
	bad := func(f string, a ...any) { problems = append(problems, fmt.Sprintf(f, a...)) }
	wk, err := clih.NewWork()
	if err != nil {
		return []string{"harness: " + err.Error()}
	}
	defer wk.Close()
	files := map[string]string{}
	for v := 1; v <= c.N; v++ {
		files[fmt.Sprintf("%d_f.sql", v)] = tenantFile(v)
	}
	if err := wk.WriteDir("migrations", files); err != nil {
		return []string{"harness: " + err.Error()}
	}
	var cfg strings.Builder
	for i, b := range c.Baseline {
		db := fmt.Sprintf("tenant%d.sqlite", i)
		// a database with a baseline is a legacy one: it holds the tables of the files up to it.
		var pre []string
		for v := 1; v <= b; v++ {
			pre = append(pre, strings.TrimSuffix(strings.TrimSpace(tenantFile(v)), ";"))
		}
		if len(pre) > 0 {
			if err := wk.Exec(db, pre...); err != nil {
				return []string{"harness: " + err.Error()}
			}
		}
		fmt.Fprintf(&cfg, "env \"tenants\" {\n  url = %q\n  migration {\n    dir = %q\n", wk.URL(db), "file://"+wk.Path("migrations"))
		if b > 0 {
			fmt.Fprintf(&cfg, "    baseline = \"%d\"\n", b)
		}
		if c.Order[i] != "" {
			fmt.Fprintf(&cfg, "    exec_order = %s\n", c.Order[i])
		}
		cfg.WriteString("  }\n}\n")
	}
	os.WriteFile(wk.Path("atlas.hcl"), []byte(cfg.String()), 0o644)
	res := wk.Run(nil, "migrate", "apply", "--env", "tenants", "-c", "file://"+wk.Path("atlas.hcl"))
	if res.Exit != 0 {
		bad("`migrate apply --env tenants` failed: %s", res)
	}
	for i, b := range c.Baseline {
		db := fmt.Sprintf("tenant%d.sqlite", i)
		rows, err := wk.Query(db, "SELECT name FROM sqlite_master WHERE type = 'table' AND name LIKE 't_' ORDER BY name")
		if err != nil {
			bad("harness: %v", err)
			continue
		}
		var got, want []string
		for _, r := range rows {
			got = append(got, r[0])
		}
		for v := 1; v <= c.N; v++ {
			want = append(want, fmt.Sprintf("t%d", v))
		}
		if fmt.Sprint(got) != fmt.Sprint(want) {
			bad("database %d (baseline %d): tables %v after the run, expected %v", i, b, got, want)
		}
		revs, err := wk.Query(db, "SELECT version, type, applied, total FROM atlas_schema_revisions ORDER BY version")
		if err != nil {
			bad("database %d: reading the history: %v", i, err)
			continue
		}
		var gotR, wantR []string
		for _, r := range revs {
			kind := "executed"
			if r[1] == "1" {
				kind = "baseline"
			}
			gotR = append(gotR, fmt.Sprintf("%s:%s:%s/%s", r[0], kind, r[2], r[3]))
		}
		for v := 1; v <= c.N; v++ {
			switch {
			case v < b:
			case v == b:
				wantR = append(wantR, fmt.Sprintf("%d:baseline:0/0", v))
			default:
				wantR = append(wantR, fmt.Sprintf("%d:executed:1/1", v))
			}
		}
		sort.Strings(gotR)
		sort.Strings(wantR)
		if fmt.Sprint(gotR) != fmt.Sprint(wantR) {
			bad("database %d (baseline %d, exec_order %q): history %v, expected %v (what a run of its own gives)", i, b, c.Order[i], gotR, wantR)
		}
	}
	return
}

func tenantCases(tier string) []TenantCase {
	var cs []TenantCase
	orders := []string{"", "NON_LINEAR"}
	ns := []int{3}
	if tier == "thorough" {
		orders = []string{"", "LINEAR", "LINEAR_SKIP", "NON_LINEAR"}
		ns = []int{2, 3, 4}
	}
	for _, n := range ns {
		for b0 := 0; b0 <= n; b0++ {
			for b1 := 0; b1 <= n; b1++ {
				for _, o0 := range orders {
					for _, o1 := range orders {
						cs = append(cs, TenantCase{N: n, Baseline: []int{b0, b1}, Order: []string{o0, o1}})
					}
				}
			}
		}
	}
	// three databases, attributes on the middle one only / on the outer ones only.
	cs = append(cs, TenantCase{N: 3, Baseline: []int{0, 2, 0}, Order: []string{"", "NON_LINEAR", ""}},
		TenantCase{N: 3, Baseline: []int{1, 0, 3}, Order: []string{"LINEAR_SKIP", "", ""}})
	return cs
}

// RunTenants evaluates every case; returns the number of cases.
func RunTenants(r *report.Run) int {
	cs := tenantCases(r.Tier)
	out := make([][]string, len(cs))
	enum.Parallel(len(cs), func(i, _ int) { out[i] = evalTenants(cs[i]) })
	for i, c := range cs {
		r.Case("tenants|"+fmt.Sprint(c), true)
		if len(out[i]) > 0 {
			r.Violate("", fmt.Sprintf("tenants %+v: %s", c, strings.Join(out[i], " | ")), map[string]any{"tenants": c})
		}
	}
	return len(cs)
}

// ---------- versions that sort before the letters and digits ----------
//
// A version is any text before the first underscore of the file name. Versions beginning with a blank,
// a sign or a dot sort before everything else - including the rows the revision table keeps for its own
// bookkeeping - and are versions like any other: once applied they are history.

type OddCase struct {
	Version string `json:"version"`
}

func evalOdd(c OddCase) (problems []string) {
	bad := func(f string, a ...any) { problems = append(problems, fmt.Sprintf(f, a...)) }
	w, err := clih.NewWork()
	if err != nil {
		return []string{"harness: " + err.Error()}
	}
	defer w.Close()
	if err := w.WriteDir("migrations", map[string]string{
		c.Version + "_a.sql": "CREATE TABLE journal (sid integer NOT NULL);\nINSERT INTO journal (sid) VALUES (1);\n",
		"z9_b.sql":           "INSERT INTO journal (sid) VALUES (2);\n",
	}); err != nil {
		return []string{"harness: " + err.Error()}
	}
	dirURL, dbURL := "file://"+w.Path("migrations"), w.URL("db.sqlite")
	if r := w.Run(nil, "migrate", "apply", "1", "--dir", dirURL, "--url", dbURL); r.Exit != 0 {
		bad("`migrate apply 1` fails: %s", r)
		return
	}
	st := status(w, dirURL, dbURL)
	var pend []string
	for _, p := range st.Pending {
		pend = append(pend, p.Version)
	}
	if fmt.Sprint(pend) != "[z9]" {
		bad("version %q was applied by `migrate apply 1`; status lists pending %q (status %q, error %q), want [z9]", c.Version, pend, st.Status, st.Error)
	}
	r2 := w.Run(nil, "migrate", "apply", "--dir", dirURL, "--url", dbURL)
	if r2.Exit != 0 || strings.Contains(r2.Stderr, "panic:") {
		bad("the second `migrate apply` fails: %s", r2)
	}
	j, _ := w.Query("db.sqlite", "SELECT sid FROM journal ORDER BY rowid")
	if fmt.Sprint(j) != "[[1] [2]]" {
		bad("after both runs the statements executed are %v, want each once", j)
	}
	return
}

func oddCases() []OddCase {
	var cs []OddCase
	for _, v := range []string{"-1", "#1", ".1", "+1", "(1", "!1", " 1", "-", ".a", "0", "A"} {
		cs = append(cs, OddCase{v})
	}
	return cs
}

func RunOdd(r *report.Run) int {
	cs := oddCases()
	out := make([][]string, len(cs))
	enum.Parallel(len(cs), func(i, _ int) { out[i] = evalOdd(cs[i]) })
	for i, c := range cs {
		r.Case("odd|"+fmt.Sprint(c), true)
		if len(out[i]) > 0 {
			r.Violate("", fmt.Sprintf("version %q: %s", c.Version, strings.Join(out[i], " | ")), map[string]any{"odd": c})
		}
	}
	return len(cs)
}
