package c11

import "sort"

// Reference model of the documented pending-file semantics. Set based on
// purpose: no index arithmetic shared with Executor.Pending.

type FileSpec struct {
	V  string `json:"v"`
	Ck bool   `json:"ck,omitempty"`
}

type RevSpec struct {
	V       string `json:"v"`
	Partial bool   `json:"partial,omitempty"`
	// Died: the partial revision carries no error text (the process died, or a later revision write
	// failed, instead of a statement failing). The documented decision is the same.
	Died bool `json:"died,omitempty"`
}

type Config struct {
	Files      []FileSpec `json:"files"` // sorted by version
	Revs       []RevSpec  `json:"revs"`  // sorted by version; only the last may be partial
	Order      int        `json:"order"` // 0 linear, 1 linear-skip, 2 non-linear
	Baseline   string     `json:"baseline,omitempty"`
	AllowDirty bool       `json:"allow_dirty,omitempty"`
	Dirty      bool       `json:"dirty,omitempty"`
}

type Outcome struct {
	Class       string   `json:"class"` // ok | no-pending | non-linear | missing-migration | not-clean | baseline-not-found | unspecified
	Pending     []string `json:"pending,omitempty"`
	OutOfOrder  []string `json:"out_of_order,omitempty"`
	BaselineRev string   `json:"baseline_rev,omitempty"` // baseline revision that must be recorded
}

func refPending(c Config) Outcome {
	var mig, cks []string
	isCk := map[string]bool{}
	have := map[string]bool{}
	for _, f := range c.Files {
		have[f.V] = true
		if f.Ck {
			cks = append(cks, f.V)
			isCk[f.V] = true
		} else {
			mig = append(mig, f.V)
		}
	}
	sort.Strings(mig)
	sort.Strings(cks)
	after := func(v string) []string {
		var out []string
		for _, m := range mig {
			if m > v {
				out = append(out, m)
			}
		}
		return out
	}
	fin := func(p []string) Outcome {
		if len(p) == 0 {
			return Outcome{Class: "no-pending"}
		}
		return Outcome{Class: "ok", Pending: p}
	}
	if len(c.Revs) == 0 {
		if c.Dirty && !c.AllowDirty && c.Baseline == "" {
			return Outcome{Class: "not-clean"}
		}
		if c.Baseline != "" {
			found := false
			for _, m := range mig {
				if m == c.Baseline {
					found = true
				}
			}
			if !found {
				return Outcome{Class: "baseline-not-found"}
			}
			o := fin(after(c.Baseline))
			o.BaselineRev = c.Baseline
			return o
		}
		if len(cks) > 0 {
			ck := cks[len(cks)-1]
			return fin(append([]string{ck}, after(ck)...))
		}
		return fin(append([]string(nil), mig...))
	}
	applied := map[string]bool{}
	for _, r := range c.Revs {
		applied[r.V] = true
	}
	first, last := c.Revs[0].V, c.Revs[len(c.Revs)-1]
	var start []string
	if last.Partial {
		switch {
		case !have[last.V] && len(mig) == 0:
			// the documentation is silent about a partially applied revision whose file
			// is gone in a directory without migration files.
			return Outcome{Class: "unspecified"}
		case !have[last.V]:
			return Outcome{Class: "missing-migration"}
		case isCk[last.V]:
			return fin(append([]string{last.V}, after(last.V)...))
		}
		start = []string{last.V}
	}
	newer := after(last.V)
	var ooo []string
	for _, m := range mig {
		if m >= first && m < last.V && !applied[m] {
			ooo = append(ooo, m)
		}
	}
	pend := append(start, newer...)
	switch c.Order {
	case 0:
		if len(ooo) > 0 {
			return Outcome{Class: "non-linear", OutOfOrder: ooo, Pending: pend}
		}
	case 2:
		pend = append(append([]string(nil), ooo...), pend...)
	}
	return fin(pend)
}
