// Package c11: pending-file computation follows the documented semantics for every history.
package c11

import (
	"context"
	"encoding/json"
	"errors"
	"fmt"
	"reflect"
	"strings"
	"verif/clih"

	"ariga.io/atlas/sql/migrate"

	"verif/engine/enum"
	"verif/engine/report"
	"verif/mighelp"
)

func buildDir(c Config) (*migrate.MemDir, error) {
	d := &migrate.MemDir{}
	for _, f := range c.Files {
		name := f.V + "_f.sql"
		body := fmt.Sprintf("S_%s_1;\nS_%s_2;\n", f.V, f.V)
		var err error
		if f.Ck {
			// every other checkpoint carries a delimiter directive: the writer keeps that directive on
			// line 1, so the checkpoint directive is the second line of the header.
			if v := f.V[len(f.V)-1]; (v-'0')%2 == 0 {
				body = "-- atlas:delimiter ;\n\n" + body
			}
			err = d.WriteCheckpoint(name, "", []byte(body))
		} else {
			err = d.WriteFile(name, []byte(body))
		}
		if err != nil {
			return nil, err
		}
	}
	sum, err := d.Checksum()
	if err != nil {
		return nil, err
	}
	return d, migrate.WriteSumFile(d, sum)
}

func buildStore(c Config, dir *migrate.MemDir, baselineFirst bool) *mighelp.Store {
	s := mighelp.NewStore()
	// cumulative statement hashes as the executor computes them, taken from a real run.
	for i, r := range c.Revs {
		rev := &migrate.Revision{Version: r.V, Description: "f", Type: migrate.RevisionTypeExecute, Applied: 2, Total: 2}
		if r.Partial {
			rev.Applied = 1
			rev.PartialHashes = []string{"h1:" + partialHash(r.V)}
			if !r.Died {
				rev.Error = "boom"
			}
		}
		if i == 0 && baselineFirst && !r.Partial {
			rev.Type = migrate.RevisionTypeBaseline
			rev.Applied, rev.Total = 0, 0
		}
		s.Revs[r.V] = rev
	}
	return s
}

var phCache = map[string]string{}

// partialHash obtains the executor's own hash of the first statement of file v by
// running the real executor on a one-file directory and failing statement 2.
func partialHash(v string) string {
	return phCache[v]
}

func init() {
	for _, v := range []string{"1", "2", "3", "4", "5", "6"} {
		for _, ck := range []bool{false} {
			d, _ := buildDir(Config{Files: []FileSpec{{v, ck}}})
			st := mighelp.NewStore()
			drv := &mighelp.Driver{OnExec: func(q string) error {
				if strings.HasSuffix(strings.TrimSuffix(q, ";"), "_2") {
					return errors.New("x")
				}
				return nil
			}}
			ex, _ := migrate.NewExecutor(drv, d, st)
			ex.ExecuteN(context.Background(), 0)
			if r := st.Revs[v]; r != nil && len(r.PartialHashes) == 1 {
				phCache[v] = strings.TrimPrefix(r.PartialHashes[0], "h1:")
			}
		}
	}
}

func versions(fs []migrate.File) []string {
	var out []string
	for _, f := range fs {
		out = append(out, f.Version())
	}
	return out
}

// observe calls the real Executor.Pending and classifies the result.
func observe(c Config, baselineFirst bool) (o Outcome, store *mighelp.Store, dir *migrate.MemDir, err error) {
	dir, err = buildDir(c)
	if err != nil {
		return
	}
	store = buildStore(c, dir, baselineFirst)
	drv := &mighelp.Driver{Dirty: c.Dirty, OnExec: func(string) error { return errors.New("verif: Pending must not execute") }}
	var opts []migrate.ExecutorOption
	opts = append(opts, migrate.WithExecOrder(migrate.ExecOrder(c.Order)))
	if c.Baseline != "" {
		opts = append(opts, migrate.WithBaselineVersion(c.Baseline))
	}
	if c.AllowDirty {
		opts = append(opts, migrate.WithAllowDirty(true))
	}
	ex, err := migrate.NewExecutor(drv, dir, store, opts...)
	if err != nil {
		return
	}
	var files []migrate.File
	var perr error
	func() {
		defer func() {
			if p := recover(); p != nil {
				perr = fmt.Errorf("panic: %v", p)
				o.Class = "panic"
			}
		}()
		files, perr = ex.Pending(context.Background())
	}()
	var (
		nl  *migrate.HistoryNonLinearError
		mm  *migrate.MissingMigrationError
		ncl *migrate.NotCleanError
	)
	switch {
	case o.Class == "panic":
	case perr == nil:
		o.Class, o.Pending = "ok", versions(files)
	case errors.Is(perr, migrate.ErrNoPendingFiles):
		o.Class = "no-pending"
	case errors.As(perr, &nl):
		o.Class, o.OutOfOrder, o.Pending = "non-linear", versions(nl.OutOfOrder), versions(nl.Pending)
	case errors.As(perr, &mm):
		o.Class = "missing-migration"
	case errors.As(perr, &ncl):
		o.Class = "not-clean"
	case strings.Contains(perr.Error(), "baseline version") && strings.Contains(perr.Error(), "not found"):
		o.Class = "baseline-not-found"
	default:
		o.Class = "error: " + perr.Error()
	}
	if len(c.Revs) == 0 {
		for v, r := range store.Revs {
			if r.Type == migrate.RevisionTypeBaseline {
				o.BaselineRev = v
			} else {
				o.Class += "+unexpected-revision-written"
			}
		}
	}
	return
}

func same(a, b Outcome) bool {
	norm := func(s []string) []string {
		if len(s) == 0 {
			return nil
		}
		return s
	}
	return a.Class == b.Class && reflect.DeepEqual(norm(a.Pending), norm(b.Pending)) &&
		reflect.DeepEqual(norm(a.OutOfOrder), norm(b.OutOfOrder)) && a.BaselineRev == b.BaselineRev
}

// eval judges one configuration; returns problems and whether the model was unspecified.
func eval(c Config) (problems []string, got Outcome, unspecified bool) {
	want := refPending(c)
	got, store, dir, err := observe(c, false)
	if err != nil {
		return []string{"harness: " + err.Error()}, got, false
	}
	if want.Class == "unspecified" {
		if got.Class == "panic" {
			return []string{"Pending panicked"}, got, true
		}
		return nil, got, true
	}
	if !same(want, got) {
		problems = append(problems, fmt.Sprintf("Pending: got %+v, documented %+v", got, want))
		return
	}
	// the type of the first revision (baseline or executed) must not matter.
	if len(c.Revs) > 0 && !c.Revs[0].Partial {
		if got2, _, _, _ := observe(c, true); !same(got, got2) {
			problems = append(problems, fmt.Sprintf("first revision of type baseline changes the decision: %+v vs %+v", got2, got))
		}
	}
	// apply-with-count executes exactly the first n pending files (partial file: its remaining statement).
	if got.Class == "ok" {
		for n := 0; n <= len(got.Pending); n++ {
			st := mighelp.NewStore()
			st.Revs = store.Clone()
			var execs []string
			drv := &mighelp.Driver{Dirty: c.Dirty, OnExec: func(q string) error { execs = append(execs, strings.TrimSuffix(q, ";")); return nil }}
			opts := []migrate.ExecutorOption{migrate.WithExecOrder(migrate.ExecOrder(c.Order))}
			if c.AllowDirty {
				opts = append(opts, migrate.WithAllowDirty(true))
			}
			// the baseline revision has been recorded by the Pending call above; a second
			// call sees a non-empty history, as the CLI does.
			if c.Baseline != "" && len(c.Revs) > 0 {
				opts = append(opts, migrate.WithBaselineVersion(c.Baseline))
			}
			ex, err := migrate.NewExecutor(drv, dir, st, opts...)
			if err != nil {
				problems = append(problems, "harness: "+err.Error())
				break
			}
			var xerr error
			func() {
				defer func() {
					if p := recover(); p != nil {
						xerr = fmt.Errorf("panic: %v", p)
					}
				}()
				xerr = ex.ExecuteN(context.Background(), n)
			}()
			if xerr != nil {
				problems = append(problems, fmt.Sprintf("ExecuteN(%d): %v", n, xerr))
				break
			}
			k := n
			if n == 0 {
				k = len(got.Pending)
			}
			var wantExec []string
			for _, v := range got.Pending[:k] {
				part := false
				for _, r := range c.Revs {
					if r.V == v && r.Partial {
						part = true
					}
				}
				if !part {
					wantExec = append(wantExec, "S_"+v+"_1")
				}
				wantExec = append(wantExec, "S_"+v+"_2")
			}
			if !reflect.DeepEqual(execs, wantExec) {
				problems = append(problems, fmt.Sprintf("ExecuteN(%d) executed %v, want %v (first %d of pending %v)", n, execs, wantExec, k, got.Pending))
				break
			}
			// afterwards none of the executed versions may be pending again, and the rest is exactly what remains.
			ex2, _ := migrate.NewExecutor(drv, dir, st, opts...)
			rest, rerr := ex2.Pending(context.Background())
			var nl *migrate.HistoryNonLinearError
			if rerr != nil && !errors.Is(rerr, migrate.ErrNoPendingFiles) && !errors.As(rerr, &nl) {
				problems = append(problems, fmt.Sprintf("Pending after ExecuteN(%d): %v", n, rerr))
				break
			}
			if nl != nil {
				rest = nl.Pending
			}
			done := map[string]bool{}
			for _, v := range got.Pending[:k] {
				done[v] = true
			}
			for _, v := range versions(rest) {
				if done[v] {
					problems = append(problems, fmt.Sprintf("after ExecuteN(%d) version %s is pending again", n, v))
				}
			}
			if c.Order != 2 || k == len(got.Pending) {
				// (in non-linear order remaining out-of-order files stay pending: checked by the model on the next state in the CLI BFS)
				wantRest := got.Pending[k:]
				if nl == nil && !reflect.DeepEqual(append([]string(nil), versions(rest)...), append([]string(nil), wantRest...)) && !(len(rest) == 0 && len(wantRest) == 0) {
					if c.Order != 2 {
						problems = append(problems, fmt.Sprintf("after ExecuteN(%d) pending is %v, want %v", n, versions(rest), wantRest))
					}
				}
			}
		}
	}
	problems = append(problems, evalExecuteTo(c, store, dir)...)
	return
}

// pendingClass classifies a Pending result the way observe does (without the store inspection).
func pendingClass(files []migrate.File, perr error) Outcome {
	var (
		o   Outcome
		nl  *migrate.HistoryNonLinearError
		mm  *migrate.MissingMigrationError
		ncl *migrate.NotCleanError
	)
	switch {
	case perr == nil:
		o.Class, o.Pending = "ok", versions(files)
	case errors.Is(perr, migrate.ErrNoPendingFiles):
		o.Class = "no-pending"
	case errors.As(perr, &nl):
		o.Class, o.OutOfOrder, o.Pending = "non-linear", versions(nl.OutOfOrder), versions(nl.Pending)
	case errors.As(perr, &mm):
		o.Class = "missing-migration"
	case errors.As(perr, &ncl):
		o.Class = "not-clean"
	default:
		o.Class = "error: " + perr.Error()
	}
	return o
}

// evalExecuteTo: ExecuteTo(v) for every version v of the directory (and a missing one). Two oracles:
// (1) "all pending files up to and including v" - with a checkpoint after v, pending is decided on the
// directory truncated at v; (2) the executor keeps no state: after ExecuteTo returned (either way), the
// same executor's Pending equals that of a fresh executor over the same directory and history.
func evalExecuteTo(c Config, store0 *mighelp.Store, dir *migrate.MemDir) (problems []string) {
	targets := []string{"9"}
	for _, f := range c.Files {
		targets = append(targets, f.V)
	}
	for _, v := range targets {
		st := mighelp.NewStore()
		st.Revs = store0.Clone()
		var execs []string
		drv := &mighelp.Driver{Dirty: c.Dirty, OnExec: func(q string) error { execs = append(execs, strings.TrimSuffix(q, ";")); return nil }}
		opts := []migrate.ExecutorOption{migrate.WithExecOrder(migrate.ExecOrder(c.Order))}
		if c.AllowDirty {
			opts = append(opts, migrate.WithAllowDirty(true))
		}
		if c.Baseline != "" {
			opts = append(opts, migrate.WithBaselineVersion(c.Baseline))
		}
		ex, err := migrate.NewExecutor(drv, dir, st, opts...)
		if err != nil {
			return []string{"harness: " + err.Error()}
		}
		var xerr error
		func() {
			defer func() {
				if p := recover(); p != nil {
					xerr = fmt.Errorf("panic: %v", p)
				}
			}()
			xerr = ex.ExecuteTo(context.Background(), v)
		}()
		if xerr != nil && strings.HasPrefix(xerr.Error(), "panic:") {
			problems = append(problems, fmt.Sprintf("ExecuteTo(%s): %v", v, xerr))
			continue
		}
		// (1) the documented decision.
		idx, ckAfter := -1, false
		for i, f := range c.Files {
			if f.V == v {
				idx = i
			}
		}
		if idx >= 0 {
			for _, f := range c.Files[idx+1:] {
				ckAfter = ckAfter || f.Ck
			}
		}
		cc := c
		// the baseline revision may have been recorded by the earlier Pending call of eval.
		if c.Baseline != "" && len(c.Revs) == 0 && len(store0.Revs) > 0 {
			cc.Revs = []RevSpec{{V: c.Baseline}}
			cc.Baseline = ""
		}
		if ckAfter {
			cc.Files = append([]FileSpec(nil), c.Files[:idx+1]...)
		}
		want := refPending(cc)
		var wantExec []string
		wantErr := idx < 0 || want.Class != "ok"
		if !wantErr {
			cut := -1
			for i, pv := range want.Pending {
				if pv == v {
					cut = i
				}
			}
			switch {
			case ckAfter:
				cut = len(want.Pending) - 1
			case cut < 0:
				wantErr = true
			}
			if !wantErr {
				for _, pv := range want.Pending[:cut+1] {
					part := false
					for _, r := range cc.Revs {
						if r.V == pv && r.Partial {
							part = true
						}
					}
					if !part {
						wantExec = append(wantExec, "S_"+pv+"_1")
					}
					wantExec = append(wantExec, "S_"+pv+"_2")
				}
			}
		}
		if want.Class != "unspecified" {
			switch {
			case wantErr && xerr == nil:
				problems = append(problems, fmt.Sprintf("ExecuteTo(%s) succeeded (executed %v); the documented decision %+v leaves nothing to run up to %s", v, execs, want, v))
			case !wantErr && xerr != nil:
				problems = append(problems, fmt.Sprintf("ExecuteTo(%s) failed: %v; documented: run %v", v, xerr, wantExec))
			case !wantErr && !reflect.DeepEqual(execs, wantExec):
				problems = append(problems, fmt.Sprintf("ExecuteTo(%s) executed %v, want %v", v, execs, wantExec))
			case wantErr && len(execs) > 0:
				problems = append(problems, fmt.Sprintf("ExecuteTo(%s) failed (%v) after executing %v", v, xerr, execs))
			}
		}
		// (2) no state is kept in the executor.
		var a, b Outcome
		func() {
			defer func() {
				if p := recover(); p != nil {
					a.Class = fmt.Sprintf("panic: %v", p)
				}
			}()
			a = pendingClass(ex.Pending(context.Background()))
		}()
		fresh, _ := migrate.NewExecutor(drv, dir, st, opts...)
		func() {
			defer func() {
				if p := recover(); p != nil {
					b.Class = fmt.Sprintf("panic: %v", p)
				}
			}()
			b = pendingClass(fresh.Pending(context.Background()))
		}()
		if !same(a, b) {
			problems = append(problems, fmt.Sprintf("after ExecuteTo(%s) (err=%v) the same executor decides %+v, a fresh executor %+v", v, xerr, a, b))
		}
	}
	return
}

func configs(n int, f func(Config)) {
	// files: each version absent / migration / checkpoint
	univ := make([]string, n)
	for i := range univ {
		univ[i] = fmt.Sprint(i + 1)
	}
	dims := make([]int, n)
	for i := range dims {
		dims[i] = 3
	}
	enum.Product(dims, func(ft []int) {
		var files []FileSpec
		for i, t := range ft {
			if t > 0 {
				files = append(files, FileSpec{univ[i], t == 2})
			}
		}
		for mask := 0; mask < 1<<n; mask++ {
			var revs []RevSpec
			for i := 0; i < n; i++ {
				if mask&(1<<i) != 0 {
					revs = append(revs, RevSpec{V: univ[i]})
				}
			}
			for partial := 0; partial < 3; partial++ {
				if partial >= 1 && len(revs) == 0 {
					continue
				}
				rv := append([]RevSpec(nil), revs...)
				if partial >= 1 {
					rv[len(rv)-1].Partial = true
					rv[len(rv)-1].Died = partial == 2
				}
				for order := 0; order < 3; order++ {
					opts := []struct {
						b string
						a bool
					}{{"", false}, {"", true}}
					for _, v := range univ {
						opts = append(opts, struct {
							b string
							a bool
						}{v, false})
					}
					for _, o := range opts {
						for dirty := 0; dirty < 2; dirty++ {
							if len(rv) > 0 && (dirty == 1 || o.a) && order != 0 {
								continue // with a history these flags are irrelevant; enumerated once (order 0)
							}
							f(Config{Files: files, Revs: rv, Order: order, Baseline: o.b, AllowDirty: o.a, Dirty: dirty == 1})
						}
					}
				}
			}
		}
	})
}

func Run(r *report.Run) {
	n := 4
	if r.Tier == "thorough" {
		n = 5
	}
	r.Rule = fmt.Sprintf("version universe 1..%d; every directory (each version absent / migration file / checkpoint file; the checkpoints of even versions carry a delimiter directive, so that their checkpoint directive is the second header line) x every revision table (any subset of the universe fully applied, last one optionally partial 1/2, recorded with or without an error text) x exec-order {linear, linear-skip, non-linear} x {no option, allow-dirty, baseline=v for every v} x {clean, dirty}; real Executor.Pending on MemDir compared with the set-based reference model refPending; then ExecuteN(n) for every n and ExecuteTo(v) for every version v on the real Executor (ExecuteTo also: the executor afterwards decides like a fresh one); plus a BFS (depth 4, thorough 5) over CLI histories on a real SQLite file with the alphabet {add file, add file whose 2nd statement fails, add checkpoint file, add a file holding comments only, add out-of-order file, apply, apply 1, apply --exec-order non-linear / linear-skip (by flag and through the project file's migration block), set 1..4 (incl. a version lying in a gap of the recorded history), fix the failing file, fix it and append a statement, remove the newest file}: in the reached state `migrate status` must report the pending/out-of-order files of the reference model fed with the actual revision rows, `migrate apply [n]` must execute exactly the statements the decision implies (journal table written by the statements) and leave a complete revision for every file it covered, and after `migrate set v` nothing up to v may be pending; plus one `migrate apply --env` run over two (three) env blocks of the same name, every combination of baseline and exec_order per block: each database must get the history a run of its own gives it; plus versions that begin with a sign, a dot or a blank (they sort before every digit and letter): applied by `migrate apply 1`, they are history for `migrate status` and the next `migrate apply`; non-trivial = configuration with a non-empty directory and a decision other than plain 'all files'; distinct by construction", n)
	r.Assumptions = []string{
		"versions are fixed-width digit strings so name order and version order coincide",
		"every file has two statements; a partial revision has Applied=1 of 2 with the executor's own partial hash",
		"documentation is silent for a partial revision whose file is missing in a directory without migration files: counted as unspecified, only 'no panic' is required",
	}
	var cfgs []Config
	configs(n, func(c Config) { cfgs = append(cfgs, c) })
	classes := map[string]int{}
	type res struct {
		p      []string
		got    Outcome
		unspec bool
	}
	out := make([]res, len(cfgs))
	enum.Parallel(len(cfgs), func(i, _ int) {
		p, g, u := eval(cfgs[i])
		out[i] = res{p, g, u}
	})
	unspec := 0
	for i, c := range cfgs {
		o := out[i]
		r.CaseDistinct(len(c.Files) > 0 && (len(c.Revs) > 0 || c.Baseline != "" || c.Dirty || hasCk(c)))
		classes[strings.SplitN(o.got.Class, ":", 2)[0]]++
		if o.unspec {
			unspec++
		}
		if len(o.p) > 0 {
			r.Violate("", fmt.Sprintf("%s: %s", cfgString(c), strings.Join(o.p, " | ")), c)
		}
		if len(c.Files) == 3 && len(c.Revs) == 2 && c.Revs[1].Partial && c.Order == 2 && hasCk(c) {
			r.Sample(map[string]any{"config": c, "decision": o.got})
		}
	}
	cliDepth := 4
	if r.Tier == "thorough" {
		cliDepth = 5
	}
	nt := RunTenants(r)
	r.Set("tenant_cases", nt)
	r.Set("odd_version_cases", RunOdd(r))
	cs, ct := RunCLI(r, cliDepth)
	r.Set("cli_bfs_depth", cliDepth)
	r.Set("cli_states", cs)
	r.Set("cli_transitions", ct)
	r.Set("outcome_classes", classes)
	r.Set("unspecified_by_documentation", unspec)
	r.Set("states", len(cfgs)+cs)
	r.Set("transitions", len(cfgs)+ct)
	r.Set("traces_validated_against_impl", len(cfgs)+ct)
}

func hasCk(c Config) bool {
	for _, f := range c.Files {
		if f.Ck {
			return true
		}
	}
	return false
}

func cfgString(c Config) string {
	b, _ := json.Marshal(c)
	return string(b)
}

func Replay(r *report.Run, raw json.RawMessage) {
	var cv struct {
		Case struct {
			History []cliOp `json:"cli_history"`
		}
	}
	if json.Unmarshal(raw, &cv) == nil && len(cv.Case.History) > 0 {
		r.Case("a", true)
		r.Case("b", true)
		ReplayCLI(r, cv.Case.History)
		return
	}
	var ov struct {
		Case struct {
			Odd *OddCase `json:"odd"`
		}
	}
	if json.Unmarshal(raw, &ov) == nil && ov.Case.Odd != nil {
		defer clih.Cleanup()
		r.Case("a", true)
		r.Case("b", true)
		if p := evalOdd(*ov.Case.Odd); len(p) > 0 {
			r.Violate("", strings.Join(p, " | "), map[string]any{"odd": ov.Case.Odd})
		}
		return
	}
	var tv struct {
		Case struct {
			Tenants *TenantCase `json:"tenants"`
		}
	}
	if json.Unmarshal(raw, &tv) == nil && tv.Case.Tenants != nil {
		defer clih.Cleanup()
		r.Case("a", true)
		r.Case("b", true)
		if p := evalTenants(*tv.Case.Tenants); len(p) > 0 {
			r.Violate("", strings.Join(p, " | "), map[string]any{"tenants": tv.Case.Tenants})
		}
		return
	}
	var v struct{ Case Config }
	if err := json.Unmarshal(raw, &v); err != nil {
		r.Violate("", "bad replay file: "+err.Error(), nil)
		return
	}
	p, got, _ := eval(v.Case)
	fmt.Printf("  config %s\n  implementation: %+v\n  model: %+v\n", cfgString(v.Case), got, refPending(v.Case))
	r.Case("a", true)
	r.Case("b", true)
	if len(p) > 0 {
		r.Violate("", strings.Join(p, " | "), v.Case)
	}
}
