package c11

import (
	"encoding/json"
	"fmt"
	"os"
	"regexp"
	"sort"
	"strconv"
	"strings"

	"verif/clih"
	"verif/engine/enum"
	"verif/engine/report"
)

// ---------- CLI BFS: status, apply [n] with exec orders, set, on a real SQLite file ----------

type cliOp struct {
	Kind string `json:"kind"` // add | add_bad | add_ooo | apply | apply1 | apply_nonlinear | apply_skip | set | fix | remove_newest
	V    string `json:"v,omitempty"`
}

type fileState struct {
	bad   bool
	ck    bool // checkpoint file
	empty bool // comments only: nothing to execute, and still a migration file with a version
	grown bool // repaired with one more statement at its end than it had when it failed
}

type world struct {
	files map[string]*fileState // version -> state
}

func fileBody(v string, bad bool, first bool, ck bool) string {
	var b strings.Builder
	if ck {
		b.WriteString("-- atlas:checkpoint\n\n")
	}
	if first {
		b.WriteString("CREATE TABLE IF NOT EXISTS journal (sid integer NOT NULL);\n")
	}
	n, _ := strconv.Atoi(v)
	fmt.Fprintf(&b, "INSERT INTO journal (sid) VALUES (%d);\n", n*10+1)
	if bad {
		b.WriteString("INSERT INTO no_such_table VALUES (1);\n")
	} else {
		fmt.Fprintf(&b, "INSERT INTO journal (sid) VALUES (%d);\n", n*10+2)
	}
	return b.String()
}

func (w *world) versions() []string {
	var vs []string
	for v := range w.files {
		vs = append(vs, v)
	}
	sort.Strings(vs)
	return vs
}

func (w *world) write(wk *clih.Work) error {
	files := map[string]string{}
	for v, f := range w.files {
		// every file can create the journal table: any file may be the first one executed.
		files[v+"_f.sql"] = fileBody(v, f.bad, true, f.ck)
		if f.grown {
			n, _ := strconv.Atoi(v)
			files[v+"_f.sql"] += fmt.Sprintf("INSERT INTO journal (sid) VALUES (%d);\n", n*10+3)
		}
		if f.empty {
			files[v+"_f.sql"] = "-- nothing to do in this version\n"
		}
	}
	return wk.WriteDir("migrations", files)
}

type revRow struct {
	V              string
	Applied, Total int
	Err            bool
}

func readRevs(wk *clih.Work) ([]revRow, error) {
	revs, err := wk.Revisions("db.sqlite")
	if err != nil || revs == nil {
		return nil, err
	}
	var out []revRow
	for v, r := range revs {
		a, _ := strconv.Atoi(r[0])
		t, _ := strconv.Atoi(r[1])
		out = append(out, revRow{v, a, t, r[2] != ""})
	}
	sort.Slice(out, func(i, j int) bool { return out[i].V < out[j].V })
	return out, nil
}

func journal(wk *clih.Work) (map[int]int, error) {
	out := map[int]int{}
	if _, err := os.Stat(wk.Path("db.sqlite")); err != nil {
		return out, nil
	}
	t, err := wk.Query("db.sqlite", "SELECT name FROM sqlite_master WHERE type='table' AND name='journal'")
	if err != nil || len(t) == 0 {
		return out, err
	}
	rows, err := wk.Query("db.sqlite", "SELECT sid FROM journal")
	if err != nil {
		return nil, err
	}
	for _, r := range rows {
		n, _ := strconv.Atoi(r[0])
		out[n]++
	}
	return out, nil
}

// config builds the reference-model input from the directory and the actual revision rows.
// ok=false: the history has a shape the documentation does not define (a partial revision that is not the last).
func config(w *world, revs []revRow, order int) (Config, bool) {
	c := Config{Order: order}
	for _, v := range w.versions() {
		c.Files = append(c.Files, FileSpec{V: v, Ck: w.files[v].ck})
	}
	for i, r := range revs {
		partial := r.Applied != r.Total
		if partial && i != len(revs)-1 {
			return c, false
		}
		c.Revs = append(c.Revs, RevSpec{V: r.V, Partial: partial})
	}
	return c, true
}

type statusOut struct {
	Pending    []struct{ Name, Version string }
	OutOfOrder []struct{ Name, Version string }
	Status     string
	Error      string
}

func orderFlag(kind string) (int, string) {
	switch kind {
	case "apply_nonlinear", "apply_nonlinear_cfg":
		return 2, "non-linear"
	case "apply_skip", "apply_skip_cfg":
		return 1, "linear-skip"
	}
	return 0, "linear"
}

// runHistory replays ops on a fresh work dir and checks every step; returns problems and the canonical state.
func runHistory(ops []cliOp) (problems []string, canon string, applicable bool) {
	bad := func(f string, a ...any) { problems = append(problems, fmt.Sprintf(f, a...)) }
	wk, err := clih.NewWork()
	if err != nil {
		return []string{"harness: " + err.Error()}, "", true
	}
	defer wk.Close()
	w := &world{files: map[string]*fileState{}}
	dirURL, dbURL := "file://"+wk.Path("migrations"), wk.URL("db.sqlite")
	if err := w.write(wk); err != nil {
		return []string{"harness: " + err.Error()}, "", true
	}
	for step, op := range ops {
		vs := w.versions()
		max := 0
		if len(vs) > 0 {
			max, _ = strconv.Atoi(vs[len(vs)-1])
		}
		last := step == len(ops)-1
		switch op.Kind {
		case "add", "add_bad", "add_ck", "add_empty":
			w.files[strconv.Itoa(max+2)] = &fileState{bad: op.Kind == "add_bad", ck: op.Kind == "add_ck", empty: op.Kind == "add_empty"}
			if max+2 > 8 {
				return nil, "", false
			}
			w.write(wk)
		case "start_two_applied":
			// shortcut for [add, add, apply] from the empty world (keeps gap histories within the depth bound).
			if len(vs) != 0 {
				return nil, "", false
			}
			w.files["2"], w.files["4"] = &fileState{}, &fileState{}
			w.write(wk)
			if res := wk.Run(nil, "migrate", "apply", "--dir", dirURL, "--url", dbURL, "--tx-mode", "none", "--lock-timeout", "1ms"); res.Exit != 0 {
				return []string{"harness: start_two_applied: " + res.String()}, "", true
			}
		case "add_ooo", "add_ooo_bad":
			v := strconv.Itoa(max - 1)
			if max < 2 || w.files[v] != nil {
				return nil, "", false
			}
			w.files[v] = &fileState{bad: op.Kind == "add_ooo_bad"}
			w.write(wk)
		case "fix", "fix_grow":
			any := false
			for _, f := range w.files {
				if f.bad {
					f.bad, any = false, true
					f.grown = op.Kind == "fix_grow"
				}
			}
			if !any {
				return nil, "", false
			}
			w.write(wk)
		case "remove_newest":
			if len(vs) == 0 {
				return nil, "", false
			}
			delete(w.files, vs[len(vs)-1])
			w.write(wk)
		case "set":
			if w.files[op.V] == nil {
				return nil, "", false
			}
			res := wk.Run(nil, "migrate", "set", op.V, "--dir", dirURL, "--url", dbURL)
			if res.Exit != 0 {
				if last {
					bad("`migrate set %s` failed: %s", op.V, res)
				}
				break
			}
			revs, err := readRevs(wk)
			if err != nil {
				return []string{"harness: " + err.Error()}, "", true
			}
			if last {
				have := map[string]revRow{}
				for _, r := range revs {
					have[r.V] = r
					if r.V > op.V {
						bad("after `migrate set %s` a revision for the later version %s remains", op.V, r.V)
					}
				}
				// the versions up to v that the history says were (or now are) applied must be complete.
				if r, ok := have[op.V]; !ok {
					bad("after `migrate set %s` there is no revision for %s", op.V, op.V)
				} else if r.Applied != r.Total {
					// what matters is that status and apply treat it as done - checked below through Pending.
					_ = r
				}
				// status and apply must now agree that nothing <= v is pending and everything > v is.
				cfgAfter, _ := config(w, revs, 0)
				_ = cfgAfter
				st := status(wk, dirURL, dbURL)
				// the documented decision for the ideal history "every file up to v applied".
				ideal := Config{Order: 0}
				for _, v := range w.versions() {
					ideal.Files = append(ideal.Files, FileSpec{V: v, Ck: w.files[v].ck})
					if v <= op.V {
						ideal.Revs = append(ideal.Revs, RevSpec{V: v})
					}
				}
				want := refPending(ideal).Pending
				var got []string
				for _, p := range st.Pending {
					got = append(got, p.Version)
				}
				if len(st.OutOfOrder) == 0 && fmt.Sprint(got) != fmt.Sprint(want) {
					bad("after `migrate set %s` status reports pending %v; with everything up to %s set as applied the pending files are %v", op.V, got, op.V, want)
				}
			}
		default: // apply variants
			order, flag := orderFlag(op.Kind)
			revs, err := readRevs(wk)
			if err != nil {
				return []string{"harness: " + err.Error()}, "", true
			}
			cfg, ok := config(w, revs, order)
			before, err := journal(wk)
			if err != nil {
				return []string{"harness: " + err.Error()}, "", true
			}
			args := []string{"migrate", "apply"}
			n := 0
			if op.Kind == "apply1" {
				n = 1
				args = append(args, "1")
			}
			if strings.HasSuffix(op.Kind, "_cfg") {
				// the execution order comes from the project file, not from a flag.
				hcl := fmt.Sprintf("env \"e\" {\n  url = %q\n  migration {\n    dir = %q\n    exec_order = %s\n  }\n}\n", dbURL, dirURL,
					map[string]string{"non-linear": "NON_LINEAR", "linear-skip": "LINEAR_SKIP"}[flag])
				os.WriteFile(wk.Path("atlas.hcl"), []byte(hcl), 0o644)
				args = append(args, "--env", "e", "-c", "file://"+wk.Path("atlas.hcl"), "--tx-mode", "none", "--lock-timeout", "1ms")
			} else {
				args = append(args, "--dir", dirURL, "--url", dbURL, "--tx-mode", "none", "--exec-order", flag, "--lock-timeout", "1ms")
			}
			res := wk.Run(nil, args...)
			if last && strings.Contains(res.Stderr, "panic:") {
				bad("`migrate apply` panicked: %s", res)
			}
			after, err := journal(wk)
			if err != nil {
				return []string{"harness: " + err.Error()}, "", true
			}
			if !ok || !last {
				break
			}
			want := refPending(cfg)
			if want.Class == "unspecified" {
				// the documentation is silent here (see model.go); only "no crash" is required.
				if res.Exit > 1 || strings.Contains(res.Stderr, "panic:") {
					bad("`migrate apply` crashed: %s", res)
				}
				break
			}
			// expected executions per the documented decision.
			expect := map[int]int{}
			for k, v := range before {
				expect[k] = v
			}
			wantFail := false
			switch want.Class {
			case "ok":
				files := want.Pending
				if n > 0 && n < len(files) {
					files = files[:n]
				}
				for _, v := range files {
					vi, _ := strconv.Atoi(v)
					partial := false
					for _, r := range cfg.Revs {
						if r.V == v && r.Partial {
							partial = true
						}
					}
					if w.files[v].empty {
						if partial {
							// a file whose first statements were applied was replaced by one that holds
							// none: its applied part has changed, the run is refused (property C12).
							wantFail = true
							break
						}
						continue
					}
					if !partial {
						expect[vi*10+1]++
					}
					if w.files[v].bad {
						wantFail = true
						break
					}
					expect[vi*10+2]++
					if w.files[v].grown {
						expect[vi*10+3]++
					}
				}
			case "non-linear":
				wantFail = true
			case "no-pending":
			default:
				wantFail = true
			}
			if fmt.Sprint(after) != fmt.Sprint(expect) {
				bad("`%s` executed statements %v (journal before %v, after %v); the documented decision %+v implies journal %v", strings.Join(args[1:3], " ")+" --exec-order "+flag, diffJournal(before, after), before, after, want, expect)
			}
			if wantFail != (res.Exit != 0) {
				bad("`migrate apply` exit=%d, expected failure=%v for decision %+v: %s", res.Exit, wantFail, want, res)
			}
			if want.Class == "ok" && !wantFail && res.Exit == 0 {
				// every file of the decision that this run covers has its revision afterwards.
				files := want.Pending
				if n > 0 && n < len(files) {
					files = files[:n]
				}
				revs, _ := readRevs(wk)
				for _, v := range files {
					found := false
					for _, rr := range revs {
						found = found || (rr.V == v && rr.Applied == rr.Total)
					}
					if !found {
						bad("`migrate apply` succeeded over %v but version %s has no complete revision afterwards (revisions %v)", files, v, revs)
					}
				}
			}
		}
		// invariant of every reached state: status agrees with the documented decision (linear order).
		if last {
			revs, err := readRevs(wk)
			if err != nil {
				return []string{"harness: " + err.Error()}, "", true
			}
			// a partially applied file that is not the newest revision (an out-of-order file that failed
			// under non-linear order): "the partially applied file first" - it must at least stay pending.
			// (`migrate set v` declares everything up to v applied: a partial row at or below a version
			// that was set later in the history is a left-over, not a file to resume.)
			setUpTo := 0
			for _, o := range ops {
				if o.Kind == "set" {
					if n, _ := strconv.Atoi(o.V); n > setUpTo {
						setUpTo = n
					}
				}
			}
			for i, r := range revs {
				if rv, _ := strconv.Atoi(r.V); rv <= setUpTo {
					continue
				}
				if r.Applied != r.Total && i != len(revs)-1 && w.files[r.V] != nil && op.Kind != "set" {
					st := status(wk, dirURL, dbURL)
					found := false
					for _, p := range st.Pending {
						found = found || p.Version == r.V
					}
					if !found {
						bad("version %s is partially applied (%d/%d) but status does not list it as pending (pending %v)", r.V, r.Applied, r.Total, st.Pending)
					}
				}
			}
			if cfg, ok := config(w, revs, 0); ok && op.Kind != "set" {
				want := refPending(cfg)
				st := status(wk, dirURL, dbURL)
				var got, ooo []string
				for _, p := range st.Pending {
					got = append(got, p.Version)
				}
				for _, p := range st.OutOfOrder {
					ooo = append(ooo, p.Version)
				}
				switch want.Class {
				case "ok", "no-pending", "non-linear":
					if fmt.Sprint(got) != fmt.Sprint(want.Pending) || fmt.Sprint(ooo) != fmt.Sprint(want.OutOfOrder) {
						bad("status reports pending %v out-of-order %v; the documented decision is %+v", got, ooo, want)
					}
				}
			}
			// canonical state: directory (with file kinds) + every column of the revision rows the
			// executor reads back (type and partial hashes included: `migrate set` changes only those).
			revs2, _ := readRevs(wk)
			extra := ""
			if _, err := os.Stat(wk.Path("db.sqlite")); err == nil {
				if rows, err := wk.Query("db.sqlite", "SELECT version, type, length(partial_hashes) > 4 FROM atlas_schema_revisions ORDER BY version"); err == nil {
					extra = fmt.Sprint(rows)
				}
			}
			canon = fmt.Sprintf("%v|%v|%s", w.versionsWithKind(), revs2, extra)
		}
	}
	return problems, canon, true
}

func (w *world) versionsWithKind() []string {
	var out []string
	for _, v := range w.versions() {
		k := v
		if w.files[v].bad {
			k += "!"
		}
		if w.files[v].ck {
			k += "c"
		}
		if w.files[v].empty {
			k += "e"
		}
		if w.files[v].grown {
			k += "g"
		}
		out = append(out, k)
	}
	return out
}

func diffJournal(before, after map[int]int) []int {
	var out []int
	for k, n := range after {
		for i := before[k]; i < n; i++ {
			out = append(out, k)
		}
	}
	sort.Ints(out)
	return out
}

func status(wk *clih.Work, dirURL, dbURL string) statusOut {
	res := wk.Run(nil, "migrate", "status", "--dir", dirURL, "--url", dbURL, "--format", "{{ json . }}")
	var st statusOut
	json.Unmarshal([]byte(res.Stdout), &st)
	return st
}

func cliAlphabet() []cliOp {
	return []cliOp{{Kind: "start_two_applied"}, {Kind: "add"}, {Kind: "add_bad"}, {Kind: "add_ck"}, {Kind: "add_empty"}, {Kind: "add_ooo"}, {Kind: "add_ooo_bad"}, {Kind: "apply"}, {Kind: "apply1"}, {Kind: "apply_nonlinear"}, {Kind: "apply_skip"}, {Kind: "apply_nonlinear_cfg"}, {Kind: "apply_skip_cfg"},
		{Kind: "set", V: "1"}, {Kind: "set", V: "2"}, {Kind: "set", V: "3"}, {Kind: "set", V: "4"}, {Kind: "fix"}, {Kind: "fix_grow"}, {Kind: "remove_newest"}}
}

// RunCLI is the BFS over CLI histories; returns states, transitions.
func RunCLI(r *report.Run, depth int) (states, transitions int) {
	defer clih.Cleanup()
	type node struct{ ops []cliOp }
	frontier := []node{{nil}}
	seen := map[string]bool{}
	for d := 1; d <= depth; d++ {
		var hist [][]cliOp
		for _, n := range frontier {
			for _, o := range cliAlphabet() {
				hist = append(hist, append(append([]cliOp(nil), n.ops...), o))
			}
		}
		type res struct {
			problems []string
			canon    string
			ok       bool
		}
		out := make([]res, len(hist))
		enum.Parallel(len(hist), func(i, _ int) {
			p, c, ok := runHistory(hist[i])
			out[i] = res{p, c, ok}
		})
		var next []node
		for i, o := range out {
			if !o.ok {
				continue
			}
			transitions++
			r.Case("cli|"+fmt.Sprint(hist[i]), true)
			if len(o.problems) > 0 {
				r.Violate(classifyCLI(hist[i], o.problems), fmt.Sprintf("CLI history %v: %s", histString(hist[i]), strings.Join(o.problems, " | ")), map[string]any{"cli_history": hist[i]})
			}
			if !seen[o.canon] {
				seen[o.canon] = true
				states++
				next = append(next, node{hist[i]})
			}
		}
		frontier = next
	}
	return
}

func histString(h []cliOp) string {
	var out []string
	for _, o := range h {
		s := o.Kind
		if o.V != "" {
			s += " " + o.V
		}
		out = append(out, s)
	}
	return "[" + strings.Join(out, ", ") + "]"
}

var reSetPartial = regexp.MustCompile("^after `migrate set (\\d+)` status reports pending \\[(\\d+)[ \\]]")

// classifyCLI: the listed finding is "`migrate set v` on a version whose revision is partially applied
// leaves it partial, so status/apply still treat v as pending" - the history must end with that set and
// the first pending version must be v itself.
var rePartialOOO = regexp.MustCompile(`^version \d+ is partially applied \(\d+/\d+\) but status does not list it as pending`)

func classifyCLI(h []cliOp, problems []string) string {
	allOOO := len(problems) > 0
	for _, p := range problems {
		allOOO = allOOO && rePartialOOO.MatchString(p)
	}
	if allOOO {
		for _, o := range h {
			if o.Kind == "add_ooo_bad" {
				return "partially-applied-out-of-order-file-is-never-resumed"
			}
		}
	}
	if len(h) == 0 || h[len(h)-1].Kind != "set" {
		return ""
	}
	for _, p := range problems {
		m := reSetPartial.FindStringSubmatch(p)
		if m == nil || m[1] != m[2] || m[1] != h[len(h)-1].V {
			return ""
		}
	}
	return "set-on-partially-applied-version-leaves-it-pending"
}

// ReplayCLI replays one CLI history.
func ReplayCLI(r *report.Run, h []cliOp) {
	defer clih.Cleanup()
	p, canon, ok := runHistory(h)
	fmt.Printf("  CLI history %s applicable=%v state=%s\n", histString(h), ok, canon)
	if len(p) > 0 {
		r.Violate(classifyCLI(h, p), strings.Join(p, " | "), map[string]any{"cli_history": h})
	}
}
