// Package c01: declarative apply converges (SQLite engine).
package c01

import (
	"context"
	"encoding/json"
	"fmt"
	"strings"
	"sync"
	"verif/clih"

	"ariga.io/atlas/sql/migrate"
	"ariga.io/atlas/sql/schema"
	"ariga.io/atlas/sql/sqlite"

	"verif/engine/enum"
	"verif/engine/report"
	"verif/sqliteh"
	"verif/universe/squ"
)

type Case struct {
	A        []string `json:"a"` // feature names of the current database
	B        []string `json:"b"` // feature names of the desired schema
	Spelling int      `json:"spelling"`
	// Exported: the desired HCL is what atlas itself exports for B (inspect B created by our DDL,
	// MarshalHCL) - the "inspect, edit, apply" workflow - instead of the HCL of our own writer.
	Exported bool `json:"exported,omitempty"`
	// View: the database also holds a view reading table t (an object this build does not manage).
	View bool `json:"view,omitempty"`
}

func stateOf(names []string) squ.State {
	var s squ.State
	for _, n := range names {
		for i, f := range squ.Features {
			if f.Name == n {
				s = append(s, i)
			}
		}
	}
	return s
}

type Result struct {
	Problems  []string
	Key       string
	Skipped   string // non-empty: case not applicable (engine rejects A or B)
	Stmts     []string
	Rebuild   bool
	NonEmpty  bool
	TwoTables bool
	ViewCase  bool
}

var indent = func(o *migrate.PlanOptions) { o.Indent = "  " }

func describeChanges(cs []schema.Change) string {
	var out []string
	for _, c := range cs {
		switch c := c.(type) {
		case *schema.ModifyTable:
			var in []string
			for _, cc := range c.Changes {
				in = append(in, fmt.Sprintf("%T", cc))
			}
			out = append(out, fmt.Sprintf("ModifyTable(%s: %s)", c.T.Name, strings.Join(in, ",")))
		case *schema.AddTable:
			out = append(out, "AddTable("+c.T.Name+")")
		case *schema.DropTable:
			out = append(out, "DropTable("+c.T.Name+")")
		default:
			out = append(out, fmt.Sprintf("%T", c))
		}
	}
	return strings.Join(out, "; ")
}

// Eval runs one (A,B) pair on fresh engines.
func Eval(ctx context.Context, c Case) (res Result) {
	bad := func(f string, a ...any) { res.Problems = append(res.Problems, fmt.Sprintf(f, a...)) }
	A, B := stateOf(c.A).Build(), stateOf(c.B).Build()
	res.ViewCase = c.View
	defer func() {
		if len(res.Problems) > 0 && res.Key == "" {
			res.Key = classify(A, B, res)
		}
	}()
	e, err := sqliteh.Open(ctx)
	if err != nil {
		bad("harness: %v", err)
		return
	}
	defer e.Close()
	if err := e.Exec(ctx, A.DDL(c.Spelling)...); err != nil {
		res.Skipped = "engine rejects A: " + err.Error()
		return
	}
	const viewDDL = "CREATE VIEW vt AS SELECT id FROM t"
	if c.View {
		if err := e.Exec(ctx, viewDDL); err != nil {
			res.Skipped = "engine rejects the view on A: " + err.Error()
			return
		}
	}
	// reference: B created by our own DDL on a fresh engine.
	ref, err := sqliteh.Open(ctx)
	if err != nil {
		bad("harness: %v", err)
		return
	}
	defer ref.Close()
	if err := ref.Exec(ctx, B.DDL(0)...); err != nil {
		res.Skipped = "engine rejects B: " + err.Error()
		return
	}
	if c.View {
		if err := ref.Exec(ctx, viewDDL); err != nil {
			res.Skipped = "engine rejects the view on B: " + err.Error()
			return
		}
	}
	defer func() {
		if p := recover(); p != nil {
			bad("panic: %v", p)
		}
	}()
	cur, err := e.Atlas.InspectRealm(ctx, nil)
	if err != nil {
		bad("inspect current: %v", err)
		return
	}
	hcl := B.HCL()
	if c.Exported {
		br, err := ref.Atlas.InspectRealm(ctx, nil)
		if err != nil {
			bad("inspect B: %v", err)
			return
		}
		b, err := sqlite.MarshalHCL.MarshalSpec(br)
		if err != nil {
			bad("export of B: %v", err)
			return
		}
		hcl = string(b)
	}
	desired := &schema.Realm{}
	if err := sqlite.EvalHCLBytes([]byte(hcl), desired, nil); err != nil {
		if c.Exported {
			bad("the desired state, written by atlas' own HCL export of database B, is rejected: %v\n%s", err, hcl)
		} else {
			bad("harness: desired HCL rejected: %v\n%s", err, hcl)
		}
		return
	}
	changes, err := e.Atlas.RealmDiff(cur, desired, schema.DiffNormalized())
	if err != nil {
		bad("diff: %v", err)
		return
	}
	res.NonEmpty = len(changes) > 0
	tabs := map[string]bool{}
	for _, ch := range changes {
		if m, ok := ch.(*schema.ModifyTable); ok {
			tabs[m.T.Name] = true
		}
	}
	res.TwoTables = len(tabs) > 1
	if len(changes) > 0 {
		plan, perr := e.Atlas.PlanChanges(ctx, "plan", changes, indent)
		if perr != nil {
			bad("planning failed: %v (changes: %s)", perr, describeChanges(changes))
			return
		}
		for _, ch := range plan.Changes {
			res.Stmts = append(res.Stmts, ch.Cmd)
			if strings.Contains(ch.Cmd, "`new_") {
				res.Rebuild = true
			}
		}
		tx, err := e.Atlas.Tx(ctx, nil)
		if err != nil {
			bad("harness: begin: %v", err)
			return
		}
		if err := tx.ApplyChanges(ctx, changes, indent); err != nil {
			tx.Rollback()
			bad("the engine rejected the plan: %v\n  plan: %s", err, strings.Join(res.Stmts, ";\n        "))
			return
		}
		if err := tx.Commit(); err != nil {
			bad("commit failed: %v", err)
			return
		}
	}
	// (1) the property as stated: a second plan is empty.
	cur2, err := e.Atlas.InspectRealm(ctx, nil)
	if err != nil {
		bad("inspect after apply: %v", err)
		return
	}
	desired2 := &schema.Realm{}
	if err := sqlite.EvalHCLBytes([]byte(hcl), desired2, nil); err != nil {
		bad("harness: %v", err)
		return
	}
	changes2, err := e.Atlas.RealmDiff(cur2, desired2, schema.DiffNormalized())
	if err != nil {
		bad("second diff: %v", err)
		return
	}
	if len(changes2) > 0 {
		bad("second plan is not empty after a successful apply: %s", describeChanges(changes2))
	}
	// (2) independent: engine catalogue equals the catalogue of B created by our own DDL.
	o := sqliteh.DumpOptions{UniqueOriginInsensitive: true}
	got, err1 := sqliteh.Dump(ctx, e.Own, o)
	want, err2 := sqliteh.Dump(ctx, ref.Own, o)
	if err1 != nil || err2 != nil {
		bad("harness: dump: %v %v", err1, err2)
		return
	}
	if got.String() != want.String() {
		bad("database after apply differs from the desired schema created directly:\n%s", lineDiff(want.Lines, got.Lines))
	}
	if len(res.Problems) > 0 {
		res.Key = classify(A, B, res)
	}
	return
}

func lineDiff(want, got []string) string {
	w, g := map[string]bool{}, map[string]bool{}
	for _, l := range want {
		w[l] = true
	}
	for _, l := range got {
		g[l] = true
	}
	var b strings.Builder
	for _, l := range want {
		if !g[l] {
			b.WriteString("    want: " + l + "\n")
		}
	}
	for _, l := range got {
		if !w[l] {
			b.WriteString("    got:  " + l + "\n")
		}
	}
	return b.String()
}

// classify assigns a known-finding key by a predicate on the case (never "any failure").
const apostropheKey = "string-default-delimited-by-apostrophes-is-taken-for-a-quoted-literal"

const backslashKey = "check-literal-ending-in-a-backslash-compared-as-if-the-backslash-escaped-the-quote"

func hasCheck(d *squ.DB, name string) bool {
	for _, t := range d.Tables {
		for _, c := range t.Checks {
			if c.Name == name {
				return true
			}
		}
	}
	return false
}

func classify(A, B *squ.DB, res Result) string {
	if (A.HasColumn("t", "q") || B.HasColumn("t", "q")) && squ.OnlyAboutColumn(res.Problems, "q") {
		return apostropheKey
	}
	if res.ViewCase && res.Rebuild {
		all := true
		for _, p := range res.Problems {
			all = all && strings.Contains(p, "error in view vt")
		}
		if all {
			return "table-read-by-a-view-cannot-be-rebuilt"
		}
	}
	if hasCheck(B, "ck_bs") {
		all := len(res.Problems) > 0
		for _, p := range res.Problems {
			all = all && strings.Contains(p, "second plan is not empty after a successful apply") && strings.Contains(p, "*schema.ModifyCheck") && !strings.Contains(p, ", ")
		}
		if all {
			return backslashKey
		}
	}
	if pkOrderDiffers(A) || pkOrderDiffers(B) {
		return "composite-pk-order-differs-from-column-order"
	}
	return ""
}

// pkOrderDiffers: a composite primary key whose columns are not listed in table-column order.
func pkOrderDiffers(d *squ.DB) bool {
	for _, t := range d.Tables {
		if len(t.PK) < 2 {
			continue
		}
		pos := map[string]int{}
		for i, c := range t.Cols {
			pos[c.Name] = i
		}
		for i := 1; i < len(t.PK); i++ {
			if pos[t.PK[i-1]] > pos[t.PK[i]] {
				return true
			}
		}
	}
	return false
}

func pairs(tier string) []Case {
	var cs []Case
	u1 := squ.Universe(1)
	for _, a := range u1 {
		for _, b := range u1 {
			for sp := 0; sp < 2; sp++ {
				cs = append(cs, Case{A: a.Names(), B: b.Names(), Spelling: sp})
			}
			cs = append(cs, Case{A: a.Names(), B: b.Names(), Exported: true})
		}
	}
	// a view reading t sits in the database: every state reached from the skeleton and back.
	for _, s := range u1 {
		if len(s) == 1 {
			cs = append(cs, Case{nil, s.Names(), 0, false, true}, Case{s.Names(), nil, 0, false, true})
		}
	}
	u2 := squ.Universe(2)
	if tier == "thorough" {
		for _, a := range u2 {
			for _, b := range u2 {
				if len(a) <= 1 && len(b) <= 1 {
					continue
				}
				cs = append(cs, Case{A: a.Names(), B: b.Names(), Spelling: (len(a) + len(b)) % 2, Exported: (len(a)+len(b))%3 == 1})
			}
		}
		return cs
	}
	// quick: every 2-feature state against each of its 1-feature sub-states, both directions.
	for _, s := range u2 {
		if len(s) != 2 {
			continue
		}
		for i := 0; i < 2; i++ {
			sub := squ.State{s[i]}
			cs = append(cs, Case{A: s.Names(), B: sub.Names()}, Case{A: sub.Names(), B: s.Names(), Spelling: 1, Exported: true})
		}
		// and against the bare skeleton: plans that change two things at once.
		cs = append(cs, Case{B: s.Names(), Exported: true}, Case{A: s.Names(), Spelling: 1})
	}
	return cs
}

func Run(r *report.Run) {
	ctx := context.Background()
	r.Rule = "current database A created on a real in-memory SQLite engine by our own DDL writer (two spellings: table-level constraints / inline column constraints), desired schema B given as HCL from our own writer or as the HCL atlas itself exports for B (inspect + MarshalHCL: the inspect-edit-apply workflow); flow of `schema apply`: InspectRealm -> RealmDiff(DiffNormalized) -> ApplyChanges in a transaction -> re-inspect -> re-diff. a further dimension puts a view that reads t into the database (an object this build does not manage). quick: all ordered pairs of states with <=1 feature (x2 spellings) plus every 2-feature state against each of its 1-feature sub-states in both directions and against the bare skeleton; thorough: all ordered pairs of states with <=2 features. Features: " + fmt.Sprint(len(squ.Features)) + " elementary features over a 3-table skeleton. CLI slice: the real `atlas schema apply --auto-approve` on a database file (desired state as HCL file and as a live database), then `atlas schema diff` must print 'Schemas are synced', a second apply must be a no-op and the catalogue must equal B's (quick: every 1-feature state against the skeleton and its catalogue neighbour, both directions; thorough: all ordered pairs of <=1-feature states); twins: two database files created from the same statements (6 statement lists, among them index names that collide with the names atlas gives constraint indexes) must be in sync for `schema diff` and `schema apply`; non-trivial = pair with a non-empty plan; distinct = (A, B, spelling)"
	r.Assumptions = []string{
		"engine-invalid combinations (rejected by SQLite when created by our own DDL) are skipped and counted",
		"independent oracle: the engine catalogue (pragma table_xinfo/index_list/index_xinfo/foreign_key_list + CHECK/generated texts) after A->B equals that of B created directly by our DDL; auto-index names and the origin of unique indexes (constraint vs CREATE INDEX) are normalised because atlas manages both as unique indexes",
	}
	cs := pairs(r.Tier)
	var mu sync.Mutex
	skipped, rebuild, alter, two := 0, 0, 0, 0
	err := enum.ProcMap(len(cs), func(i int) Result { return Eval(ctx, cs[i]) }, func(i int, res Result) {
		c := cs[i]
		key := fmt.Sprintf("%v|%v|%d|%v|%v", c.A, c.B, c.Spelling, c.Exported, c.View)
		r.Case(key, res.NonEmpty)
		mu.Lock()
		if res.Skipped != "" {
			skipped++
		}
		if res.NonEmpty {
			if res.Rebuild {
				rebuild++
			} else {
				alter++
			}
		}
		if res.TwoTables {
			two++
		}
		mu.Unlock()
		if len(res.Problems) > 0 {
			r.Violate(res.Key, fmt.Sprintf("A=%v B=%v spelling=%d: %s", c.A, c.B, c.Spelling, strings.Join(res.Problems, " | ")), c)
		}
		if res.Rebuild && len(c.A) == 1 && len(c.B) == 1 && c.A[0] == "idx_a" {
			r.Sample(map[string]any{"case": c, "plan": res.Stmts})
		}
	})
	if err != nil {
		r.Violate("", "harness: "+err.Error(), nil)
	}
	r.Set("pairs_skipped_engine_invalid", skipped)
	r.Set("plans_via_table_rebuild", rebuild)
	r.Set("plans_via_alter", alter)
	r.Set("plans_touching_two_tables", two)
	r.Set("states_k1", len(squ.Universe(1)))
	r.Set("states_k2", len(squ.Universe(2)))
	r.Set("cli_cases", runCLI(ctx, r))
}

func Replay(r *report.Run, raw json.RawMessage) {
	var v struct{ Case Case }
	if err := json.Unmarshal(raw, &v); err != nil {
		r.Violate("", "bad replay file: "+err.Error(), nil)
		return
	}
	var tv struct {
		Case struct {
			T *TwinCase `json:"twin"`
		}
	}
	if json.Unmarshal(raw, &tv) == nil && tv.Case.T != nil {
		defer clih.Cleanup()
		r.Case("a", true)
		r.Case("b", true)
		if p := evalTwin(*tv.Case.T); len(p) > 0 {
			r.Violate(classifyTwin(*tv.Case.T), strings.Join(p, " | "), map[string]any{"twin": tv.Case.T})
		}
		return
	}
	var cv struct {
		Case struct {
			C *CLICase `json:"cli"`
		}
	}
	if json.Unmarshal(raw, &cv) == nil && cv.Case.C != nil {
		defer clih.Cleanup()
		r.Case("a", true)
		r.Case("b", true)
		if p, _ := evalCLI(context.Background(), *cv.Case.C); len(p) > 0 {
			r.Violate("", strings.Join(p, " | "), map[string]any{"cli": cv.Case.C})
		}
		return
	}
	res := Eval(context.Background(), v.Case)
	fmt.Printf("  A=%v\n  B=%v\n  skipped=%q\n", v.Case.A, v.Case.B, res.Skipped)
	for _, s := range res.Stmts {
		fmt.Println("   ", strings.ReplaceAll(s, "\n", "\n    "))
	}
	r.Case("a", true)
	r.Case("b", true)
	if len(res.Problems) > 0 {
		r.Violate(res.Key, strings.Join(res.Problems, " | "), v.Case)
	}
}
