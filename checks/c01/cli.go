package c01

import (
	"context"
	"database/sql"
	"fmt"
	"os"
	"strings"

	"verif/clih"
	"verif/engine/enum"
	"verif/engine/report"
	"verif/sqliteh"
	"verif/universe/squ"
)

// ---------- CLI slice: the flow exactly as a user runs it ----------
//
// `atlas schema apply --url sqlite://a.db --to <desired> --auto-approve`, then `atlas schema diff` from the
// database to the desired state must print "Schemas are synced", a second apply must be a no-op, and
// the catalogue (our pragma dump) must equal that of B created directly. The desired state is given
// as an HCL file (our writer) or as a live database (B created by our DDL: `--to sqlite://b.db`).

type CLICase struct {
	A      []string `json:"a"`
	B      []string `json:"b"`
	Source string   `json:"source"` // hcl | db | hcldir
}

// WriteHCLDir spreads an HCL document over a directory the way projects keep it: the schema block and
// the first table in a_first.hcl, the other tables in z_rest.hcl, and between them (in name order) a
// nested directory, which the documentation says is not read (its table must not appear anywhere).
func WriteHCLDir(dir, doc string) error {
	parts := strings.Split(doc, "\ntable ")
	first, rest := parts[0], ""
	if len(parts) > 1 {
		first += "\ntable " + parts[1]
	}
	for _, p := range parts[min(2, len(parts)):] {
		rest += "table " + p + "\n"
	}
	if err := os.MkdirAll(dir+"/m_nested", 0o755); err != nil {
		return err
	}
	files := map[string]string{
		"a_first.hcl":           first + "\n",
		"m_nested/archived.hcl": "table \"zz_archived\" {\n  schema = schema.main\n  column \"id\" {\n    null = false\n    type = integer\n  }\n}\n",
		"z_rest.hcl":            rest,
	}
	for n, c := range files {
		if n == "z_rest.hcl" && rest == "" {
			continue
		}
		if err := os.WriteFile(dir+"/"+n, []byte(c), 0o644); err != nil {
			return err
		}
	}
	return nil
}

func dumpFile(ctx context.Context, w *clih.Work, name string) (sqliteh.Catalog, error) {
	db, err := sql.Open("sqlite3", "file:"+w.Path(name)+"?_fk=1")
	if err != nil {
		return sqliteh.Catalog{}, err
	}
	defer db.Close()
	return sqliteh.Dump(ctx, db, sqliteh.DumpOptions{UniqueOriginInsensitive: true})
}

func evalCLI(ctx context.Context, c CLICase) (problems []string, skipped string) {
	bad := func(f string, a ...any) { problems = append(problems, fmt.Sprintf(f, a...)) }
	w, err := clih.NewWork()
	if err != nil {
		return []string{"harness: " + err.Error()}, ""
	}
	defer w.Close()
	A, B := stateOf(c.A).Build(), stateOf(c.B).Build()
	if err := w.Exec("a.sqlite", A.DDL(0)...); err != nil {
		return nil, "engine rejects A"
	}
	if err := w.Exec("b.sqlite", B.DDL(0)...); err != nil {
		return nil, "engine rejects B"
	}
	want, err := dumpFile(ctx, w, "b.sqlite")
	if err != nil {
		return []string{"harness: " + err.Error()}, ""
	}
	to := "file://" + w.Path("b.hcl")
	os.WriteFile(w.Path("b.hcl"), []byte(B.HCL()), 0o644)
	if c.Source == "db" {
		to = w.URL("b.sqlite")
	}
	if c.Source == "hcldir" {
		if err := WriteHCLDir(w.Path("bdir"), B.HCL()); err != nil {
			return []string{"harness: " + err.Error()}, ""
		}
		to = "file://" + w.Path("bdir")
	}
	ap := w.Run(nil, "schema", "apply", "--url", w.URL("a.sqlite"), "--to", to, "--auto-approve")
	if ap.Exit != 0 {
		bad("`schema apply` failed: %s", ap)
		return
	}
	df := w.Run(nil, "schema", "diff", "--from", w.URL("a.sqlite"), "--to", to, "--dev-url", "sqlite://dev?mode=memory")
	if df.Exit != 0 || !strings.Contains(df.Stdout, "Schemas are synced") {
		bad("after a successful `schema apply`, `schema diff` still reports changes: %s", df)
	}
	ap2 := w.Run(nil, "schema", "apply", "--url", w.URL("a.sqlite"), "--to", to, "--auto-approve")
	if ap2.Exit != 0 || !strings.Contains(ap2.Stdout, "Schema is synced") {
		bad("a second `schema apply` is not a no-op: %s", ap2)
	}
	got, err := dumpFile(ctx, w, "a.sqlite")
	if err != nil {
		return []string{"harness: " + err.Error()}, ""
	}
	if got.String() != want.String() {
		bad("database after `schema apply` differs from the desired schema created directly:\n%s", lineDiff(want.Lines, got.Lines))
	}
	return
}

func cliCases(tier string) []CLICase {
	u1 := squ.Universe(1)
	var cs []CLICase
	add := func(a, b squ.State) {
		for _, src := range []string{"hcl", "db"} {
			cs = append(cs, CLICase{a.Names(), b.Names(), src})
		}
		// the desired state as a directory of HCL files: for the pairs whose desired state has a table
		// beyond the first one worth losing (every state has: the skeleton holds three tables).
		if len(a) == 0 || len(b) == 0 {
			cs = append(cs, CLICase{a.Names(), b.Names(), "hcldir"})
		}
	}
	if tier == "thorough" {
		for _, a := range u1 {
			for _, b := range u1 {
				add(a, b)
			}
		}
		return cs
	}
	// quick: every state against the bare skeleton (both directions) and against its successor in the catalogue.
	for i, s := range u1 {
		if len(s) == 0 {
			continue
		}
		add(nil, s)
		add(s, nil)
		if i+1 < len(u1) {
			add(s, u1[i+1])
			add(u1[i+1], s)
		}
	}
	return cs
}

func runCLI(ctx context.Context, r *report.Run) int {
	defer clih.Cleanup()
	cs := cliCases(r.Tier)
	type out struct {
		p []string
		s string
	}
	res := make([]out, len(cs))
	enum.Parallel(len(cs), func(i, _ int) {
		p, s := evalCLI(ctx, cs[i])
		res[i] = out{p, s}
	})
	n := 0
	for i, c := range cs {
		if res[i].s != "" {
			continue
		}
		n++
		r.CaseDistinct(true)
		if len(res[i].p) > 0 {
			key := ""
			if pkOrderDiffers(stateOf(c.A).Build()) || pkOrderDiffers(stateOf(c.B).Build()) {
				key = "composite-pk-order-differs-from-column-order"
			}
			if A, B := stateOf(c.A).Build(), stateOf(c.B).Build(); (A.HasColumn("t", "q") || B.HasColumn("t", "q")) && squ.OnlyAboutColumn(res[i].p, "q") {
				key = apostropheKey
			}
			if (c.Source == "hcl" || c.Source == "hcldir") && hasCheck(stateOf(c.B).Build(), "ck_bs") {
				// the second diff re-plans the check (see backslashKey); nothing else may be wrong.
				all := true
				for _, p := range res[i].p {
					all = all && (strings.Contains(p, "`schema diff` still reports changes") || strings.Contains(p, "second `schema apply`")) && strings.Contains(p, "CONSTRAINT `ck_bs` CHECK")
				}
				if all {
					key = backslashKey
				}
			}
			r.Violate(key, fmt.Sprintf("CLI A=%v B=%v source=%s: %s", c.A, c.B, c.Source, strings.Join(res[i].p, " | ")), map[string]any{"cli": c})
		}
	}
	for _, tc := range twinCases() {
		n++
		r.CaseDistinct(true)
		if p := evalTwin(tc); len(p) > 0 {
			r.Violate(classifyTwin(tc), fmt.Sprintf("CLI twins %s: %s", tc.Name, strings.Join(p, " | ")), map[string]any{"twin": tc})
		}
	}
	return n
}
