package c01

// Twins: two database files created from the same DDL. Whatever the DDL is, the difference is empty:
// `schema diff` says so and `schema apply` of one onto the other plans nothing. The DDL lists hold
// shapes the feature universe cannot spell because they exist only as SQL (not as HCL): a user index
// whose name is the one atlas gives an inline UNIQUE constraint, two constraints whose atlas names
// collide, names that differ in letter case only.

import (
	"fmt"
	"strings"

	"verif/clih"
)

type TwinCase struct {
	Name string   `json:"name"`
	DDL  []string `json:"ddl"`
}

func twinCases() []TwinCase {
	return []TwinCase{
		{"plain", []string{"CREATE TABLE t (a int, b int)", "CREATE INDEX idx_a ON t (a)"}},
		{"inline_unique", []string{"CREATE TABLE t (a int UNIQUE, b int)"}},
		{"inline_unique_and_other_index", []string{"CREATE TABLE t (a int UNIQUE, b int)", "CREATE INDEX idx_a ON t (a)"}},
		// atlas names the index behind UNIQUE (a) "t_a"; the user has an index of that very name.
		{"user_index_named_like_constraint_index", []string{"CREATE TABLE t (a int UNIQUE, b int)", "CREATE INDEX t_a ON t (a)"}},
		// UNIQUE (a, b) and UNIQUE (a_b) are both named "t_a_b".
		{"two_constraints_one_atlas_name", []string{"CREATE TABLE t (a int, b int, a_b int, UNIQUE (a, b), UNIQUE (a_b))"}},
		{"two_tables_unique", []string{"CREATE TABLE p (id int UNIQUE)", "CREATE TABLE q (id int UNIQUE, x int)"}},
	}
}

func evalTwin(c TwinCase) (problems []string) {
	bad := func(f string, a ...any) { problems = append(problems, fmt.Sprintf(f, a...)) }
	w, err := clih.NewWork()
	if err != nil {
		return []string{"harness: " + err.Error()}
	}
	defer w.Close()
	for _, db := range []string{"one.sqlite", "two.sqlite"} {
		if err := w.Exec(db, c.DDL...); err != nil {
			return []string{"harness: " + err.Error()}
		}
	}
	before, _ := w.Dump("one.sqlite")
	if r := w.Run(nil, "schema", "diff", "--from", w.URL("one.sqlite"), "--to", w.URL("two.sqlite")); r.Exit != 0 || !strings.Contains(r.Stdout, "Schemas are synced") {
		bad("`schema diff` between two databases created from the same statements reports changes: %s", r)
	}
	r := w.Run(nil, "schema", "apply", "--url", w.URL("one.sqlite"), "--to", w.URL("two.sqlite"), "--auto-approve")
	if r.Exit != 0 {
		bad("`schema apply` of a database onto its twin fails: %s", r)
	} else if !strings.Contains(r.Stdout, "Schema is synced") {
		bad("`schema apply` of a database onto its twin plans changes: %s", r)
	}
	if after, _ := w.Dump("one.sqlite"); after != before && r.Exit != 0 {
		bad("the failed apply changed the database")
	}
	return
}

const twinKey = "sqlite-constraint-index-name-collides-with-another-index"

func classifyTwin(c TwinCase) string {
	if c.Name == "user_index_named_like_constraint_index" || c.Name == "two_constraints_one_atlas_name" {
		return twinKey
	}
	return ""
}
