// Package c07: what is planned is what is executed - plan -> file -> statements round-trips.
package c07

import (
	"context"
	"encoding/json"
	"fmt"
	"os"
	"reflect"
	"strconv"
	"strings"
	"verif/clih"
	"verif/engine/enum"
	"verif/mighelp"

	"ariga.io/atlas/sql/migrate"
	"ariga.io/atlas/sql/mysql"
	"ariga.io/atlas/sql/postgres"
	"ariga.io/atlas/sql/schema"
	"ariga.io/atlas/sql/sqlite"
	"ariga.io/atlas/sql/sqltool"

	"verif/engine/report"
)

// Sigma is the adversarial string set; each is embedded as "a" + s + "b".
var Sigma = []string{";", "; -- c", "'", "\"", "`", "'q'", "\"q\"", "\\\"", "--", "/*", "*/", "#", "\\", "\n", "$$", "$t$", " BEGIN ", " END; ", ";\n", "\r\n", "\r", "down", " Down ", "StatementBegin", " up ", "\nDELIMITER //\n", "\n-- atlas:delimiter x\n", " -- +goose Up ", " -- migrate:up "}

var Slots = []string{"table", "column", "index", "check_name", "fk_name", "table_comment", "column_comment", "index_comment", "default", "enum_value", "check_literal", "default_dq", "default_raw"}

type Case struct {
	Dialect   string            `json:"dialect"`
	Values    map[string]string `json:"values"` // slot -> string placed there
	Kind      string            `json:"kind"`   // create | drop | alter | alter_back
	Format    string            `json:"format"`
	Indent    string            `json:"indent"`
	Delimiter string            `json:"delimiter"`
	// NoName: the plan has no name (e.g. `migrate diff` without the optional name argument).
	NoName bool `json:"no_name,omitempty"`
}

type dialectT struct {
	name    string
	differ  schema.Differ
	planner migrate.PlanApplier
	driver  migrate.Driver
	quote   string
	comment bool
	enum    bool
}

var dialects = map[string]*dialectT{
	"mysql":    {"mysql", mysql.DefaultDiff, mysql.DefaultPlan, (*mysql.Driver)(nil), "`", true, true},
	"postgres": {"postgres", postgres.DefaultDiff, postgres.DefaultPlan, (*postgres.Driver)(nil), "\"", true, true},
	"sqlite":   {"sqlite", sqlite.DefaultDiff, sqlite.DefaultPlan, (*sqlite.Driver)(nil), "`", false, false},
}

func val(c Case, slot, def string) string {
	if v, ok := c.Values[slot]; ok {
		return v
	}
	return def
}

func sqlQuote(s string) string { return "'" + strings.ReplaceAll(s, "'", "''") + "'" }

// build returns the schema; full=false omits the column/index/check/fk/comments that "alter" adds.
func build(d *dialectT, c Case, full bool) *schema.Schema { return buildEnum(d, c, full, "") }

// buildEnum: grow = "after" / "before" adds an enum value right after / before the adversarial one.
func buildEnum(d *dialectT, c Case, full bool, grow string) *schema.Schema {
	intT := func() schema.Type {
		return &schema.IntegerType{T: map[string]string{"mysql": "int", "postgres": "integer", "sqlite": "integer"}[d.name]}
	}
	strT := func() schema.Type {
		if d.name == "sqlite" {
			return &schema.StringType{T: "text"}
		}
		return &schema.StringType{T: map[string]string{"mysql": "varchar", "postgres": "character varying"}[d.name], Size: 100}
	}
	s := schema.New("main")
	schema.NewRealm(s)
	par := schema.NewTable("par")
	pid := &schema.Column{Name: "id", Type: &schema.ColumnType{Type: intT()}}
	par.AddColumns(pid).SetPrimaryKey(schema.NewPrimaryKey(pid))
	t := schema.NewTable(val(c, "table", "tbl"))
	id := &schema.Column{Name: "id", Type: &schema.ColumnType{Type: intT()}}
	note := &schema.Column{Name: "note", Type: &schema.ColumnType{Type: strT(), Null: true}}
	r := &schema.Column{Name: "r", Type: &schema.ColumnType{Type: intT(), Null: true}}
	t.AddColumns(id, note, r).SetPrimaryKey(schema.NewPrimaryKey(id))
	s.AddTables(par, t)
	if !full {
		return s
	}
	col := &schema.Column{Name: val(c, "column", "col"), Type: &schema.ColumnType{Type: strT(), Null: true}}
	col.SetDefault(&schema.Literal{V: sqlQuote(val(c, "default", "dflt"))})
	t.AddColumns(col)
	if d.name == "mysql" {
		// bare text: what evaluating `default = "..."` from HCL gives the MySQL planner for a string column.
		raw := &schema.Column{Name: "col_raw", Type: &schema.ColumnType{Type: strT(), Null: true}}
		raw.SetDefault(&schema.Literal{V: val(c, "default_raw", "rawtext")})
		t.AddColumns(raw)
	}
	if d.name == "sqlite" {
		// the two other spellings a SQLite default literal arrives in: double-quoted (what the inspector
		// returns for DEFAULT "...") and bare text; the planner must turn both into one SQL string.
		dq := &schema.Column{Name: "col_dq", Type: &schema.ColumnType{Type: strT(), Null: true}}
		dq.SetDefault(&schema.Literal{V: strconv.Quote(val(c, "default_dq", "dq"))})
		raw := &schema.Column{Name: "col_raw", Type: &schema.ColumnType{Type: strT(), Null: true}}
		raw.SetDefault(&schema.Literal{V: val(c, "default_raw", "rawtext")})
		t.AddColumns(dq, raw)
	}
	if d.enum {
		var et *schema.EnumType
		vals := []string{val(c, "enum_value", "ev"), "ok"}
		switch grow {
		case "after":
			vals = []string{vals[0], "mid", "ok"}
		case "before":
			vals = []string{"head", vals[0], "ok"}
		}
		if d.name == "mysql" {
			et = &schema.EnumType{T: "enum", Values: vals}
		} else {
			et = &schema.EnumType{T: "en", Values: vals, Schema: s}
			s.AddObjects(et)
		}
		t.AddColumns(&schema.Column{Name: "e", Type: &schema.ColumnType{Type: et, Null: true}})
	}
	idx := schema.NewIndex(val(c, "index", "idx")).AddParts(&schema.IndexPart{SeqNo: 1, C: col})
	t.AddIndexes(idx)
	t.AddChecks(schema.NewCheck().SetName(val(c, "check_name", "chk")).SetExpr("(note <> " + sqlQuote(val(c, "check_literal", "lit")) + ")"))
	t.AddForeignKeys(&schema.ForeignKey{Symbol: val(c, "fk_name", "fk"), Table: t, Columns: []*schema.Column{r}, RefTable: par, RefColumns: []*schema.Column{pid}, OnDelete: schema.Cascade})
	if d.comment {
		t.SetComment(val(c, "table_comment", "tc"))
		col.SetComment(val(c, "column_comment", "cc"))
		idx.SetComment(val(c, "index_comment", "ic"))
	}
	return s
}

var formats = []struct {
	name string
	f    migrate.Formatter
}{
	{"atlas", migrate.DefaultFormatter},
	// the same formatter through Planner.WriteCheckpoint on a directory (adds the checkpoint directive).
	{"atlas-checkpoint", migrate.DefaultFormatter},
	{"golang-migrate", sqltool.GolangMigrateFormatter},
	{"goose", sqltool.GooseFormatter},
	{"flyway", sqltool.FlywayFormatter},
	{"liquibase", sqltool.LiquibaseFormatter},
	{"dbmate", sqltool.DBMateFormatter},
}

const cmtMark = "CMTMARK7"

// readBack reads the up statements of the formatted files with the matching reader.
func readBack(d *dialectT, format string, files []migrate.File) ([]string, error) {
	lf := func(f migrate.File) *migrate.LocalFile { return migrate.NewLocalFile(f.Name(), f.Bytes()) }
	switch format {
	case "atlas", "atlas-checkpoint", "liquibase":
		return migrate.FileStmts(d.driver, lf(files[0]))
	case "golang-migrate":
		for _, f := range files {
			if strings.HasSuffix(f.Name(), ".up.sql") {
				return migrate.FileStmts(d.driver, &sqltool.GolangMigrateFile{LocalFile: lf(f)})
			}
		}
	case "flyway":
		for _, f := range files {
			if strings.HasPrefix(f.Name(), "V") {
				return migrate.FileStmts(d.driver, &sqltool.FlywayFile{LocalFile: lf(f)})
			}
		}
	case "goose":
		return (&sqltool.GooseFile{LocalFile: lf(files[0])}).Stmts()
	case "dbmate":
		return (&sqltool.DBMateFile{LocalFile: lf(files[0])}).Stmts()
	}
	return nil, fmt.Errorf("no up file for %s", format)
}

func Eval(c Case) (problems []string, skipped string, cmds []string) {
	return evalWith(c, "")
}

// importCLI writes the formatted files into a directory, runs the real `atlas migrate import` on it and
// returns the files of the imported (atlas format) directory.
func importCLI(format string, files []migrate.File) ([]migrate.File, string) {
	wk, err := clih.NewWork()
	if err != nil {
		return nil, "harness: " + err.Error()
	}
	defer wk.Close()
	os.MkdirAll(wk.Path("src"), 0o755)
	for _, f := range files {
		if err := os.WriteFile(wk.Path("src", f.Name()), f.Bytes(), 0o644); err != nil {
			return nil, "harness: " + err.Error()
		}
	}
	res := wk.Run(nil, "migrate", "import", "--from", "file://"+wk.Path("src")+"?format="+format, "--to", "file://"+wk.Path("dst"))
	if res.Exit != 0 {
		return nil, "`migrate import` failed: " + res.String()
	}
	dst, err := migrate.NewLocalDir(wk.Path("dst"))
	if err != nil {
		return nil, "harness: " + err.Error()
	}
	if err := migrate.Validate(dst); err != nil {
		return nil, "imported directory does not validate: " + err.Error()
	}
	fs, err := dst.Files()
	if err != nil {
		return nil, "imported directory cannot be listed: " + err.Error()
	}
	// detach from the work dir, which is removed on return.
	out := make([]migrate.File, len(fs))
	for i, f := range fs {
		out[i] = migrate.NewLocalFile(f.Name(), f.Bytes())
	}
	return out, ""
}

func evalWith(c Case, via string) (problems []string, skipped string, cmds []string) {
	viaImport := via == "import"
	bad := func(f string, a ...any) { problems = append(problems, fmt.Sprintf(f, a...)) }
	d := dialects[c.Dialect]
	defer func() {
		if p := recover(); p != nil {
			bad("panic: %v", p)
		}
	}()
	empty := schema.New("main")
	schema.NewRealm(empty)
	var from, to *schema.Schema
	switch c.Kind {
	case "create":
		from, to = empty, build(d, c, true)
	case "drop":
		from, to = build(d, c, true), empty
	case "alter":
		from, to = build(d, c, false), build(d, c, true)
	case "alter_back":
		from, to = build(d, c, true), build(d, c, false)
	case "enum_after", "enum_before":
		// a value is added to the enum next to the adversarial one (PostgreSQL names the neighbour).
		from, to = build(d, c, true), buildEnum(d, c, true, strings.TrimPrefix(c.Kind, "enum_"))
	}
	changes, err := d.differ.SchemaDiff(from, to, schema.DiffNormalized())
	if err != nil {
		return nil, "diff: " + err.Error(), nil
	}
	plan, err := d.planner.PlanChanges(context.Background(), "p", changes, func(o *migrate.PlanOptions) {
		o.Indent = c.Indent
		o.SchemaQualifier = new(string)
	})
	if err != nil {
		return nil, "plan: " + err.Error(), nil
	}
	plan.Version, plan.Name, plan.Delimiter = "1", "p", c.Delimiter
	if c.NoName {
		plan.Name = ""
	}
	for _, ch := range plan.Changes {
		cmds = append(cmds, ch.Cmd)
		if ch.Comment != "" {
			ch.Comment += " " + cmtMark
		}
	}
	var fm migrate.Formatter
	for _, f := range formats {
		if f.name == c.Format {
			fm = f.f
		}
	}
	files, err := fm.Format(plan)
	if err != nil {
		bad("format: %v", err)
		return
	}
	if c.Format == "atlas-checkpoint" {
		dir := &migrate.MemDir{}
		if err := migrate.NewPlanner(nil, dir, migrate.PlanFormat(fm)).WriteCheckpoint(plan, ""); err != nil {
			bad("WriteCheckpoint: %v", err)
			return
		}
		if files, err = dir.Files(); err != nil || len(files) != 1 {
			bad("checkpoint directory lists %d files (%v)", len(files), err)
			return
		}
	}
	readFormat := c.Format
	if viaImport {
		imported, msg := importCLI(c.Format, files)
		if msg != "" {
			bad("%s", msg)
			return
		}
		if len(imported) != 1 {
			bad("`migrate import` wrote %d files for one plan", len(imported))
			return
		}
		files, readFormat = imported, "atlas"
	}
	var got []string
	if via == "exec" {
		// what a first `migrate apply` runs: the files go into a directory of the format's own type
		// and the real Executor executes them on a driver that records every statement.
		if got, err = executed(d, c.Format, files); err != nil {
			bad("executing the directory fails: %v", err)
			return
		}
	} else if got, err = readBack(d, readFormat, files); err != nil {
		bad("reading the file back fails: %v", err)
		return
	}
	for i := range got {
		got[i] = strings.TrimSuffix(got[i], ";")
	}
	if !reflect.DeepEqual(got, cmds) {
		n := len(got)
		if len(cmds) < n {
			n = len(cmds)
		}
		at := n
		for i := 0; i < n; i++ {
			if got[i] != cmds[i] {
				at = i
				break
			}
		}
		g, w := "<none>", "<none>"
		if at < len(got) {
			g = got[at]
		}
		if at < len(cmds) {
			w = cmds[at]
		}
		bad("read back %d statements, planned %d; first difference at #%d: read %q, planned %q", len(got), len(cmds), at, g, w)
	}
	for _, s := range got {
		if strings.Contains(s, cmtMark) {
			bad("a statement contains text from a comment line: %q", s)
		}
	}
	return
}

func firstKey(m map[string]string) string {
	for k := range m {
		if len(m) == 1 {
			return k
		}
	}
	return ""
}

func cases(tier string) []Case {
	var cs []Case
	embed := func(s string) string { return "a" + s + "b" }
	type choice struct{ vals map[string]string }
	var choices []choice
	choices = append(choices, choice{map[string]string{}})
	for _, slot := range Slots {
		for _, s := range Sigma {
			choices = append(choices, choice{map[string]string{slot: embed(s)}})
		}
	}
	// one very long line (longer than a line reader's default 64 KiB buffer) in a literal slot.
	for _, slot := range []string{"default", "check_literal"} {
		choices = append(choices, choice{map[string]string{slot: strings.Repeat("x", 70000)}})
	}
	// string defaults that begin like a hexadecimal literal (not embedded: the prefix matters).
	for _, v := range []string{"0x; y", "0xAB", "0xg'h"} {
		choices = append(choices, choice{map[string]string{"default": v}}, choice{map[string]string{"default_raw": v}})
	}
	// literals that end in a backslash (not embedded: the backslash stands right before the closing quote).
	for _, slot := range []string{"default", "check_literal", "table_comment", "column_comment", "index_comment", "enum_value"} {
		choices = append(choices, choice{map[string]string{slot: "C:\\dir\\"}})
	}
	if tier == "thorough" {
		for i, s1 := range Slots {
			for _, s2 := range Slots[i+1:] {
				for _, a := range Sigma {
					for _, b := range Sigma {
						choices = append(choices, choice{map[string]string{s1: embed(a), s2: embed(b)}})
					}
				}
			}
		}
	}
	for _, dn := range []string{"mysql", "postgres", "sqlite"} {
		d := dialects[dn]
		for _, ch := range choices {
			skip := false
			for slot := range ch.vals {
				if (!d.comment && strings.HasSuffix(slot, "_comment")) || (!d.enum && slot == "enum_value") || (d.name != "sqlite" && slot == "default_dq") || (d.name == "postgres" && slot == "default_raw") {
					skip = true
				}
			}
			if v, ok := ch.vals[firstKey(ch.vals)]; ok && v == "C:\\dir\\" && d.name == "mysql" && !strings.HasSuffix(firstKey(ch.vals), "_comment") {
				// MySQL reads a backslash inside a literal as an escape: a literal that ends in one is
				// spelled with two, which is what the embedded values already cover. Comments are
				// quoted by the planner itself and stay in.
				skip = true
			}
			if skip {
				continue
			}
			kinds := []string{"create", "drop", "alter", "alter_back"}
			if _, ok := ch.vals["enum_value"]; ok && d.enum && len(ch.vals) == 1 {
				kinds = append(kinds, "enum_after", "enum_before")
			}
			for _, kind := range kinds {
				for _, f := range formats {
					for _, ind := range []string{"", "  "} {
						delims := []string{""}
						if f.name == "atlas" || f.name == "atlas-checkpoint" {
							delims = []string{"", "\nGO", "//", "\n-- end"}
							if ind == "" && len(ch.vals) == 1 {
								// delimiters holding a backslash or a double quote are written as they are.
								delims = append(delims, "\\\\", "\\G", "//\"//", "\\n")
							}
						}
						if tier == "thorough" && len(ch.vals) == 2 && ind != "" {
							continue
						}
						for _, dl := range delims {
							cs = append(cs, Case{Dialect: dn, Values: ch.vals, Kind: kind, Format: f.name, Indent: ind, Delimiter: dl})
						}
					}
				}
			}
		}
	}
	return cs
}

// ownQuote: an identifier slot holds the dialect's own identifier quote (the SQL builder does not escape it).
func ownQuote(c Case) bool {
	d := dialects[c.Dialect]
	for slot, v := range c.Values {
		switch slot {
		case "table", "column", "index", "check_name", "fk_name":
			if strings.Contains(v, d.quote) {
				return true
			}
		}
	}
	return false
}

func Run(r *report.Run) {
	r.Rule = "plans of the real MySQL/PostgreSQL/SQLite planners over a two-table schema in which one slot (thorough: two slots; plus, not embedded, a literal ending in a backslash) out of 11 (table/column/index/check/foreign-key name, table/column/index comment, string default, enum value, check string literal) holds each of 20 adversarial strings (quotes, semicolon, comment markers, backslash, newline, dollar tags, BEGIN/END, DELIMITER and atlas:delimiter lines) x change kind {create, drop, alter, alter back; for the enum value slot also: a value added right after / before the adversarial one} x 6 formatters (the atlas one also through Planner.WriteCheckpoint) x indent {none, two spaces} x plan delimiter (atlas format: default, \\nGO, //, \\n-- end; without indent and with one adversarial slot also: two backslashes, backslash G, //\"//); the file is read back with the matching reader and the dialect's scanner and must yield exactly Plan.Changes[].Cmd; every change comment carries a marker that must not reach a statement; import slice: the directory written by each third-party formatter is imported by the real `atlas migrate import` and the resulting atlas file, read with the dialect's scanner, must again yield exactly the planned statements; execution slice: for every dialect x format x change kind x {named, unnamed plan} the formatted files are written into a local directory opened as the format's own directory type (over older, longer files of the same names) and the real Executor (empty history, statements recorded by the driver) must run exactly the planned statements; hand-written third-party files (3 statements x 4 terminator spellings incl. trailing blanks / tab / CR LF x 3 file endings incl. an unterminated last statement x 5 formats) must be read as exactly their 3 statements by the format's reader and by `migrate import`; non-trivial = case with >=1 adversarial slot; distinct = (dialect, slots, kind, format, indent, delimiter)"
	r.Assumptions = []string{
		"statement text is compared after trimming one trailing ';'",
		"the import slice uses create plans with at most one adversarial slot (quick: 4 slots; thorough: all)",
	}
	cs := cases(r.Tier)
	skipped := 0
	for _, c := range cs {
		if r.Expired() {
			break
		}
		problems, skip, _ := Eval(c)
		r.Case(fmt.Sprintf("%v", c), len(c.Values) > 0 && skip == "")
		if skip != "" {
			skipped++
			continue
		}
		if len(problems) > 0 {
			for slot, v := range c.Values {
				r.Count(fmt.Sprintf("viol|%s|%s|%q|%s", c.Dialect, slot, v, c.Format), 1)
			}
			if len(c.Values) == 0 {
				r.Count(fmt.Sprintf("viol|%s|none|%s|%s|%q", c.Dialect, c.Format, c.Kind, c.Indent), 1)
			}
			r.Violate(classify(c, problems), fmt.Sprintf("%s %v %s %s indent=%q delim=%q: %s", c.Dialect, c.Values, c.Kind, c.Format, c.Indent, c.Delimiter, strings.Join(problems, " | ")), c)
		}
		if c.Format == "goose" && c.Kind == "alter" && c.Values["default"] == "a;\nb" {
			r.Sample(c)
		}
	}
	r.Set("cases_not_planned", skipped)
	// import slice: the formatted directory goes through the real `atlas migrate import` first.
	defer clih.Cleanup()
	ics := importCases(r.Tier)
	type ires struct {
		problems []string
		skip     string
	}
	out := make([]ires, len(ics))
	enum.Parallel(len(ics), func(i, _ int) {
		p, s, _ := evalWith(ics[i], "import")
		out[i] = ires{p, s}
	})
	for i, c := range ics {
		r.Case(fmt.Sprintf("import|%v", c), len(c.Values) > 0 && out[i].skip == "")
		if out[i].skip != "" || len(out[i].problems) == 0 {
			continue
		}
		r.Violate(classifyImport(c, out[i].problems), fmt.Sprintf("import %s %v %s %s: %s", c.Dialect, c.Values, c.Kind, c.Format, strings.Join(out[i].problems, " | ")), map[string]any{"import": c})
	}
	r.Set("import_cases", len(ics))
	ecs := execCases()
	for _, c := range ecs {
		problems, skip, _ := evalWith(c, "exec")
		r.Case(fmt.Sprintf("exec|%v", c), skip == "")
		if skip == "" && len(problems) > 0 {
			r.Violate("", fmt.Sprintf("executed %s %s %s: %s", c.Dialect, c.Kind, c.Format, strings.Join(problems, " | ")), map[string]any{"exec": c})
		}
	}
	r.Set("exec_cases", len(ecs))
	r.Set("handwritten_cases", runHandWritten(r))
}

// recDriver records the statements the executor runs; statement splitting is the dialect driver's.
type recDriver struct {
	*mighelp.Driver
	scan func(string) ([]*migrate.Stmt, error)
}

func (d recDriver) ScanStmts(in string) ([]*migrate.Stmt, error) { return d.scan(in) }

// executed writes the formatted files into a local directory opened as the format's directory type
// and returns the statements Executor.ExecuteN runs on an empty revision history.
func executed(d *dialectT, format string, files []migrate.File) (stmts []string, err error) {
	path, err := os.MkdirTemp(clih.ScratchRoot(), "c07exec")
	if err != nil {
		return nil, err
	}
	defer os.RemoveAll(path)
	var dir migrate.Dir
	switch format {
	case "golang-migrate":
		dir, err = sqltool.NewGolangMigrateDir(path)
	case "goose":
		dir, err = sqltool.NewGooseDir(path)
	case "flyway":
		dir, err = sqltool.NewFlywayDir(path)
	case "liquibase":
		dir, err = sqltool.NewLiquibaseDir(path)
	case "dbmate":
		dir, err = sqltool.NewDBMateDir(path)
	default:
		dir, err = migrate.NewLocalDir(path)
	}
	if err != nil {
		return nil, err
	}
	// every file replaces an older, longer file of the same name (a plan written again under the same
	// version): nothing of the old content may be left.
	for _, f := range files {
		if err := dir.WriteFile(f.Name(), append(append([]byte(nil), f.Bytes()...), []byte("\nSTALE STATEMENT OF THE OLDER FILE;\n")...)); err != nil {
			return nil, err
		}
	}
	for _, f := range files {
		if err := dir.WriteFile(f.Name(), f.Bytes()); err != nil {
			return nil, err
		}
	}
	sum, err := dir.Checksum()
	if err != nil {
		return nil, err
	}
	if err := migrate.WriteSumFile(dir, sum); err != nil {
		return nil, err
	}
	scanner, ok := d.driver.(interface {
		ScanStmts(string) ([]*migrate.Stmt, error)
	})
	if !ok {
		return nil, fmt.Errorf("driver %T has no scanner", d.driver)
	}
	drv := recDriver{&mighelp.Driver{OnExec: func(q string) error { stmts = append(stmts, q); return nil }}, scanner.ScanStmts}
	ex, err := migrate.NewExecutor(drv, dir, mighelp.NewStore())
	if err != nil {
		return nil, err
	}
	if err := ex.ExecuteN(context.Background(), 0); err != nil {
		return nil, err
	}
	return stmts, nil
}

// execCases: plans without adversarial strings for every dialect x format x kind; what matters here is
// the path the files take (directory type -> Executor.Pending on an empty history -> file reader).
func execCases() []Case {
	var cs []Case
	for _, d := range []string{"mysql", "postgres", "sqlite"} {
		for _, f := range formats {
			for _, k := range []string{"create", "drop", "alter", "alter_back"} {
				cs = append(cs, Case{Dialect: d, Kind: k, Format: f.name})
				cs = append(cs, Case{Dialect: d, Kind: k, Format: f.name, NoName: true})
			}
		}
	}
	return cs
}

// importCases: create-plans with at most one adversarial slot, written by each third-party formatter.
func importCases(tier string) []Case {
	slots := []string{"table", "default", "column_comment", "check_literal"}
	if tier == "thorough" {
		slots = Slots
	}
	var cs []Case
	for _, dn := range []string{"mysql", "postgres", "sqlite"} {
		d := dialects[dn]
		vals := []map[string]string{{}}
		for _, slot := range slots {
			if (!d.comment && strings.HasSuffix(slot, "_comment")) || (!d.enum && slot == "enum_value") || (d.name != "sqlite" && slot == "default_dq") || (d.name == "postgres" && slot == "default_raw") {
				continue
			}
			for _, sg := range Sigma {
				vals = append(vals, map[string]string{slot: "a" + sg + "b"})
			}
		}
		for _, v := range vals {
			for _, f := range formats {
				if strings.HasPrefix(f.name, "atlas") {
					continue
				}
				cs = append(cs, Case{Dialect: dn, Values: v, Kind: "create", Format: f.name})
			}
		}
	}
	return cs
}

// classifyImport: the importer reads the source with the same readers (same listed findings) and,
// in addition, always with the generic scanner ("not driver aware").
func classifyImport(c Case, problems []string) string {
	if k := classify(c, problems); k != "" {
		return k
	}
	for slot, v := range c.Values {
		if c.Dialect == "mysql" && (strings.HasSuffix(slot, "_comment") || slot == "default_raw") && strings.Contains(v, "\"") {
			return "mysql-backslash-escaped-comment-read-by-generic-scanner"
		}
	}
	return ""
}

// classify recognises the listed findings by a predicate on the case (which slot holds what, which format).
func classify(c Case, problems []string) string {
	if strings.Contains(c.Delimiter, "\\n") || strings.Contains(c.Delimiter, "\\r") || strings.Contains(c.Delimiter, "\\t") {
		return "delimiter-holding-a-literal-backslash-n-is-read-back-as-a-line-break"
	}
	if ownQuote(c) {
		return "identifier-containing-own-quote-not-escaped"
	}
	for slot, v := range c.Values {
		switch {
		case c.Dialect == "mysql" && slot == "enum_value" && strings.Contains(v, "'"):
			return "mysql-enum-value-quote-not-escaped"
		case (c.Format == "goose" || c.Format == "dbmate") && strings.Contains(v, "\r\n"):
			return "goose-dbmate-line-reader-drops-cr-before-lf"
		case c.Format == "goose" && strings.Contains(v, ";\n"):
			return "goose-line-ending-semicolon-inside-literal-splits"
		case c.Dialect == "mysql" && (strings.HasSuffix(slot, "_comment") || slot == "default_raw") && strings.Contains(v, "\"") &&
			(c.Format == "dbmate" || c.Format == "flyway" || c.Format == "golang-migrate" || c.Format == "goose"):
			return "mysql-backslash-escaped-comment-read-by-generic-scanner"
		}
	}
	return ""
}

func Replay(r *report.Run, raw json.RawMessage) {
	var v struct{ Case Case }
	if err := json.Unmarshal(raw, &v); err != nil {
		r.Violate("", "bad replay file: "+err.Error(), nil)
		return
	}
	var wv struct {
		Case struct {
			Import *Case `json:"import"`
			Exec   *Case `json:"exec"`
		}
	}
	if json.Unmarshal(raw, &wv) == nil && (wv.Case.Import != nil || wv.Case.Exec != nil) {
		defer clih.Cleanup()
		c, via := wv.Case.Import, "import"
		if c == nil {
			c, via = wv.Case.Exec, "exec"
		}
		problems, skip, _ := evalWith(*c, via)
		fmt.Printf("  %s case %+v skipped=%q\n", via, *c, skip)
		r.Case("a", true)
		r.Case("b", true)
		if len(problems) > 0 {
			key := ""
			if via == "import" {
				key = classifyImport(*c, problems)
			}
			r.Violate(key, strings.Join(problems, " | "), wv.Case)
		}
		return
	}
	problems, skip, cmds := Eval(v.Case)
	fmt.Printf("  case %+v skipped=%q\n", v.Case, skip)
	for _, s := range cmds {
		fmt.Printf("    %q\n", s)
	}
	r.Case("a", true)
	r.Case("b", true)
	if len(problems) > 0 {
		r.Violate(classify(v.Case, problems), strings.Join(problems, " | "), v.Case)
	}
}
