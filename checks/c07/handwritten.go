package c07

import (
	"fmt"
	"os"
	"strings"

	"ariga.io/atlas/sql/migrate"
	"ariga.io/atlas/sql/sqlite"
	"ariga.io/atlas/sql/sqltool"

	"verif/clih"
	"verif/engine/enum"
	"verif/engine/report"
)

// ---------- hand-written third-party files: "importing a third-party-format directory preserves its
// statement sequence" also for files no atlas formatter wrote ----------
//
// Three statements per file; every statement but the last is followed by one of 4 terminator
// spellings, the last one by one of 3 endings (terminated, terminated without a final newline, not
// terminated at all). The format's own reader and `atlas migrate import` must both yield exactly the
// three statements.

type HWCase struct {
	Format string   `json:"format"`
	Terms  []string `json:"terminators"` // after statement 1 and 2
	Last   string   `json:"last"`        // after statement 3
	// Opt: the block markers carry the tool's own options (dbmate: "-- migrate:up transaction:false").
	Opt bool `json:"opt,omitempty"`
}

var hwStmts = []string{
	"CREATE TABLE a (id integer NOT NULL, note text NULL)",
	"CREATE INDEX a_note ON a (note)",
	"CREATE TABLE users (id integer NOT NULL)",
}

func hwBody(c HWCase) string {
	return hwStmts[0] + c.Terms[0] + hwStmts[1] + c.Terms[1] + hwStmts[2] + c.Last
}

func hwFiles(c HWCase) map[string]string {
	body := hwBody(c)
	switch c.Format {
	case "golang-migrate":
		return map[string]string{"1_init.up.sql": body, "1_init.down.sql": "DROP TABLE users;\n"}
	case "goose":
		return map[string]string{"1_init.sql": "-- +goose Up\n" + body + "\n-- +goose Down\nDROP TABLE users;\n"}
	case "dbmate":
		if c.Opt {
			return map[string]string{"1_init.sql": "-- migrate:up transaction:false\n" + body + "\n-- migrate:down transaction:false\nDROP TABLE users;\n"}
		}
		return map[string]string{"1_init.sql": "-- migrate:up\n" + body + "\n-- migrate:down\nDROP TABLE users;\n"}
	case "flyway":
		return map[string]string{"V1__init.sql": body}
	case "liquibase":
		return map[string]string{"1_init.sql": "--liquibase formatted sql\n\n--changeset atlas:1-1\n" + body}
	}
	return nil
}

func hwDir(format, path string) (migrate.Dir, error) {
	switch format {
	case "golang-migrate":
		return sqltool.NewGolangMigrateDir(path)
	case "goose":
		return sqltool.NewGooseDir(path)
	case "dbmate":
		return sqltool.NewDBMateDir(path)
	case "flyway":
		return sqltool.NewFlywayDir(path)
	case "liquibase":
		return sqltool.NewLiquibaseDir(path)
	}
	return nil, fmt.Errorf("unknown format %q", format)
}

func trimAll(ss []string) []string {
	out := make([]string, len(ss))
	for i, s := range ss {
		out[i] = strings.TrimSuffix(strings.TrimSpace(s), ";")
	}
	return out
}

func evalHW(c HWCase) (problems []string) {
	bad := func(f string, a ...any) { problems = append(problems, fmt.Sprintf(f, a...)) }
	wk, err := clih.NewWork()
	if err != nil {
		return []string{"harness: " + err.Error()}
	}
	defer wk.Close()
	os.MkdirAll(wk.Path("src"), 0o755)
	for n, b := range hwFiles(c) {
		os.WriteFile(wk.Path("src", n), []byte(b), 0o644)
	}
	// (1) the format's own reader.
	d, err := hwDir(c.Format, wk.Path("src"))
	if err != nil {
		return []string{"harness: " + err.Error()}
	}
	fs, err := d.Files()
	if err != nil {
		bad("reader: listing files fails: %v", err)
		return
	}
	var got []string
	for _, f := range fs {
		st, err := f.Stmts()
		if err != nil {
			bad("reader: %s: %v", f.Name(), err)
			return
		}
		got = append(got, st...)
	}
	if g := trimAll(got); fmt.Sprint(g) != fmt.Sprint(hwStmts) {
		bad("the %s reader yields %q, the file holds %q", c.Format, g, hwStmts)
	}
	// (2) the real import, read back with the SQLite scanner.
	res := wk.Run(nil, "migrate", "import", "--from", "file://"+wk.Path("src")+"?format="+c.Format, "--to", "file://"+wk.Path("dst"))
	if res.Exit != 0 {
		bad("`migrate import` failed: %s", res)
		return
	}
	dst, err := migrate.NewLocalDir(wk.Path("dst"))
	if err != nil {
		return append(problems, "harness: "+err.Error())
	}
	if err := migrate.Validate(dst); err != nil {
		bad("imported directory does not validate: %v", err)
	}
	ifs, _ := dst.Files()
	var imp []string
	for _, f := range ifs {
		st, err := migrate.FileStmts((*sqlite.Driver)(nil), f)
		if err != nil {
			bad("imported file %s does not scan: %v\n%s", f.Name(), err, f.Bytes())
			return
		}
		imp = append(imp, st...)
	}
	if g := trimAll(imp); fmt.Sprint(g) != fmt.Sprint(hwStmts) {
		bad("the imported directory holds %q, the source held %q", g, hwStmts)
	}
	return
}

func hwCases() []HWCase {
	terms := []string{";\n", "; \n", ";\t\n", ";\r\n"}
	lasts := []string{";\n", ";", ""}
	var cs []HWCase
	for _, f := range []string{"golang-migrate", "goose", "dbmate", "flyway", "liquibase"} {
		for _, t1 := range terms {
			for _, t2 := range terms {
				for _, l := range lasts {
					cs = append(cs, HWCase{Format: f, Terms: []string{t1, t2}, Last: l})
					if f == "dbmate" && t1 == t2 {
						cs = append(cs, HWCase{Format: f, Terms: []string{t1, t2}, Last: l, Opt: true})
					}
				}
			}
		}
	}
	return cs
}

func runHandWritten(r *report.Run) int {
	cs := hwCases()
	res := make([][]string, len(cs))
	enum.Parallel(len(cs), func(i, _ int) { res[i] = evalHW(cs[i]) })
	for i, c := range cs {
		r.Case(fmt.Sprintf("hw|%s|%q|%q", c.Format, c.Terms, c.Last), true)
		if len(res[i]) > 0 {
			r.Violate(classifyHW(c, res[i]), fmt.Sprintf("hand-written %s file (terminators %q, ending %q): %s", c.Format, c.Terms, c.Last, strings.Join(res[i], " | ")), map[string]any{"handwritten": c})
		}
	}
	return len(cs)
}

func classifyHW(c HWCase, problems []string) string { return "" }
