package c16

// Planner slice: the qualifier a caller hands to migrate.NewPlanner (PlanWithSchemaQualifier) must reach
// every plan the Planner produces - PlanSchema and CheckpointSchema alike. The Planner runs over a
// driver whose "database" is a fixed schema graph (the differ universe's base schema, named with the
// marker): replaying the (empty) directory and inspecting gives that graph; diffing and planning are
// the dialect's real differ and planner.

import (
	"context"
	"database/sql"
	"fmt"
	"strings"
	"time"

	"ariga.io/atlas/sql/migrate"
	"ariga.io/atlas/sql/schema"

	"verif/engine/report"
	"verif/mighelp"
	"verif/universe/dfu"
)

type PlannerCase struct {
	Dialect   string `json:"dialect"`
	Qualifier string `json:"qualifier"` // "<none>" = option not given
	Op        string `json:"op"`        // checkpoint | plan
}

type graphDriver struct {
	migrate.Driver
	d *dfu.Dialect
}

func (g graphDriver) state() *schema.Schema {
	s := dfu.Base(g.d)
	s.Name = marker
	return s
}
func (g graphDriver) InspectSchema(context.Context, string, *schema.InspectOptions) (*schema.Schema, error) {
	return g.state(), nil
}
func (g graphDriver) InspectRealm(context.Context, *schema.InspectRealmOption) (*schema.Realm, error) {
	return g.state().Realm, nil
}
func (g graphDriver) SchemaDiff(a, b *schema.Schema, o ...schema.DiffOption) ([]schema.Change, error) {
	return g.d.Diff.SchemaDiff(a, b, o...)
}
func (g graphDriver) RealmDiff(a, b *schema.Realm, o ...schema.DiffOption) ([]schema.Change, error) {
	return g.d.Diff.RealmDiff(a, b, o...)
}
func (g graphDriver) TableDiff(a, b *schema.Table, o ...schema.DiffOption) ([]schema.Change, error) {
	return g.d.Diff.TableDiff(a, b, o...)
}
func (g graphDriver) PlanChanges(ctx context.Context, n string, cs []schema.Change, o ...migrate.PlanOption) (*migrate.Plan, error) {
	return planner(g.d).PlanChanges(ctx, n, cs, o...)
}
func (graphDriver) ExecContext(context.Context, string, ...any) (sql.Result, error) { return nil, nil }
func (graphDriver) Snapshot(context.Context) (migrate.RestoreFunc, error) {
	return func(context.Context) error { return nil }, nil
}
func (graphDriver) CheckClean(context.Context, *migrate.TableIdent) error { return nil }
func (graphDriver) Lock(context.Context, string, time.Duration) (schema.UnlockFunc, error) {
	return func() error { return nil }, nil
}

func evalPlanner(c PlannerCase) (problems []string, stmts int) {
	bad := func(f string, a ...any) { problems = append(problems, fmt.Sprintf(f, a...)) }
	defer func() {
		if p := recover(); p != nil {
			bad("panic: %v", p)
		}
	}()
	d := dialect(c.Dialect)
	dir, err := mighelp.Dir(map[string]string{})
	if err != nil {
		return []string{"harness: " + err.Error()}, 0
	}
	var opts []migrate.PlannerOption
	if c.Qualifier != "<none>" {
		opts = append(opts, migrate.PlanWithSchemaQualifier(c.Qualifier))
	}
	pl := migrate.NewPlanner(graphDriver{d: d}, dir, opts...)
	var plan *migrate.Plan
	switch c.Op {
	case "checkpoint":
		plan, err = pl.CheckpointSchema(context.Background(), "ck")
	default:
		// the desired state: the same graph with one more table.
		to := dfu.Base(d)
		to.Name = marker
		to.AddTables(schema.NewTable("added_t").SetSchema(to).AddColumns(schema.NewIntColumn("id", "int")))
		plan, err = pl.PlanSchema(context.Background(), "p", migrate.Realm(to.Realm))
	}
	if err != nil {
		bad("the Planner fails: %v", err)
		return
	}
	for _, ch := range plan.Changes {
		stmts++
		checkStmt(d, ch.Cmd, c.Qualifier, bad)
		rs, _ := ch.ReverseStmts()
		for _, r := range rs {
			checkStmt(d, r, c.Qualifier, bad)
		}
	}
	if stmts == 0 {
		bad("the Planner produced no statement")
	}
	return
}

func plannerCases() []PlannerCase {
	var cs []PlannerCase
	for _, d := range []string{"mysql", "postgres"} {
		for _, q := range []string{"<none>", "", tenant, marker} {
			for _, op := range []string{"plan", "checkpoint"} {
				cs = append(cs, PlannerCase{d, q, op})
			}
		}
	}
	return cs
}

func RunPlanner(r *report.Run) int {
	for _, c := range plannerCases() {
		r.Case(fmt.Sprintf("planner|%+v", c), true)
		if p, _ := evalPlanner(c); len(p) > 0 {
			r.Violate("", fmt.Sprintf("migrate.Planner %+v: %s", c, strings.Join(dedup(p), " | ")), map[string]any{"planner": c})
		}
	}
	return len(plannerCases())
}
