package c16

// Formatter slice: the SQL that `atlas schema inspect` / `schema diff` print through the `sql`
// template function ({{ sql . }}, {{ sql . "  " }}). The code (cmd/atlas/internal/cmdlog) is internal
// to the cmd/atlas module and needs a MySQL / PostgreSQL connection to be reached through the CLI, so
// bin/c16fmt - harness/c16fmt/main.go.src compiled as a virtual package of that module with
// `go build -overlay`, /repo untouched - renders every (dialect, bound to one schema or not, indent,
// inspect | diff) with the real differs and planners and this file judges the output: on a
// connection bound to one schema no statement mentions the schema's name.

import (
	"bufio"
	"bytes"
	"encoding/json"
	"fmt"
	"os"
	"os/exec"
	"path/filepath"
	"strings"

	"verif/engine/report"
)

const fmtSchema = "tenant_marker_schema"

type fmtOut struct {
	Dialect string `json:"dialect"`
	Bound   bool   `json:"bound"`
	Indent  string `json:"indent"`
	Kind    string `json:"kind"`
	SQL     string `json:"sql"`
	Err     string `json:"err,omitempty"`
}

func fmtBin() string {
	home := os.Getenv("VERIF_HOME")
	if home == "" {
		home = "/verif"
	}
	return filepath.Join(home, "bin", "c16fmt")
}

// RunFmt evaluates the formatter slice; returns the number of renderings judged.
func RunFmt(r *report.Run) int {
	cmd := exec.Command(fmtBin())
	var stdout, stderr bytes.Buffer
	cmd.Stdout, cmd.Stderr = &stdout, &stderr
	if err := cmd.Run(); err != nil {
		r.Violate("", fmt.Sprintf("formatter slice: harness binary %s failed: %v %s", fmtBin(), err, stderr.String()), nil)
		return 0
	}
	n := 0
	sc := bufio.NewScanner(&stdout)
	sc.Buffer(nil, 1<<20)
	for sc.Scan() {
		var o fmtOut
		if err := json.Unmarshal(sc.Bytes(), &o); err != nil {
			r.Violate("", "formatter slice: bad harness output: "+err.Error(), nil)
			continue
		}
		n++
		key := fmt.Sprintf("fmt|%s|bound=%v|indent=%q|%s", o.Dialect, o.Bound, o.Indent, o.Kind)
		r.Case(key, o.Bound)
		var problems []string
		switch {
		case o.Err != "":
			problems = append(problems, "rendering fails: "+o.Err)
		case !strings.Contains(o.SQL, "CREATE TABLE"):
			problems = append(problems, "no CREATE TABLE statement in the output")
		case o.Bound && strings.Contains(o.SQL, fmtSchema):
			problems = append(problems, "the connection is bound to one schema, yet the printed statements mention its name")
		case !o.Bound && !strings.Contains(o.SQL, fmtSchema):
			problems = append(problems, "the connection is not bound to a schema, yet the printed statements do not say which schema they are for")
		}
		if o.Indent != "" && !strings.Contains(o.SQL, "\n"+o.Indent) {
			problems = append(problems, "an indentation was asked for and is not in the output")
		}
		if len(problems) > 0 {
			r.Violate("", fmt.Sprintf("formatter %s bound=%v indent=%q %s: %s\n%s", o.Dialect, o.Bound, o.Indent, o.Kind, strings.Join(problems, " | "), o.SQL), map[string]any{"fmt": o})
		}
	}
	return n
}
