package c16

// Inspected slice: what the PostgreSQL *inspector* puts into the schema graph ends up in statements
// without passing the qualifier-aware builder (operator class names of index parts are printed as
// inspected). The real driver is opened on a mocked connection bound to one schema (the unexported
// search_path field is set the way sqlclient does it) and answers the seven catalogue queries of
// InspectSchema with one table, two columns and one GIN index whose operator class lives in
// {the connected schema, public, pg_catalog, a third schema}; the inspected schema is then planned
// (create and drop, empty qualifier, reverse statements included).

import (
	"context"
	"fmt"
	"reflect"
	"strings"
	"unsafe"

	"github.com/DATA-DOG/go-sqlmock"

	"ariga.io/atlas/sql/migrate"
	"ariga.io/atlas/sql/postgres"
	"ariga.io/atlas/sql/schema"

	"verif/engine/report"
)

type InspCase struct {
	Scope string `json:"scope"`      // the schema the connection is bound to
	OpcNS string `json:"opclass_ns"` // where the operator class lives
	// FK: "" = no foreign key; "own" = docs.parent_id references docs.id of the connected schema (a self
	// reference); "other_same_name" = it references table docs of schema shared; "other" = table parents
	// of schema shared. A key into another schema makes the table a two-schema matter: a plan scoped to
	// the connected schema has to be refused.
	FK string `json:"fk,omitempty"`
}

func evalInspected(c InspCase) (problems []string) {
	bad := func(f string, a ...any) { problems = append(problems, fmt.Sprintf(f, a...)) }
	defer func() {
		if p := recover(); p != nil {
			bad("panic: %v", p)
		}
	}()
	db, mk, err := sqlmock.New()
	if err != nil {
		return []string{"harness: " + err.Error()}
	}
	defer db.Close()
	mk.ExpectQuery("").WillReturnRows(sqlmock.NewRows([]string{"setting", "am", "crdb"}).AddRow("150000", "heap", nil))
	drv, err := postgres.Open(db)
	if err != nil {
		return []string{"harness: " + err.Error()}
	}
	d, ok := drv.(*postgres.Driver)
	if !ok {
		return []string{fmt.Sprintf("harness: postgres.Open returned %T", drv)}
	}
	f := reflect.ValueOf(d).Elem().FieldByName("conn").Elem().FieldByName("schema")
	reflect.NewAt(f.Type(), unsafe.Pointer(f.UnsafeAddr())).Elem().SetString(c.Scope)
	// the catalogue queries of InspectSchema, in the order they are issued.
	mk.ExpectQuery("").WillReturnRows(sqlmock.NewRows([]string{"schema_name", "comment"}).AddRow(c.Scope, nil))
	mk.ExpectQuery("").WillReturnRows(sqlmock.NewRows([]string{"schema_name", "enum_name", "comment", "enum_type", "enum_value"}))
	mk.ExpectQuery("").WillReturnRows(sqlmock.NewRows([]string{"oid", "table_schema", "table_name", "table_comment", "partition_attrs", "partition_strategy", "partition_exprs", "row_security"}).
		AddRow(nil, c.Scope, "docs", nil, nil, nil, nil, nil))
	cols := sqlmock.NewRows([]string{"table_name", "column_name", "data_type", "formatted", "is_nullable", "column_default", "character_maximum_length", "numeric_precision", "datetime_precision", "numeric_scale", "interval_type", "character_set_name", "collation_name", "is_identity", "identity_start", "identity_increment", "identity_last", "identity_generation", "generation_expression", "comment", "typtype", "typelem", "oid", "attnum"})
	cols.AddRow("docs", "id", "bigint", "int8", "NO", nil, nil, 64, nil, 0, nil, nil, nil, "NO", nil, nil, nil, nil, nil, nil, "b", nil, 20, nil)
	cols.AddRow("docs", "body", "text", "text", "NO", nil, nil, nil, nil, nil, nil, nil, nil, "NO", nil, nil, nil, nil, nil, nil, "b", nil, 25, nil)
	cols.AddRow("docs", "parent_id", "bigint", "int8", "YES", nil, nil, 64, nil, 0, nil, nil, nil, "NO", nil, nil, nil, nil, nil, nil, "b", nil, 20, nil)
	mk.ExpectQuery("").WillReturnRows(cols)
	mk.ExpectQuery("").WillReturnRows(sqlmock.NewRows([]string{"table_name", "index_name", "index_type", "column_name", "included", "primary", "unique", "opexpr", "constraints", "predicate", "expression", "desc", "nulls_first", "nulls_last", "comment", "options", "opclass_name", "opclass_schema", "opclass_default", "opclass_params", "indnullsnotdistinct"}).
		AddRow("docs", "docs_body_trgm", "gin", "body", false, false, false, nil, nil, nil, "body", false, false, false, nil, nil, "gin_trgm_ops", c.OpcNS, false, nil, false))
	fks := sqlmock.NewRows([]string{"constraint_name", "table_name", "column_name", "schema_name", "referenced_table_name", "referenced_column_name", "referenced_schema_name", "confupdtype", "confdeltype"})
	switch c.FK {
	case "own":
		fks.AddRow("docs_parent", "docs", "parent_id", c.Scope, "docs", "id", c.Scope, "a", "a")
	case "other_same_name":
		fks.AddRow("docs_parent", "docs", "parent_id", c.Scope, "docs", "id", "shared", "a", "a")
	case "other":
		fks.AddRow("docs_parent", "docs", "parent_id", c.Scope, "parents", "id", "shared", "a", "a")
	}
	mk.ExpectQuery("").WillReturnRows(fks)
	mk.ExpectQuery("").WillReturnRows(sqlmock.NewRows([]string{"table_name", "constraint_name", "expression", "column_name", "column_indexes"}))
	s, err := d.InspectSchema(context.Background(), c.Scope, &schema.InspectOptions{Mode: schema.InspectSchemas | schema.InspectTables | schema.InspectTypes})
	if err != nil {
		return []string{"harness: the mocked inspection fails: " + err.Error()}
	}
	if len(s.Tables) != 1 || len(s.Tables[0].Indexes) != 1 {
		return []string{fmt.Sprintf("harness: inspected %d tables", len(s.Tables))}
	}
	empty := schema.New(c.Scope)
	var stmts []string
	for _, pair := range [][2]*schema.Schema{{empty, s}, {s, empty}} {
		changes, err := d.SchemaDiff(pair[0], pair[1])
		if err != nil {
			return []string{"diff: " + err.Error()}
		}
		plan, err := d.PlanChanges(context.Background(), "p", changes, func(o *migrate.PlanOptions) { o.SchemaQualifier = new(string) })
		if strings.HasPrefix(c.FK, "other") {
			if err == nil {
				var all []string
				for _, ch := range plan.Changes {
					all = append(all, ch.Cmd)
				}
				bad("table docs has a foreign key into schema shared, yet a plan scoped to schema %q is made: %q", c.Scope, all)
			}
			continue
		}
		if err != nil {
			return []string{"plan: " + err.Error()}
		}
		for _, ch := range plan.Changes {
			stmts = append(stmts, ch.Cmd)
			rs, _ := ch.ReverseStmts()
			stmts = append(stmts, rs...)
		}
	}
	created := false
	for _, st := range stmts {
		if c.OpcNS == c.Scope && strings.Contains(st, c.Scope) {
			bad("the connection is bound to schema %q and the plan is scoped to it, yet a statement names it: %s", c.Scope, st)
		}
		if strings.HasPrefix(st, "CREATE INDEX") {
			created = true
			if !strings.Contains(st, "gin_trgm_ops") {
				bad("the operator class is lost: %s", st)
			}
			if c.OpcNS != c.Scope && c.OpcNS != "public" && c.OpcNS != "pg_catalog" && !strings.Contains(st, c.OpcNS+".gin_trgm_ops") {
				bad("an operator class of another schema (%s) is written without it: %s", c.OpcNS, st)
			}
		}
	}
	if !created && !strings.HasPrefix(c.FK, "other") {
		bad("no CREATE INDEX statement in %q", stmts)
	}
	return
}

func inspCases() []InspCase {
	var cs []InspCase
	for _, scope := range []string{"tenant_q", "public"} {
		for _, ns := range []string{scope, "public", "pg_catalog", "ext_schema"} {
			cs = append(cs, InspCase{Scope: scope, OpcNS: ns})
		}
	}
	for _, scope := range []string{"tenant_q", "public"} {
		for _, fk := range []string{"own", "other_same_name", "other"} {
			cs = append(cs, InspCase{Scope: scope, OpcNS: "public", FK: fk})
		}
	}
	return cs
}

// RunInspected evaluates the slice; returns the number of cases.
func RunInspected(r *report.Run) int {
	for _, c := range inspCases() {
		r.Case(fmt.Sprintf("inspected|%+v", c), true)
		if p := evalInspected(c); len(p) > 0 {
			r.Violate("", fmt.Sprintf("inspected %+v: %s", c, strings.Join(p, " | ")), map[string]any{"inspected": c})
		}
	}
	return len(inspCases())
}
