// Package c16: schema-scoped plans are schema-agnostic; a requested qualifier is always used.
package c16

import (
	"context"
	"encoding/json"
	"fmt"
	"github.com/DATA-DOG/go-sqlmock"
	"regexp"
	"sort"
	"strings"
	"sync"

	"ariga.io/atlas/sql/migrate"
	"ariga.io/atlas/sql/mysql"
	"ariga.io/atlas/sql/postgres"
	"ariga.io/atlas/sql/schema"

	"verif/engine/report"
	"verif/universe/dfu"
)

const marker = "zzq_marker"
const tenant = "tenant_q"

type Case struct {
	Dialect   string   `json:"dialect"`
	Kind      string   `json:"kind"` // edits | create_all | drop_all | two_schemas | add_schema | drop_schema | modify_schema
	Edits     []string `json:"edits,omitempty"`
	Qualifier string   `json:"qualifier"` // "<none>", "" or a name
	Mode      int      `json:"mode"`
}

func planner(d *dfu.Dialect) migrate.PlanApplier {
	if d == dfu.MySQL {
		return mysql.DefaultPlan
	}
	return postgres.DefaultPlan
}

func dialect(n string) *dfu.Dialect {
	if n == "mysql" || n == "tidb" {
		return dfu.MySQL
	}
	return dfu.Postgres
}

// the TiDB planner: the MySQL driver opened on a mocked connection that reports a TiDB version
// (planning issues no queries; one driver serves all cases).
var (
	tidbOnce    sync.Once
	tidbPlanner migrate.PlanApplier
	tidbErr     error
)

func plannerOf(c Case) (migrate.PlanApplier, error) {
	if c.Dialect != "tidb" {
		return planner(dialect(c.Dialect)), nil
	}
	tidbOnce.Do(func() {
		db, m, err := sqlmock.New()
		if err != nil {
			tidbErr = err
			return
		}
		m.ExpectQuery("SELECT @@version").WillReturnRows(sqlmock.NewRows([]string{"@@version", "@@collation_server", "@@character_set_server", "@@lower_case_table_names"}).
			AddRow("5.7.25-TiDB-v6.1.0", "utf8mb4_bin", "utf8mb4", 2))
		tidbPlanner, tidbErr = mysql.Open(db)
	})
	return tidbPlanner, tidbErr
}

func base(d *dfu.Dialect) *schema.Schema {
	s := dfu.Base(d)
	s.Name = marker
	return s
}

var tableNames = map[string]bool{"t": true, "p": true, "u": true, "x": true}
var typeNames = map[string]bool{"status": true, "mood": true, "status_new": true}

type ident struct {
	name  string
	start int
	qual  string // qualifier identifier directly before it ("" if none)
}

// idents extracts quoted identifiers outside string literals, with their qualifier if written q.name.
func idents(stmt string, q byte) []ident {
	var out []ident
	for i := 0; i < len(stmt); i++ {
		switch stmt[i] {
		case '\'':
			for i++; i < len(stmt); i++ {
				if stmt[i] == '\'' {
					if i+1 < len(stmt) && stmt[i+1] == '\'' {
						i++
						continue
					}
					break
				}
			}
		case q:
			j := i + 1
			for j < len(stmt) && stmt[j] != q {
				j++
			}
			id := ident{name: stmt[i+1 : j], start: i}
			if n := len(out); n > 0 && i > 0 && stmt[i-1] == '.' {
				prev := out[n-1]
				if prev.start+len(prev.name)+2 == i-1 {
					id.qual = prev.name
					out[n-1].name = "\x00qualifier:" + prev.name // consumed as a qualifier
				}
			}
			out = append(out, id)
			i = j
		}
	}
	return out
}

var reSchemaStmt = regexp.MustCompile(`(?i)^\s*(CREATE|DROP|ALTER)\s+(SCHEMA|DATABASE)\b`)
var reRenameTo = regexp.MustCompile(`(?i)^\s*ALTER\s+TYPE\b.*\bRENAME\s+TO\s+("[^"]+")\."[^"]+"`)
var reAlterType = regexp.MustCompile(`(?i)^\s*ALTER\s+TYPE\b`)
var reRenameToPos = regexp.MustCompile(`(?i)\bRENAME\s+TO\s+`)
var reIndexCtx = regexp.MustCompile(`(?i)^\s*(DROP\s+INDEX|ALTER\s+INDEX|COMMENT\s+ON\s+INDEX|REINDEX)`)

var indexNames = map[string]bool{"idx_a": true, "uq_b": true, "idx_ab": true, "idx_c": true, "t_c_key": true, "idx_d_inc": true, "idx_d_part": true, "idx_d_hash": true, "p_k": true, "p_uid": true}

func checkStmt(d *dfu.Dialect, stmt, q string, bad func(string, ...any)) {
	quote := byte('`')
	if d == dfu.Postgres {
		quote = '"'
	}
	// (a requested qualifier that equals the schema's name is, of course, allowed to appear.)
	if q != "<none>" && q != marker && strings.Contains(stmt, marker) {
		bad("statement mentions the schema's own name: %s", stmt)
	}
	if q != "<none>" && reSchemaStmt.MatchString(stmt) {
		bad("statement creates, drops or alters a schema: %s", stmt)
	}
	if q != "<none>" && q != "" {
		for _, n := range bareTypeRefs(stmt, quote) {
			bad("qualifier %q requested but type %q is written bare (unquoted, unqualified) in: %s", q, n, stmt)
		}
	}
	if m := reRenameTo.FindStringSubmatch(stmt); m != nil && q != "<none>" {
		bad("the new name of a renamed type is written with a qualifier (%s), which the statement does not take: %s", m[1], stmt)
	}
	ids := idents(stmt, quote)
	newName := -1 // ALTER TYPE a RENAME TO b: b is a bare name by syntax
	if reAlterType.MatchString(stmt) {
		if loc := reRenameToPos.FindStringIndex(stmt); loc != nil {
			newName = loc[1]
		}
	}
	for _, id := range ids {
		if id.start == newName {
			continue
		}
		isTab, isType := tableNames[id.name], typeNames[id.name]
		isIdx := d == dfu.Postgres && indexNames[id.name] && reIndexCtx.MatchString(stmt)
		if !isTab && !isType && !isIdx {
			continue
		}
		switch q {
		case "":
			if id.qual != "" {
				bad("empty qualifier requested but %q is written as %q.%q in: %s", id.name, id.qual, id.name, stmt)
			}
		case "<none>":
		default:
			if id.qual != q {
				bad("qualifier %q requested but %q is written with qualifier %q in: %s", q, id.name, id.qual, stmt)
			}
		}
	}
}

// bareTypeRefs returns the universe's type names that occur unquoted (hence unqualified) in the
// statement, outside string literals and quoted identifiers, e.g. ALTER COLUMN "ea" TYPE status[].
func bareTypeRefs(stmt string, quote byte) []string {
	b := []byte(stmt)
	for i := 0; i < len(b); i++ {
		if b[i] != '\'' && b[i] != quote {
			continue
		}
		c := b[i]
		j := i + 1
		for ; j < len(b); j++ {
			if b[j] == c {
				if c == '\'' && j+1 < len(b) && b[j+1] == c {
					b[j], b[j+1] = ' ', ' '
					j++
					continue
				}
				break
			}
			b[j] = ' '
		}
		i = j
	}
	var out []string
	for n := range typeNames {
		if regexp.MustCompile(`(^|[^\w."` + "`" + `])` + regexp.QuoteMeta(n) + `($|[^\w"` + "`" + `])`).Match(b) {
			out = append(out, n)
		}
	}
	sort.Strings(out)
	return out
}

func Eval(c Case) (problems []string, planErr string, nstmts int) {
	bad := func(f string, a ...any) { problems = append(problems, fmt.Sprintf(f, a...)) }
	d := dialect(c.Dialect)
	defer func() {
		if p := recover(); p != nil {
			bad("panic: %v", p)
		}
	}()
	from, to := base(d), base(d)
	wantErr := false
	var changes []schema.Change
	var err error
	switch c.Kind {
	case "edits":
		for _, n := range c.Edits {
			for _, e := range dfu.Edits(d) {
				if e.Name == n {
					e.Apply(to)
				}
			}
		}
		changes, err = d.Diff.SchemaDiff(from, to, schema.DiffNormalized())
	case "create_all":
		empty := schema.New(marker)
		schema.NewRealm(empty)
		changes, err = d.Diff.SchemaDiff(empty, to, schema.DiffNormalized())
	case "drop_all":
		empty := schema.New(marker)
		schema.NewRealm(empty)
		changes, err = d.Diff.SchemaDiff(from, empty, schema.DiffNormalized())
	case "two_schemas":
		// a change set that touches tables of two schemas.
		other := dfu.Base(d)
		other.Name = "other_schema"
		changes = []schema.Change{&schema.AddTable{T: dfu.T(to, "u")}, &schema.AddTable{T: dfu.T(other, "u")}}
		wantErr = true
	case "two_schemas_drop_modify":
		other := dfu.Base(d)
		other.Name = "other_schema"
		changes = []schema.Change{&schema.DropTable{T: dfu.T(from, "u")},
			&schema.ModifyTable{T: dfu.T(other, "u"), Changes: []schema.Change{&schema.AddColumn{C: schema.NewIntColumn("extra", "int")}}}}
		wantErr = true
	case "enum_in_other_schema":
		// a table of this schema whose column type is an enum living in another schema: two schemas.
		if d != dfu.Postgres {
			return nil, "postgres only", 0
		}
		other := schema.New("other_schema")
		tt := schema.NewTable("tx").SetSchema(to)
		tt.AddColumns(schema.NewIntColumn("id", "integer"), schema.NewEnumColumn("mood", schema.EnumName("mood"), schema.EnumValues("a", "b"), schema.EnumSchema(other)))
		changes = []schema.Change{&schema.AddTable{T: tt}}
		wantErr = true
	case "schemaless_tables":
		// tables that are not attached to any schema (built by a program, not inspected): the requested
		// qualifier applies to them all the same, in every statement kind.
		x := schema.NewTable("x").AddColumns(schema.NewIntColumn("id", "int"), schema.NewIntColumn("n", "int"))
		x.AddIndexes(schema.NewIndex("x_n").AddColumns(x.Columns[1]))
		u := schema.NewTable("u").AddColumns(schema.NewIntColumn("uid", "int"))
		changes = []schema.Change{
			&schema.AddTable{T: u},
			&schema.ModifyTable{T: x, Changes: []schema.Change{
				&schema.AddColumn{C: schema.NewIntColumn("extra", "int")},
				&schema.RenameIndex{From: schema.NewIndex("x_n_old"), To: x.Indexes[0]},
				&schema.DropIndex{I: schema.NewIndex("idx_a").AddColumns(x.Columns[0])},
			}},
		}
	case "drop_fk_to_other_schema", "modify_fk_from_other_schema":
		// the desired table has no foreign key to another schema any more, the current one has: the
		// statement that drops it is fine, its reverse would name a table of this schema.
		other := schema.New("other_schema")
		parent := schema.NewTable("parent").SetSchema(other).AddColumns(schema.NewIntColumn("id", "int"))
		parent.SetPrimaryKey(schema.NewPrimaryKey(parent.Columns[0]))
		other.AddTables(parent)
		tt := dfu.T(to, "u")
		old := schema.NewForeignKey("u_parent").SetTable(tt).AddColumns(tt.Columns[0]).SetRefTable(parent).AddRefColumns(parent.Columns[0])
		if c.Kind == "drop_fk_to_other_schema" {
			changes = []schema.Change{&schema.ModifyTable{T: tt, Changes: []schema.Change{&schema.DropForeignKey{F: old}}}}
		} else {
			pt := dfu.T(to, "p")
			now := schema.NewForeignKey("u_parent").SetTable(tt).AddColumns(tt.Columns[0]).SetRefTable(pt).AddRefColumns(pt.Columns[0])
			tt.AddForeignKeys(now)
			changes = []schema.Change{&schema.ModifyTable{T: tt, Changes: []schema.Change{&schema.ModifyForeignKey{From: old, To: now, Change: schema.ChangeRefTable}}}}
		}
		wantErr = true
	case "rename_table_across_schemas":
		other := schema.New("other_schema")
		moved := schema.NewTable("x").SetSchema(other).AddColumns(schema.NewIntColumn("id", "int"))
		changes = []schema.Change{&schema.RenameTable{From: dfu.T(from, "u"), To: moved}}
		wantErr = true
	case "self_reference":
		// a table with a foreign key to itself: created, the key added to an existing table, and dropped
		// (its reverse re-creates table and key): the referenced table is written like the table itself.
		mk := func() *schema.Table {
			n := schema.NewTable("x").SetSchema(to)
			n.AddColumns(schema.NewIntColumn("id", "int"), schema.NewIntColumn("parent_id", "int"))
			n.SetPrimaryKey(schema.NewPrimaryKey(n.Columns[0]))
			return n
		}
		withFK := mk()
		withFK.AddForeignKeys(schema.NewForeignKey("x_parent").AddColumns(withFK.Columns[1]).SetRefTable(withFK).AddRefColumns(withFK.Columns[0]))
		plain := mk()
		fk := schema.NewForeignKey("x_parent").SetTable(plain).AddColumns(plain.Columns[1]).SetRefTable(plain).AddRefColumns(plain.Columns[0])
		dropped := mk()
		dropped.Name = "u"
		dropped.AddForeignKeys(schema.NewForeignKey("u_parent").AddColumns(dropped.Columns[1]).SetRefTable(dropped).AddRefColumns(dropped.Columns[0]))
		changes = []schema.Change{
			&schema.AddTable{T: withFK},
			&schema.ModifyTable{T: plain, Changes: []schema.Change{&schema.AddForeignKey{F: fk}}},
			&schema.DropTable{T: dropped},
		}
	case "rename_enum":
		// an enum type of this schema is renamed (next to a new one): the type is referenced like in
		// every other statement; the new name is not qualified (ALTER TYPE .. RENAME TO takes a bare name).
		if d != dfu.Postgres {
			return nil, "not modelled", 0
		}
		e1 := &schema.EnumType{T: "status", Values: []string{"a", "b"}, Schema: to}
		e2 := &schema.EnumType{T: "status_new", Values: []string{"a", "b"}, Schema: to}
		changes = []schema.Change{
			&schema.AddObject{O: &schema.EnumType{T: "mood", Values: []string{"x"}, Schema: to}},
			&schema.RenameObject{From: e1, To: e2},
		}
	case "fk_to_other_schema":
		// a table of this schema with a foreign key to a table of another schema: written without the
		// qualifier, the reference would name a table of this schema.
		other := schema.New("other_schema")
		parent := schema.NewTable("parent").SetSchema(other).AddColumns(schema.NewIntColumn("id", "int"))
		parent.SetPrimaryKey(schema.NewPrimaryKey(parent.Columns[0]))
		other.AddTables(parent)
		tt := schema.NewTable("tx").SetSchema(to)
		tt.AddColumns(schema.NewIntColumn("id", "int"), schema.NewIntColumn("pid", "int"))
		tt.AddForeignKeys(schema.NewForeignKey("tx_parent").AddColumns(tt.Columns[1]).SetRefTable(parent).AddRefColumns(parent.Columns[0]))
		changes = []schema.Change{&schema.AddTable{T: tt}}
		wantErr = true
	case "add_schema":
		changes = []schema.Change{&schema.AddSchema{S: to}, &schema.AddTable{T: dfu.T(to, "u")}}
		wantErr = true
	case "drop_schema":
		changes = []schema.Change{&schema.DropSchema{S: from}}
		wantErr = true
	case "modify_schema":
		to.SetComment("changed")
		to.Attrs = append(to.Attrs, &schema.Charset{V: "latin1"})
		changes = []schema.Change{&schema.ModifySchema{S: to, Changes: []schema.Change{&schema.ModifyAttr{From: &schema.Comment{Text: "a"}, To: &schema.Comment{Text: "changed"}}}}}
		wantErr = true
	}
	if err != nil {
		if err.Error() != "" && strings.Contains(err.Error(), "not supported") {
			return nil, "diff: " + err.Error(), 0
		}
		bad("diff: %v", err)
		return
	}
	if len(changes) == 0 {
		return nil, "no changes", 0
	}
	opts := []migrate.PlanOption{func(o *migrate.PlanOptions) {
		o.Mode = migrate.PlanMode(c.Mode)
		if c.Qualifier != "<none>" {
			q := c.Qualifier
			o.SchemaQualifier = &q
		}
	}}
	pl, err := plannerOf(c)
	if err != nil {
		return nil, "harness: " + err.Error(), 0
	}
	plan, err := pl.PlanChanges(context.Background(), "p", changes, opts...)
	if wantErr && c.Qualifier != "<none>" {
		if err == nil {
			// a schema-level / cross-schema change set was planned: its statements are judged like any other.
			bad("change set %s is planned although the plan is scoped to one schema", c.Kind)
		} else {
			return
		}
	}
	if err != nil {
		return nil, "plan: " + err.Error(), 0
	}
	for _, ch := range plan.Changes {
		nstmts++
		checkStmt(d, ch.Cmd, c.Qualifier, bad)
		rs, err := ch.ReverseStmts()
		if err != nil {
			bad("reverse: %v", err)
		}
		for _, r := range rs {
			nstmts++
			checkStmt(d, r, c.Qualifier, bad)
		}
	}
	return
}

func cases(tier string) []Case {
	var cs []Case
	// (a custom qualifier that happens to be the name of one of the schemas involved is still "one schema".)
	quals := []string{"<none>", "", tenant, marker, "other_schema"}
	modes := []int{int(migrate.PlanModeUnset), int(migrate.PlanModeInPlace), int(migrate.PlanModeDeferred), int(migrate.PlanModeDump)}
	for _, d := range []*dfu.Dialect{dfu.MySQL, dfu.Postgres} {
		for _, q := range quals {
			for _, m := range modes {
				for _, k := range []string{"create_all", "drop_all", "two_schemas", "two_schemas_drop_modify", "enum_in_other_schema", "fk_to_other_schema", "schemaless_tables", "self_reference", "rename_enum", "drop_fk_to_other_schema", "modify_fk_from_other_schema", "rename_table_across_schemas", "add_schema", "drop_schema", "modify_schema"} {
					cs = append(cs, Case{d.Name, k, nil, q, m})
				}
				es := dfu.Edits(d)
				for _, e := range es {
					cs = append(cs, Case{d.Name, "edits", []string{e.Name}, q, m})
				}
				if tier == "thorough" {
					for i := range es {
						for j := i + 1; j < len(es); j++ {
							if dfu.Compatible(es[i], es[j]) {
								cs = append(cs, Case{d.Name, "edits", []string{es[i].Name, es[j].Name}, q, m})
							}
						}
					}
				}
			}
		}
	}
	// the TiDB planner plans change by change: the scope is a property of the whole change set.
	for _, q := range quals {
		for _, k := range []string{"create_all", "drop_all", "two_schemas", "two_schemas_drop_modify", "fk_to_other_schema", "drop_fk_to_other_schema", "rename_table_across_schemas", "add_schema", "drop_schema"} {
			cs = append(cs, Case{"tidb", k, nil, q, int(migrate.PlanModeUnset)})
		}
		for _, e := range dfu.Edits(dfu.MySQL) {
			cs = append(cs, Case{"tidb", "edits", []string{e.Name}, q, int(migrate.PlanModeUnset)})
		}
	}
	return cs
}

func Run(r *report.Run) {
	r.Rule = "MySQL and PostgreSQL planners (connection-less DefaultPlan) and the TiDB planner (MySQL driver on a mocked TiDB connection; it plans change by change, default plan mode); one schema named with a unique marker; change sets from the real differ: every single edit of the differ universe (thorough: every compatible pair), create-all, drop-all, plus hand-built schema-level / two-schema change sets; x qualifier {not requested, empty, custom, the name of either schema involved} x plan mode {unset, in-place, deferred, dump}; every Cmd and every reverse statement is tokenised by our own quoted-identifier scanner; plus the `sql` template function of `schema inspect` / `schema diff` (cmd/atlas/internal/cmdlog, reached by a harness compiled into that module with go build -overlay): MySQL / PostgreSQL x connection bound to one schema or not x indent {none, two spaces, tab} x {inspect, diff}: a bound connection prints no schema name; plus an inspected slice: the real PostgreSQL inspector on a mocked connection bound to one schema (one table, a GIN index whose operator class lives in the connected schema / public / pg_catalog / a third schema), the inspected schema planned as create and drop under the empty qualifier; plus a Planner slice: migrate.NewPlanner with PlanWithSchemaQualifier {not given, empty, custom, the schema's own name} over a driver whose database is the universe's base schema, PlanSchema and CheckpointSchema: every statement of either plan carries the requested qualifier; non-trivial = case whose plan has >=1 statement; distinct = (dialect, change set, qualifier, mode)"
	r.Assumptions = []string{
		"table, enum-type and (PostgreSQL, in DROP/ALTER/COMMENT ON INDEX) index identifiers are recognised by name: the universe's names never collide with column or constraint names",
		"change sets the connection-less planner cannot plan (needs a server) are counted as plan errors, not judged",
	}
	r.Set("formatter_renderings", RunFmt(r))
	r.Set("inspected_cases", RunInspected(r))
	r.Set("planner_cases", RunPlanner(r))
	cs := cases(r.Tier)
	perr := 0
	stmts := 0
	for _, c := range cs {
		problems, planErr, n := Eval(c)
		stmts += n
		r.Case(fmt.Sprintf("%v", c), n > 0)
		if planErr != "" {
			perr++
		}
		if len(problems) > 0 {
			r.Violate(classify(c, problems), fmt.Sprintf("%s %s %v qualifier=%q mode=%d: %s", c.Dialect, c.Kind, c.Edits, c.Qualifier, c.Mode, strings.Join(dedup(problems), " | ")), c)
		}
		if c.Kind == "drop_all" && c.Qualifier == tenant && c.Mode == 0 && c.Dialect == "postgres" {
			r.Sample(c)
		}
	}
	r.Set("statements_tokenised", stmts)
	r.Set("cases_not_planned", perr)
}

var reSchemaLevel = regexp.MustCompile("(?i): (ALTER DATABASE [`\"]" + marker + "[`\"]|COMMENT ON SCHEMA [`\"]" + marker + "[`\"])")

// classify: the listed finding is "a ModifySchema change planned in a mode matching in-place with the
// empty qualifier yields ALTER DATABASE / COMMENT ON SCHEMA naming the schema" - and nothing else.
func classify(c Case, problems []string) string {
	if c.Kind == "enum_in_other_schema" {
		for _, p := range problems {
			if p != "change set enum_in_other_schema is planned although the plan is scoped to one schema" && !strings.Contains(p, `"mood"`) {
				return ""
			}
		}
		return "table-with-enum-of-another-schema-planned-in-a-scoped-plan"
	}
	// (the same branch of CheckChangesScope lets it through when the qualifier is the schema's own name.)
	if (c.Qualifier != "" && c.Qualifier != marker) || !migrate.PlanMode(c.Mode).Is(migrate.PlanModeInPlace) {
		return ""
	}
	for _, p := range problems {
		if !reSchemaLevel.MatchString(p) && p != "change set modify_schema is planned although the plan is scoped to one schema" {
			return ""
		}
	}
	return "modify-schema-planned-in-place-names-the-schema"
}

func dedup(ss []string) []string {
	seen := map[string]bool{}
	var out []string
	for _, s := range ss {
		if !seen[s] {
			seen[s] = true
			out = append(out, s)
		}
	}
	return out
}

func Replay(r *report.Run, raw json.RawMessage) {
	var fv struct {
		Case struct {
			Fmt *fmtOut `json:"fmt"`
		}
	}
	var iv struct {
		Case struct {
			Insp *InspCase `json:"inspected"`
		}
	}
	var pv struct {
		Case struct {
			P *PlannerCase `json:"planner"`
		}
	}
	if json.Unmarshal(raw, &pv) == nil && pv.Case.P != nil {
		r.Case("a", true)
		r.Case("b", true)
		if p, _ := evalPlanner(*pv.Case.P); len(p) > 0 {
			r.Violate("", strings.Join(dedup(p), " | "), map[string]any{"planner": pv.Case.P})
		}
		return
	}
	if json.Unmarshal(raw, &iv) == nil && iv.Case.Insp != nil {
		r.Case("a", true)
		r.Case("b", true)
		if p := evalInspected(*iv.Case.Insp); len(p) > 0 {
			r.Violate("", strings.Join(p, " | "), map[string]any{"inspected": iv.Case.Insp})
		}
		return
	}
	if json.Unmarshal(raw, &fv) == nil && fv.Case.Fmt != nil {
		// the formatter slice is small: all of it is rendered and judged again.
		RunFmt(r)
		return
	}
	var v struct{ Case Case }
	if err := json.Unmarshal(raw, &v); err != nil {
		r.Violate("", "bad replay file: "+err.Error(), nil)
		return
	}
	problems, planErr, n := Eval(v.Case)
	fmt.Printf("  case %+v statements=%d planErr=%q\n", v.Case, n, planErr)
	r.Case("a", true)
	r.Case("b", true)
	if len(problems) > 0 {
		r.Violate(classify(v.Case, problems), strings.Join(dedup(problems), " | "), v.Case)
	}
}
