package c03

import (
	"context"
	"database/sql"
	"fmt"
	"os"
	"strings"

	"verif/clih"
	"verif/engine/enum"
	"verif/engine/report"
	"verif/sqliteh"
)

// ---------- CLI slice: the exports as a user gets them ----------
//
// `atlas schema inspect --url sqlite://file` (HCL) and `--format '{{ sql . }}'` on a database file made by
// our own DDL; the SQL text is executed by our own connection on a fresh file, the HCL is applied to a
// fresh file by `atlas schema apply`; both copies must have the catalogue of the original (our pragma
// dump), `atlas schema diff` must call them synced in both directions, and inspecting twice must give
// the same bytes.

func openFile(w *clih.Work, name string) (*sql.DB, error) {
	return sql.Open("sqlite3", "file:"+w.Path(name)+"?_fk=1")
}

func dumpFile(ctx context.Context, w *clih.Work, name string) (sqliteh.Catalog, error) {
	db, err := openFile(w, name)
	if err != nil {
		return sqliteh.Catalog{}, err
	}
	defer db.Close()
	return sqliteh.Dump(ctx, db, sqliteh.DumpOptions{UniqueOriginInsensitive: true})
}

func evalCLI(ctx context.Context, c Case) (problems []string, skipped string) {
	bad := func(f string, a ...any) { problems = append(problems, fmt.Sprintf(f, a...)) }
	w, err := clih.NewWork()
	if err != nil {
		return []string{"harness: " + err.Error()}, ""
	}
	defer w.Close()
	d := stateOf(c.S).Build()
	if err := w.Exec("orig.sqlite", d.DDL(c.Spelling)...); err != nil {
		return nil, "engine rejects the state"
	}
	want, err := dumpFile(ctx, w, "orig.sqlite")
	if err != nil {
		return []string{"harness: " + err.Error()}, ""
	}
	hcl1 := w.Run(nil, "schema", "inspect", "--url", w.URL("orig.sqlite"))
	hcl2 := w.Run(nil, "schema", "inspect", "--url", w.URL("orig.sqlite"))
	sql1 := w.Run(nil, "schema", "inspect", "--url", w.URL("orig.sqlite"), "--format", "{{ sql . }}")
	sql2 := w.Run(nil, "schema", "inspect", "--url", w.URL("orig.sqlite"), "--format", "{{ sql . }}")
	if hcl1.Exit != 0 || sql1.Exit != 0 {
		bad("`schema inspect` failed: hcl %s | sql %s", hcl1, sql1)
		return
	}
	if hcl1.Stdout != hcl2.Stdout || sql1.Stdout != sql2.Stdout {
		bad("`schema inspect` run twice on the same database gives different output")
	}
	// SQL export, executed by our own connection.
	if db, err := openFile(w, "fromsql.sqlite"); err != nil {
		bad("harness: %v", err)
	} else {
		_, err := db.ExecContext(ctx, sql1.Stdout)
		db.Close()
		if err != nil {
			bad("the SQL export does not execute on a fresh database: %v\n%s", err, sql1.Stdout)
		} else if got, err := dumpFile(ctx, w, "fromsql.sqlite"); err != nil {
			bad("harness: %v", err)
		} else if got.String() != want.String() {
			bad("database recreated from the SQL export differs from the original:\n%s", lineDiff(want.Lines, got.Lines))
		}
	}
	// HCL export, applied by the CLI.
	os.WriteFile(w.Path("export.hcl"), []byte(hcl1.Stdout), 0o644)
	w.Exec("fromhcl.sqlite", "PRAGMA user_version = 0")
	ap := w.Run(nil, "schema", "apply", "--url", w.URL("fromhcl.sqlite"), "--to", "file://"+w.Path("export.hcl"), "--auto-approve")
	if ap.Exit != 0 {
		bad("the HCL export cannot be applied to a fresh database: %s", ap)
	} else if got, err := dumpFile(ctx, w, "fromhcl.sqlite"); err != nil {
		bad("harness: %v", err)
	} else if got.String() != want.String() {
		bad("database recreated from the HCL export differs from the original:\n%s", lineDiff(want.Lines, got.Lines))
	}
	// the CLI itself sees no difference, in both directions, for both copies and for the HCL file.
	for _, p := range [][2]string{
		{w.URL("orig.sqlite"), w.URL("fromsql.sqlite")}, {w.URL("fromsql.sqlite"), w.URL("orig.sqlite")},
		{w.URL("orig.sqlite"), w.URL("fromhcl.sqlite")}, {w.URL("fromhcl.sqlite"), w.URL("orig.sqlite")},
	} {
		if len(problems) > 0 {
			break
		}
		res := w.Run(nil, "schema", "diff", "--from", p[0], "--to", p[1])
		if res.Exit != 0 || !strings.Contains(res.Stdout, "Schemas are synced") {
			bad("`schema diff` between the original and a copy recreated from its export reports changes: %s", res)
		}
	}
	return
}

func runCLI(ctx context.Context, r *report.Run, cs []Case) int {
	defer clih.Cleanup()
	type out struct {
		p []string
		s string
	}
	res := make([]out, len(cs))
	enum.Parallel(len(cs), func(i, _ int) {
		p, s := evalCLI(ctx, cs[i])
		res[i] = out{p, s}
	})
	n := 0
	for i, c := range cs {
		if res[i].s != "" {
			continue
		}
		n++
		r.CaseDistinct(len(c.S) > 0)
		if len(res[i].p) > 0 {
			d := stateOf(c.S).Build()
			r.Violate(classify(d, res[i].p), fmt.Sprintf("CLI state=%v spelling=%d: %s", c.S, c.Spelling, strings.Join(res[i].p, " | ")), map[string]any{"cli": c})
		}
	}
	return n
}
