// Package c03: schema exports are faithful - inspected HCL and SQL recreate the same database (SQLite).
package c03

import (
	"context"
	"encoding/json"
	"fmt"
	"strings"
	"sync"
	"verif/clih"

	"ariga.io/atlas/sql/migrate"
	"ariga.io/atlas/sql/schema"
	"ariga.io/atlas/sql/sqlite"

	"verif/engine/enum"
	"verif/engine/report"
	"verif/sqliteh"
	"verif/universe/squ"
)

type Case struct {
	S        []string `json:"state"`
	Spelling int      `json:"spelling"`
}

func stateOf(names []string) squ.State {
	var s squ.State
	for _, n := range names {
		for i, f := range squ.Features {
			if f.Name == n {
				s = append(s, i)
			}
		}
	}
	return s
}

type Result struct {
	Problems []string
	Key      string
	Skipped  string
	HCL, SQL string
}

func describe(cs []schema.Change) string {
	var out []string
	for _, c := range cs {
		switch c := c.(type) {
		case *schema.ModifyTable:
			var in []string
			for _, cc := range c.Changes {
				in = append(in, fmt.Sprintf("%T", cc))
			}
			out = append(out, fmt.Sprintf("ModifyTable(%s: %s)", c.T.Name, strings.Join(in, ",")))
		default:
			out = append(out, fmt.Sprintf("%T", c))
		}
	}
	return strings.Join(out, "; ")
}

func exportSQL(ctx context.Context, e *sqliteh.Engine, r *schema.Realm) (string, []string, error) {
	var changes schema.Changes
	for _, s := range r.Schemas {
		for _, t := range s.Tables {
			changes = append(changes, &schema.AddTable{T: t})
		}
	}
	plan, err := e.Atlas.PlanChanges(ctx, "plan", changes, func(o *migrate.PlanOptions) {
		o.Mode = migrate.PlanModeDump
		o.SchemaQualifier = new(string)
		o.Indent = "  "
	})
	if err != nil {
		return "", nil, err
	}
	f, err := migrate.DefaultFormatter.FormatFile(plan)
	if err != nil {
		return "", nil, err
	}
	// read the script back the way a user would run it: through the dialect's statement scanner.
	stmts, err := migrate.FileStmts(e.Atlas.Driver, migrate.NewLocalFile("export.sql", f.Bytes()))
	if err != nil {
		return "", nil, err
	}
	return string(f.Bytes()), stmts, nil
}

// bothWays diffs the databases of two engines in both directions through atlas.
func bothWays(ctx context.Context, a, b *sqliteh.Engine, what string, bad func(string, ...any)) {
	for dir, pair := range [][2]*sqliteh.Engine{{a, b}, {b, a}} {
		x, err1 := pair[0].Atlas.InspectRealm(ctx, nil)
		y, err2 := pair[1].Atlas.InspectRealm(ctx, nil)
		if err1 != nil || err2 != nil {
			bad("%s: inspect: %v %v", what, err1, err2)
			return
		}
		cs, err := pair[0].Atlas.RealmDiff(x, y, schema.DiffNormalized())
		if err != nil {
			bad("%s: diff: %v", what, err)
			return
		}
		if len(cs) > 0 {
			bad("%s: diff (direction %d) is not empty: %s", what, dir, describe(cs))
		}
	}
}

func Eval(ctx context.Context, c Case) (res Result) {
	bad := func(f string, a ...any) { res.Problems = append(res.Problems, fmt.Sprintf(f, a...)) }
	S := stateOf(c.S).Build()
	e, err := sqliteh.Open(ctx)
	if err != nil {
		bad("harness: %v", err)
		return
	}
	defer e.Close()
	if err := e.Exec(ctx, S.DDL(c.Spelling)...); err != nil {
		res.Skipped = "engine rejects the state: " + err.Error()
		return
	}
	defer func() {
		if p := recover(); p != nil {
			bad("panic: %v", p)
		}
		if len(res.Problems) > 0 {
			res.Key = classify(S, res.Problems)
		}
	}()
	o := sqliteh.DumpOptions{UniqueOriginInsensitive: true}
	orig, err := sqliteh.Dump(ctx, e.Own, o)
	if err != nil {
		bad("harness: %v", err)
		return
	}
	r1, err := e.Atlas.InspectRealm(ctx, nil)
	if err != nil {
		bad("inspect: %v", err)
		return
	}
	hcl1, err := e.Atlas.MarshalSpec(r1)
	if err != nil {
		bad("marshal HCL: %v", err)
		return
	}
	res.HCL = string(hcl1)
	sql1, stmts, err := exportSQL(ctx, e, r1)
	if err != nil {
		bad("SQL export: %v", err)
		return
	}
	res.SQL = sql1
	// inspecting the unchanged database twice yields identical output.
	r1b, err := e.Atlas.InspectRealm(ctx, nil)
	if err != nil {
		bad("second inspect: %v", err)
		return
	}
	hcl1b, _ := e.Atlas.MarshalSpec(r1b)
	sql1b, _, _ := exportSQL(ctx, e, r1b)
	if string(hcl1b) != string(hcl1) {
		bad("HCL export differs between two inspections of the same database")
	}
	if sql1b != sql1 {
		bad("SQL export differs between two inspections of the same database")
	}
	// HCL: evaluate, diff against the original in both directions.
	for dir := 0; dir < 2; dir++ {
		fresh, err := e.Atlas.InspectRealm(ctx, nil)
		if err != nil {
			bad("inspect: %v", err)
			return
		}
		ev := &schema.Realm{}
		if err := sqlite.EvalHCLBytes(hcl1, ev, nil); err != nil {
			bad("exported HCL does not evaluate: %v\n%s", err, hcl1)
			return
		}
		var cs []schema.Change
		if dir == 0 {
			cs, err = e.Atlas.RealmDiff(fresh, ev, schema.DiffNormalized())
		} else {
			cs, err = e.Atlas.RealmDiff(ev, fresh, schema.DiffNormalized())
		}
		if err != nil {
			bad("diff with evaluated HCL: %v", err)
			return
		}
		if len(cs) > 0 {
			bad("HCL export: diff with the original (direction %d) is not empty: %s", dir, describe(cs))
		}
	}
	// HCL applied to an empty database recreates the same catalogue.
	h, err := sqliteh.Open(ctx)
	if err != nil {
		bad("harness: %v", err)
		return
	}
	defer h.Close()
	{
		ev := &schema.Realm{}
		if err := sqlite.EvalHCLBytes(hcl1, ev, nil); err != nil {
			bad("exported HCL does not evaluate: %v", err)
			return
		}
		cur, _ := h.Atlas.InspectRealm(ctx, nil)
		cs, err := h.Atlas.RealmDiff(cur, ev, schema.DiffNormalized())
		if err != nil {
			bad("diff empty->HCL: %v", err)
			return
		}
		if err := h.Atlas.ApplyChanges(ctx, cs); err != nil {
			bad("HCL export cannot be applied to an empty database: %v", err)
		} else {
			got, _ := sqliteh.Dump(ctx, h.Own, o)
			if got.String() != orig.String() {
				bad("database recreated from the HCL export differs from the original:\n%s", lineDiff(orig.Lines, got.Lines))
			}
		}
	}
	// SQL: run the script on an empty database.
	s, err := sqliteh.Open(ctx)
	if err != nil {
		bad("harness: %v", err)
		return
	}
	defer s.Close()
	if err := s.Exec(ctx, stmts...); err != nil {
		bad("SQL export fails on an empty database: %v\n%s", err, sql1)
		return
	}
	got, _ := sqliteh.Dump(ctx, s.Own, o)
	if got.String() != orig.String() {
		bad("database recreated from the SQL export differs from the original:\n%s", lineDiff(orig.Lines, got.Lines))
	}
	bothWays(ctx, e, s, "SQL export", bad)
	return
}

func lineDiff(want, got []string) string {
	w, g := map[string]bool{}, map[string]bool{}
	for _, l := range want {
		w[l] = true
	}
	for _, l := range got {
		g[l] = true
	}
	var b strings.Builder
	for _, l := range want {
		if !g[l] {
			b.WriteString("    original: " + l + "\n")
		}
	}
	for _, l := range got {
		if !w[l] {
			b.WriteString("    recreated:" + l + "\n")
		}
	}
	return b.String()
}

func classify(d *squ.DB, problems []string) string {
	if d.HasColumn("t", "q") && squ.OnlyAboutColumn(problems, "q") {
		return "string-default-delimited-by-apostrophes-is-taken-for-a-quoted-literal"
	}
	for _, t := range d.Tables {
		if len(t.PK) < 2 {
			continue
		}
		pos := map[string]int{}
		for i, c := range t.Cols {
			pos[c.Name] = i
		}
		for i := 1; i < len(t.PK); i++ {
			if pos[t.PK[i-1]] > pos[t.PK[i]] {
				return "composite-pk-order-differs-from-column-order"
			}
		}
	}
	return ""
}

func Run(r *report.Run) {
	ctx := context.Background()
	k := 2
	if r.Tier == "thorough" {
		k = 3
	}
	r.Rule = fmt.Sprintf("every engine-valid state of the SQLite universe with <=%d features x 2 DDL spellings, created on a real engine by our own writer; HCL export (MarshalSpec of the inspected realm) evaluated and diffed both ways and applied to an empty engine; SQL export (PlanModeDump plan, default formatter, read back through the SQLite statement scanner) executed on an empty engine and diffed both ways; catalogue of each recreated database compared with the original through our own pragma dump; two inspections must give identical bytes; CLI slice (states with one feature fewer): the same through the real `atlas schema inspect` (HCL and {{ sql . }}), the SQL text executed by our own connection, the HCL applied by `atlas schema apply`, `atlas schema diff` synced in both directions; non-trivial = state with >=1 feature; distinct = (state, spelling)", k)
	r.Assumptions = []string{
		"catalogue comparison normalises auto-index names, the origin of unique indexes, column order and the ordinal name atlas gives unnamed foreign keys",
	}
	states := squ.Universe(k)
	var cs []Case
	for _, s := range states {
		for sp := 0; sp < 2; sp++ {
			cs = append(cs, Case{s.Names(), sp})
		}
	}
	var mu sync.Mutex
	skipped := 0
	err := enum.ProcMap(len(cs), func(i int) Result { return Eval(ctx, cs[i]) }, func(i int, res Result) {
		c := cs[i]
		r.Case(fmt.Sprintf("%v|%d", c.S, c.Spelling), len(c.S) > 0 && res.Skipped == "")
		if res.Skipped != "" {
			mu.Lock()
			skipped++
			mu.Unlock()
		}
		if len(res.Problems) > 0 {
			r.Violate(res.Key, fmt.Sprintf("state=%v spelling=%d: %s", c.S, c.Spelling, strings.Join(res.Problems, " | ")), c)
		}
		if len(c.S) == 2 && c.S[0] == "col_h_virtual" && c.S[1] == "check_paren_literal" {
			r.Sample(map[string]any{"case": c, "hcl": res.HCL, "sql": res.SQL})
		}
	})
	if err != nil {
		r.Violate("", "harness: "+err.Error(), nil)
	}
	r.Set("states", len(states))
	r.Set("skipped_engine_invalid", skipped)
	// CLI slice: states with <=1 feature (thorough: <=2) through the real `schema inspect` / `schema apply` / `schema diff`.
	var ccs []Case
	for _, s := range squ.Universe(k - 1) {
		for sp := 0; sp < 2; sp++ {
			ccs = append(ccs, Case{s.Names(), sp})
		}
	}
	r.Set("cli_cases", runCLI(ctx, r, ccs))
}

func Replay(r *report.Run, raw json.RawMessage) {
	var v struct{ Case Case }
	if err := json.Unmarshal(raw, &v); err != nil {
		r.Violate("", "bad replay file: "+err.Error(), nil)
		return
	}
	var cv struct {
		Case struct {
			C *Case `json:"cli"`
		}
	}
	if json.Unmarshal(raw, &cv) == nil && cv.Case.C != nil {
		defer clih.Cleanup()
		r.Case("a", true)
		r.Case("b", true)
		if p, _ := evalCLI(context.Background(), *cv.Case.C); len(p) > 0 {
			r.Violate(classify(stateOf(cv.Case.C.S).Build(), p), strings.Join(p, " | "), map[string]any{"cli": cv.Case.C})
		}
		return
	}
	res := Eval(context.Background(), v.Case)
	fmt.Printf("  state=%v spelling=%d skipped=%q\n--- HCL\n%s--- SQL\n%s", v.Case.S, v.Case.Spelling, res.Skipped, res.HCL, res.SQL)
	r.Case("a", true)
	r.Case("b", true)
	if len(res.Problems) > 0 {
		r.Violate(res.Key, strings.Join(res.Problems, " | "), v.Case)
	}
}
