// Package c14: the dev database is never damaged - refused if not empty, always handed back empty.
package c14

import (
	"encoding/json"
	"fmt"
	"os"
	"sort"
	"strings"

	"verif/clih"
	"verif/engine/enum"
	"verif/engine/report"
)

type Case struct {
	Cmd    string `json:"cmd"`   // migrate_diff | migrate_validate | migrate_lint | schema_apply_sql | schema_apply_hcl | schema_diff_sql | schema_inspect_sql
	Dev    string `json:"dev"`   // empty | table_rows | view_only | index_leftover | trigger_table
	Shape  []int  `json:"shape"` // statements per migration file (or of the schema file: shape[0])
	FailF  int    `json:"fail_file"`
	FailK  int    `json:"fail_stmt"`
	Latest int    `json:"latest,omitempty"`
	// Kind of the statement placed at (FailF, FailK): "" = the engine rejects it; "inspect_scale" /
	// "inspect_fk" = the engine accepts it but atlas cannot inspect the result, so the replay succeeds
	// and reading the state back fails afterwards; "open_tx" = the rejected statement follows a
	// BEGIN TRANSACTION of the file itself; "chunk" = the file sets a custom delimiter (as files with
	// trigger bodies do) and the rejected statement is the second one of a chunk sent to the engine as one
	// call: the engine creates the chunk's table and then fails, so a failing "first statement" leaves
	// something behind.
	Kind string `json:"kind,omitempty"`
}

const failing = "INSERT INTO no_such_table VALUES (1)"

func failingStmt(c Case) string {
	switch c.Kind {
	case "inspect_scale":
		return "CREATE TABLE prices (id integer NOT NULL PRIMARY KEY, amount decimal(10, 2.5))"
	case "open_tx":
		// the file opens a transaction itself and fails inside it.
		return "BEGIN TRANSACTION;\n" + failing
	case "chunk":
		return "CREATE TABLE chunk_leftover (id integer NOT NULL PRIMARY KEY);\n" + failing
	case "inspect_fk":
		return "CREATE TABLE selfref (id integer NOT NULL PRIMARY KEY, pid integer REFERENCES selfref (nope))"
	}
	return failing
}

func stmt(f, i int) string {
	return fmt.Sprintf("CREATE TABLE t%d_%d (id integer NOT NULL PRIMARY KEY, v text)", f+1, i+1)
}

func dirFiles(c Case) map[string]string {
	out := map[string]string{}
	for f, n := range c.Shape {
		var b strings.Builder
		if c.Kind == "chunk" && f == c.FailF {
			b.WriteString("-- atlas:delimiter -- end\n\n")
			for i := 0; i < n; i++ {
				if i == c.FailK {
					b.WriteString(failingStmt(c) + ";\n-- end\n")
				} else {
					b.WriteString(stmt(f, i) + ";\n-- end\n")
				}
			}
			out[fmt.Sprintf("%d_f.sql", f+1)] = b.String()
			continue
		}
		for i := 0; i < n; i++ {
			if f == c.FailF && i == c.FailK {
				b.WriteString(failingStmt(c) + ";\n")
			} else {
				b.WriteString(stmt(f, i) + ";\n")
				if i == 0 {
					fmt.Fprintf(&b, "CREATE INDEX i%d_%d ON t%d_%d (v);\n", f+1, i+1, f+1, i+1)
					// every kind of object a replay can leave behind in the dev database.
					fmt.Fprintf(&b, "CREATE VIEW w%d_%d AS SELECT id FROM t%d_%d;\n", f+1, i+1, f+1, i+1)
					fmt.Fprintf(&b, "CREATE TRIGGER g%d_%d AFTER INSERT ON t%d_%d BEGIN UPDATE t%d_%d SET v = 'x' WHERE id = new.id; END;\n", f+1, i+1, f+1, i+1, f+1, i+1)
				}
			}
		}
		out[fmt.Sprintf("%d_f.sql", f+1)] = b.String()
	}
	return out
}

func sqlFile(c Case, variant int) string {
	var b strings.Builder
	if c.Kind == "chunk" && c.FailF == 0 {
		b.WriteString("-- atlas:delimiter -- end\n\n")
		for i := 0; i < c.Shape[0]; i++ {
			if i == c.FailK {
				b.WriteString(failingStmt(c) + ";\n-- end\n")
			} else {
				b.WriteString(stmt(variant, i) + ";\n-- end\n")
			}
		}
		return b.String()
	}
	for i := 0; i < c.Shape[0]; i++ {
		if c.FailF == 0 && i == c.FailK {
			b.WriteString(failingStmt(c) + ";\n")
		} else {
			b.WriteString(stmt(variant, i) + ";\n")
			if i == 0 {
				fmt.Fprintf(&b, "CREATE VIEW w%d_%d AS SELECT id FROM t%d_%d;\n", variant+1, i+1, variant+1, i+1)
			}
		}
	}
	return b.String()
}

const desiredHCL = `schema "main" {
}
table "t1_1" {
  schema = schema.main
  column "id" {
    type = integer
  }
  column "v" {
    type = text
    null = true
  }
  column "extra" {
    type = integer
    null = true
  }
  primary_key {
    columns = [column.id]
  }
  index "i1_1" {
    columns = [column.v]
  }
}
`

func prepareDev(w *clih.Work, state string) error {
	switch state {
	case "empty":
		return w.Exec("dev.sqlite", "PRAGMA user_version = 0")
	case "table_rows":
		return w.Exec("dev.sqlite", "CREATE TABLE precious (id integer PRIMARY KEY, v text)", "INSERT INTO precious VALUES (1, 'keep me'), (2, NULL)")
	case "view_only":
		return w.Exec("dev.sqlite", "CREATE VIEW precious_view AS SELECT 1 AS one")
	case "sqlite_prefixed_table":
		// a user table whose name merely begins with "sqlite" (no underscore): not an internal table.
		return w.Exec("dev.sqlite", "CREATE TABLE sqlitefoo (id integer PRIMARY KEY, v text)", "INSERT INTO sqlitefoo VALUES (1, 'keep me')")
	case "fts_only":
		// a full-text table: the user's data lives in a virtual table and its shadow tables only.
		return w.Exec("dev.sqlite", "CREATE VIRTUAL TABLE notes USING fts4(body)", "INSERT INTO notes (body) VALUES ('keep me')")
	case "rtree_only":
		return w.Exec("dev.sqlite", "CREATE VIRTUAL TABLE places USING rtree(id, minx, maxx)", "INSERT INTO places VALUES (1, 0.0, 1.0)")
	case "trigger_table":
		return w.Exec("dev.sqlite", "CREATE TABLE precious (id integer)", "CREATE TABLE audit (id integer)", "CREATE TRIGGER trg AFTER INSERT ON precious BEGIN INSERT INTO audit VALUES (new.id); END", "INSERT INTO precious VALUES (5)")
	}
	return fmt.Errorf("unknown dev state %q", state)
}

func run(w *clih.Work, c Case) clih.Result {
	dir := "file://" + w.Path("migrations")
	dev := w.URL("dev.sqlite")
	switch c.Cmd {
	case "migrate_diff":
		return w.Run(nil, "migrate", "diff", "newmig", "--dir", dir, "--to", "file://"+w.Path("desired.hcl"), "--dev-url", dev)
	case "migrate_validate":
		return w.Run(nil, "migrate", "validate", "--dir", dir, "--dev-url", dev)
	case "migrate_lint":
		return w.Run(nil, "migrate", "lint", "--dir", dir, "--dev-url", dev, "--latest", fmt.Sprint(c.Latest))
	case "schema_apply_sql":
		return w.Run(nil, "schema", "apply", "--url", w.URL("target.sqlite"), "--to", "file://"+w.Path("a.sql"), "--dev-url", dev, "--auto-approve")
	case "schema_apply_hcl":
		return w.Run(nil, "schema", "apply", "--url", w.URL("target.sqlite"), "--to", "file://"+w.Path("desired.hcl"), "--dev-url", dev, "--auto-approve")
	case "schema_diff_sql":
		return w.Run(nil, "schema", "diff", "--from", "file://"+w.Path("a.sql"), "--to", "file://"+w.Path("b.sql"), "--dev-url", dev)
	case "schema_inspect_sql":
		return w.Run(nil, "schema", "inspect", "--url", "file://"+w.Path("a.sql"), "--dev-url", dev)
	}
	return clih.Result{Exit: -9, Stderr: "unknown command"}
}

func Eval(c Case) (problems []string) {
	bad := func(f string, a ...any) { problems = append(problems, fmt.Sprintf(f, a...)) }
	w, err := clih.NewWork()
	if err != nil {
		return []string{"harness: " + err.Error()}
	}
	defer w.Close()
	if err := w.WriteDir("migrations", dirFiles(c)); err != nil {
		return []string{"harness: " + err.Error()}
	}
	os.WriteFile(w.Path("desired.hcl"), []byte(desiredHCL), 0o644)
	os.WriteFile(w.Path("a.sql"), []byte(sqlFile(c, 0)), 0o644)
	nb := c
	nb.FailF = -1
	os.WriteFile(w.Path("b.sql"), []byte(sqlFile(nb, 1)), 0o644)
	if err := prepareDev(w, c.Dev); err != nil {
		return []string{"harness: " + err.Error()}
	}
	devBefore, err := w.Dump("dev.sqlite")
	if err != nil {
		return []string{"harness: " + err.Error()}
	}
	dirBefore := w.ReadDir("migrations")
	res := run(w, c)
	devAfter, err := w.Dump("dev.sqlite")
	if err != nil {
		return []string{"harness: " + err.Error()}
	}
	if res.Exit < 0 {
		bad("command did not run: %s", res)
		return
	}
	if c.Dev != "empty" {
		// (an HCL desired state needs no normalisation on SQLite: the dev database is not used at all, so
		// there is nothing to refuse - it must only stay untouched.)
		if res.Exit == 0 && c.Cmd != "schema_apply_hcl" {
			bad("the dev database is not empty (%s) but the command exited 0: %s", c.Dev, res)
		}
		if devAfter != devBefore {
			bad("the dev database was not empty (%s) and has been modified:\n%s", c.Dev, diff(devBefore, devAfter))
		}
	} else {
		if strings.TrimSpace(devAfter) != "" {
			bad("the dev database was empty before and is not handed back empty (exit %d):\n%s", res.Exit, devAfter)
		}
		expectFail := c.FailF >= 0 && failureReplayed(c)
		if expectFail && res.Exit == 0 {
			bad("a statement of the replayed input fails, yet the command exited 0: %s", res)
		}
		if !expectFail && res.Exit != 0 && c.Cmd != "migrate_lint" {
			bad("nothing fails in the input, yet the command failed: %s", res)
		}
	}
	// the migration directory is never written by a replay; migrate diff may only add a file and refresh the sum.
	dirAfter := w.ReadDir("migrations")
	for n, b := range dirBefore {
		if n == "atlas.sum" && c.Cmd == "migrate_diff" && res.Exit == 0 {
			continue
		}
		if dirAfter[n] != b {
			bad("file %s of the migration directory was modified or removed by %s", n, c.Cmd)
		}
	}
	if len(dirAfter) != len(dirBefore) && !(c.Cmd == "migrate_diff" && res.Exit == 0 && len(dirAfter) == len(dirBefore)+1) {
		var names []string
		for n := range dirAfter {
			names = append(names, n)
		}
		sort.Strings(names)
		bad("the migration directory now lists %v (exit %d)", names, res.Exit)
	}
	return
}

// failureReplayed: does the command replay the part of the input that holds the failing statement?
func failureReplayed(c Case) bool {
	switch c.Cmd {
	case "migrate_diff", "migrate_validate", "migrate_lint":
		return true
	case "schema_apply_sql", "schema_diff_sql", "schema_inspect_sql":
		return c.FailF == 0
	}
	return false // schema_apply_hcl does not replay the directory or the SQL file
}

func diff(before, after string) string {
	w, g := map[string]int{}, map[string]int{}
	for _, l := range strings.Split(before, "\n") {
		w[l]++
	}
	for _, l := range strings.Split(after, "\n") {
		g[l]++
	}
	var b strings.Builder
	for _, l := range strings.Split(before, "\n") {
		if g[l] < w[l] {
			b.WriteString("    before: " + l + "\n")
		}
	}
	for _, l := range strings.Split(after, "\n") {
		if w[l] < g[l] {
			b.WriteString("    after:  " + l + "\n")
		}
	}
	return b.String()
}

func cases(tier string) []Case {
	var cs []Case
	shapes := [][]int{{2}, {1, 2}, {2, 1, 2}}
	if tier == "thorough" {
		shapes = append(shapes, []int{1}, []int{3}, []int{2, 2}, []int{1, 1, 1}, []int{3, 2, 1})
	}
	devs := []string{"empty", "table_rows", "view_only", "fts_only", "rtree_only", "sqlite_prefixed_table"}
	if tier == "thorough" {
		devs = append(devs, "trigger_table")
	}
	dirCmds := []string{"migrate_diff", "migrate_validate", "migrate_lint"}
	fileCmds := []string{"schema_apply_sql", "schema_apply_hcl", "schema_diff_sql", "schema_inspect_sql"}
	for _, dev := range devs {
		for _, sh := range shapes {
			type pos struct{ f, k int }
			poss := []pos{{-1, 0}}
			for f, n := range sh {
				for k := 0; k < n; k++ {
					poss = append(poss, pos{f, k})
				}
			}
			for _, p := range poss {
				kinds := []string{""}
				if p.f >= 0 && dev == "empty" {
					kinds = []string{"", "inspect_scale", "inspect_fk", "open_tx", "chunk"}
				}
				for _, kind := range kinds {
					for _, cmd := range dirCmds {
						if cmd == "migrate_lint" {
							for latest := 1; latest <= len(sh); latest++ {
								cs = append(cs, Case{cmd, dev, sh, p.f, p.k, latest, kind})
							}
							continue
						}
						cs = append(cs, Case{cmd, dev, sh, p.f, p.k, 0, kind})
					}
					if p.f <= 0 {
						for _, cmd := range fileCmds {
							cs = append(cs, Case{cmd, dev, sh[:1], p.f, p.k, 0, kind})
						}
					}
				}
			}
		}
	}
	seen := map[string]bool{}
	var out []Case
	for _, c := range cs {
		k := fmt.Sprint(c)
		if !seen[k] {
			seen[k] = true
			out = append(out, c)
		}
	}
	return out
}

func classify(c Case, problems []string) string {
	if c.Dev != "view_only" {
		return ""
	}
	for _, p := range problems {
		if !strings.Contains(p, "the dev database is not empty (view_only) but the command exited 0") &&
			!(strings.Contains(p, "the dev database was not empty (view_only) and has been modified") && strings.Contains(p, "before: master view|precious_view")) {
			return ""
		}
	}
	return "dev-db-holding-only-a-view-passes-the-emptiness-test"
}

type drvReplay struct {
	Driver *DrvCase `json:"driver"`
}

func Run(r *report.Run) {
	defer clih.Cleanup()
	r.Rule = "real CLI with a SQLite file as dev database: commands {migrate diff, migrate validate, migrate lint --latest N, schema apply --to file.sql / file.hcl, schema diff file.sql file.sql, schema inspect file.sql} x dev state {empty, table with rows, view only, FTS virtual table only, R*Tree virtual table only; thorough: table+trigger} x migration directory / schema file shapes (tables, indexes, views and triggers) with, at every position (and nowhere), a statement the engine rejects (alone, after a BEGIN of the file itself, or as the second statement of a chunk that a custom-delimiter file sends as one call, so that the failing call leaves a table behind) or one it accepts but atlas cannot inspect (the replay succeeds, reading the state back fails); dev database and directory read before/after by our own connection / file reads; plus a driver-level slice for MySQL, PostgreSQL and CockroachDB (the PostgreSQL driver on a connection that reports a CockroachDB version; its schema public cannot be dropped): the real drivers opened on a mocked connection, their Inspector / PlanApplier replaced by an in-memory catalogue; every catalogue over two schemas (absent / empty / holding a table) x connection binding x replay effect {table in the first schema, table in the second, new schema; MySQL bound connections: the replay ends with USE <second schema>, the replay changes the collation of the bound database}: the real Snapshot must refuse whenever the connection's scope holds a table and the real restore function (real differ, real planner; the planned statements are run against the catalogue as a server would run them: foreign keys and unreported dependent objects block DROP TABLE without CASCADE) must hand the catalogue back as it was, also after a replay that created tables with cyclic foreign keys; non-trivial = every case; distinct = the case tuple"
	r.Assumptions = []string{"`migrate diff` may add one file and rewrite atlas.sum when it succeeds; nothing else may change in the directory"}
	cs := cases(r.Tier)
	res := make([][]string, len(cs))
	enum.Parallel(len(cs), func(i, _ int) { res[i] = Eval(cs[i]) })
	per := map[string]int{}
	for i, c := range cs {
		r.Case(fmt.Sprint(c), true)
		per[c.Cmd+"/"+c.Dev]++
		if len(res[i]) > 0 {
			r.Violate(classify(c, res[i]), fmt.Sprintf("%+v: %s", c, strings.Join(res[i], " | ")), c)
		}
		if c.Cmd == "migrate_lint" && c.Dev == "empty" && len(c.Shape) == 3 && c.FailF == 1 && c.Latest == 2 {
			r.Sample(c)
		}
	}
	// driver-level slice (MySQL, PostgreSQL): see drivers.go.
	dcs := drvCases()
	for _, dc := range dcs {
		p, outcome := EvalDriver(dc)
		r.Case(fmt.Sprintf("driver %+v", dc), true)
		per["driver/"+dc.Dialect+"/"+outcome]++
		if len(p) > 0 {
			r.Violate("", fmt.Sprintf("driver-level %+v: %s", dc, strings.Join(p, " | ")), drvReplay{Driver: &dc})
		}
	}
	r.Set("driver_level_cases", len(dcs))
	r.Set("cases_by_command_and_dev_state", per)
	r.Set("cli_invocations", len(cs))
}

func Replay(r *report.Run, raw json.RawMessage) {
	defer clih.Cleanup()
	var dv struct{ Case drvReplay }
	if err := json.Unmarshal(raw, &dv); err == nil && dv.Case.Driver != nil {
		p, _ := EvalDriver(*dv.Case.Driver)
		fmt.Printf("  driver-level case %+v\n", *dv.Case.Driver)
		r.Case("a", true)
		r.Case("b", true)
		if len(p) > 0 {
			r.Violate("", strings.Join(p, " | "), dv.Case)
		}
		return
	}
	var v struct{ Case Case }
	if err := json.Unmarshal(raw, &v); err != nil {
		r.Violate("", "bad replay file: "+err.Error(), nil)
		return
	}
	p := Eval(v.Case)
	fmt.Printf("  case %+v\n", v.Case)
	r.Case("a", true)
	r.Case("b", true)
	if len(p) > 0 {
		r.Violate(classify(v.Case, p), strings.Join(p, " | "), v.Case)
	}
}
