package c14

// Driver-level slice: the Snapshot / restore protocol of the MySQL and PostgreSQL drivers (the
// SQLite CLI slice cannot reach them: there is no server in the sandbox). The real drivers are
// opened on a mocked connection; what they see of the database (Inspector) and what they do to it
// (PlanApplier) is a small in-memory catalogue owned by the harness. Every initial catalogue x
// connection binding x replay effect is enumerated; the real Snapshot decides, the real restore
// function (real differ) undoes.

import (
	"context"
	"fmt"
	"reflect"
	"regexp"
	"sort"
	"strings"
	"unsafe"

	"github.com/DATA-DOG/go-sqlmock"

	"ariga.io/atlas/sql/migrate"
	"ariga.io/atlas/sql/mysql"
	"ariga.io/atlas/sql/postgres"
	"ariga.io/atlas/sql/schema"
)

// DrvCase is one (dialect, catalogue, binding, replay) combination.
type DrvCase struct {
	Dialect string `json:"dialect"` // mysql | postgres
	// State[i] of schema names[i]: 0 absent, 1 empty, 2 holds a table.
	State []int `json:"state"`
	// Bound: the connection is bound to the first schema (for PostgreSQL the harness sets the
	// driver's unexported search_path field, which only sqlclient can set otherwise).
	Bound bool `json:"bound,omitempty"`
	// Replay: bit 0 = a table is created in the first schema, bit 1 = in the second (created if
	// absent), bit 2 = a new empty schema "extra" is created, bit 3 = an object the inspector does not
	// report (a view) is created over the table of bit 0 / bit 4 (PostgreSQL refuses to drop a table others
	// depend on unless CASCADE is given), bit 4 = two tables whose foreign keys reference each other
	// are created in the first schema, bit 5 = the replayed statements end with `USE <second schema>`
	// (MySQL, bound connection): the session's current database is no longer the bound one, bit 6 = a
	// replayed statement changed the collation of the bound database (ALTER DATABASE ... COLLATE).
	Replay int `json:"replay"`
	// Op: "" = Snapshot, replay, restore (above); "normalize" = the driver's own NormalizeSchema (bound
	// connection) / NormalizeRealm (unbound) of a one-table desired state: the command takes the
	// snapshot, creates the table, inspects and restores by itself.
	Op string `json:"op,omitempty"`
	// Fail: the n-th ApplyChanges call of the command fails (connection lost) and changes nothing;
	// 1 = creating the desired state, 2 = the restore. 0 = none.
	Fail int `json:"fail,omitempty"`
}

func (c DrvCase) names() []string {
	if c.Dialect == "postgres" || c.Dialect == "cockroach" {
		return []string{"public", "app"}
	}
	return []string{"dev", "other"}
}

// catalogue: schema -> set of tables.
type catalogue map[string]map[string]bool

func (c catalogue) String() string {
	var out []string
	for s, ts := range c {
		var t []string
		for n := range ts {
			t = append(t, n)
		}
		sort.Strings(t)
		out = append(out, s+"{"+strings.Join(t, ",")+"}")
	}
	sort.Strings(out)
	return strings.Join(out, " ")
}

func (c catalogue) clone() catalogue {
	o := catalogue{}
	for s, ts := range c {
		o[s] = map[string]bool{}
		for t := range ts {
			o[s][t] = true
		}
	}
	return o
}

func (c catalogue) tables() int {
	n := 0
	for _, ts := range c {
		n += len(ts)
	}
	return n
}

func (c catalogue) schema(name string) *schema.Schema {
	s := schema.New(name)
	var ts []string
	for t := range c[name] {
		ts = append(ts, t)
	}
	sort.Strings(ts)
	for _, t := range ts {
		tb := schema.NewTable(t).AddColumns(schema.NewIntColumn("id", "int"))
		s.AddTables(tb)
	}
	return s
}

func (c catalogue) realm() *schema.Realm {
	var ns []string
	for s := range c {
		ns = append(ns, s)
	}
	sort.Strings(ns)
	r := schema.NewRealm()
	for _, n := range ns {
		r.AddSchemas(c.schema(n))
	}
	return r
}

// mockDB is the Inspector and PlanApplier the real driver talks to.
type mockDB struct {
	cat  catalogue
	deps map[string]bool // "schema.table" -> a dependent object exists
	// fks: "schema.table" -> tables its foreign keys (named fk_<table>) reference.
	fks           map[string][]string
	defaultSchema string
	pg            bool
	crdb          bool // CockroachDB: the schema public cannot be dropped
	bound         string
	problems      []string
	applied       []string
	calls, fail   int
	// session: the database the session was switched to by a replayed `USE` ("" = still the bound one).
	session string
	// coll: schema -> collation (MySQL; nil = schemas carry no charset / collation attributes).
	coll map[string]string
}

func (m *mockDB) InspectSchema(_ context.Context, name string, opts *schema.InspectOptions) (*schema.Schema, error) {
	if name == "" {
		name = m.bound
		if m.session != "" {
			name = m.session
		}
	}
	if _, ok := m.cat[name]; !ok || name == "" {
		return nil, &schema.NotExistError{Err: fmt.Errorf("schema %q was not found", name)}
	}
	r := m.realm()
	s, _ := r.Schema(name)
	if opts != nil && opts.Mode != 0 && !opts.Mode.Is(schema.InspectTables) {
		s.Tables = nil // the caller asked for less than the tables: a real inspector does not load them
	}
	return s, nil
}

func (m *mockDB) InspectRealm(_ context.Context, opts *schema.InspectRealmOption) (*schema.Realm, error) {
	r := m.realm()
	if opts != nil && opts.Mode != 0 && !opts.Mode.Is(schema.InspectTables) {
		for _, s := range r.Schemas {
			s.Tables = nil
		}
	}
	return r, nil
}

// realm renders the catalogue, foreign keys included (objects the inspector does not report - deps - excluded).
func (m *mockDB) realm() *schema.Realm {
	r := m.cat.realm()
	if m.coll != nil {
		for _, sc := range r.Schemas {
			sc.SetCharset("utf8mb4").SetCollation(m.coll[sc.Name])
		}
	}
	for from, refs := range m.fks {
		fs, ft := from[:strings.Index(from, ".")], from[strings.Index(from, ".")+1:]
		s1, ok := r.Schema(fs)
		if !ok {
			continue
		}
		t1, ok := s1.Table(ft)
		if !ok {
			continue
		}
		for _, to := range refs {
			ts, tt := to[:strings.Index(to, ".")], to[strings.Index(to, ".")+1:]
			s2, ok := r.Schema(ts)
			if !ok {
				continue
			}
			t2, ok := s2.Table(tt)
			if !ok {
				continue
			}
			col := schema.NewIntColumn("r_"+tt, "int")
			t1.AddColumns(col)
			t1.AddForeignKeys(schema.NewForeignKey("fk_" + tt).AddColumns(col).SetRefTable(t2).AddRefColumns(t2.Columns[0]))
		}
	}
	return r
}

func (m *mockDB) PlanChanges(ctx context.Context, name string, changes []schema.Change, opts ...migrate.PlanOption) (*migrate.Plan, error) {
	return m.planner().PlanChanges(ctx, name, changes, opts...)
}

// planner is the dialect's real (connection-less) planner: the changes a restore function hands over
// become statements exactly as they would for a server.
func (m *mockDB) planner() migrate.PlanApplier {
	if m.pg {
		return postgres.DefaultPlan
	}
	return mysql.DefaultPlan
}

var (
	reQID        = "((?:[`\"][^`\"]+[`\"]\\.)?[`\"][^`\"]+[`\"])"
	reDropTable  = regexp.MustCompile("(?i)^DROP TABLE (IF EXISTS )?" + reQID + "( CASCADE)?$")
	reDropSchema = regexp.MustCompile("(?i)^DROP (?:SCHEMA|DATABASE) (?:IF EXISTS )?[`\"]([^`\"]+)[`\"]( CASCADE)?$")
	reAddSchema  = regexp.MustCompile("(?i)^CREATE (?:SCHEMA|DATABASE) (?:IF NOT EXISTS )?[`\"]([^`\"]+)[`\"]")
	reAlterTable = regexp.MustCompile("(?i)^ALTER TABLE " + reQID + " (.*)$")
	reDropFKC    = regexp.MustCompile("(?i)DROP (?:CONSTRAINT|FOREIGN KEY) [`\"]([^`\"]+)[`\"]")
	reCreateTab  = regexp.MustCompile("(?i)^CREATE TABLE " + reQID)
	reAlterDB    = regexp.MustCompile("(?i)^ALTER DATABASE `([^`]+)`(?: CHARSET \\S+)? COLLATE (\\S+)$")
)

// key turns a possibly qualified, quoted identifier into "schema.table".
func (m *mockDB) key(qid string) (string, string) {
	parts := strings.Split(strings.NewReplacer("`", "", "\"", "").Replace(qid), ".")
	if len(parts) == 2 {
		return parts[0], parts[1]
	}
	return m.defaultSchema, parts[0]
}

// ApplyChanges plans the changes with the real planner and runs the statements against the
// catalogue the way the server would: a table cannot be dropped while a foreign key of another
// table references it or (PostgreSQL) while another object depends on it, unless CASCADE is given.
func (m *mockDB) ApplyChanges(ctx context.Context, changes []schema.Change, opts ...migrate.PlanOption) error {
	if m.calls++; m.calls == m.fail {
		return fmt.Errorf("driver: bad connection")
	}
	plan, err := m.planner().PlanChanges(ctx, "restore", changes, opts...)
	if err != nil {
		return err
	}
	for _, ch := range plan.Changes {
		stmt := strings.TrimSuffix(strings.TrimSpace(ch.Cmd), ";")
		m.applied = append(m.applied, stmt)
		switch {
		case reDropTable.MatchString(stmt):
			g := reDropTable.FindStringSubmatch(stmt)
			sc, t := m.key(g[2])
			k := sc + "." + t
			if !m.cat[sc][t] {
				if g[1] == "" {
					return fmt.Errorf("table %s does not exist", k)
				}
				continue
			}
			cascade := g[3] != ""
			for from, refs := range m.fks {
				for _, to := range refs {
					if to == k && from != k && !cascade {
						return fmt.Errorf("cannot drop table %s because other objects depend on it: a foreign key of %s (SQLSTATE 2BP01 / MySQL 3730)", k, from)
					}
				}
			}
			if m.deps[k] && m.pg && !cascade {
				return fmt.Errorf("pq: cannot drop table %s because other objects depend on it (SQLSTATE 2BP01)", k)
			}
			delete(m.deps, k)
			delete(m.fks, k)
			for from, refs := range m.fks {
				var keep []string
				for _, to := range refs {
					if to != k {
						keep = append(keep, to)
					}
				}
				m.fks[from] = keep
			}
			delete(m.cat[sc], t)
		case reDropSchema.MatchString(stmt):
			sc := reDropSchema.FindStringSubmatch(stmt)[1]
			if m.crdb && sc == "public" {
				return fmt.Errorf("pq: cannot drop schema \"public\" (CockroachDB)")
			}
			delete(m.cat, sc)
			for k := range m.deps {
				if strings.HasPrefix(k, sc+".") {
					delete(m.deps, k)
				}
			}
			for k := range m.fks {
				if strings.HasPrefix(k, sc+".") {
					delete(m.fks, k)
				}
			}
		case reAddSchema.MatchString(stmt):
			sc := reAddSchema.FindStringSubmatch(stmt)[1]
			if m.cat[sc] == nil {
				m.cat[sc] = map[string]bool{}
			}
		case reAlterTable.MatchString(stmt):
			g := reAlterTable.FindStringSubmatch(stmt)
			sc, t := m.key(g[1])
			k := sc + "." + t
			if !m.cat[sc][t] {
				return fmt.Errorf("table %s does not exist", k)
			}
			// the foreign keys of the model are named fk_<to-table>.
			for _, d := range reDropFKC.FindAllStringSubmatch(g[2], -1) {
				var keep []string
				for _, to := range m.fks[k] {
					if "fk_"+to[strings.Index(to, ".")+1:] != d[1] {
						keep = append(keep, to)
					}
				}
				m.fks[k] = keep
			}
		case reAlterDB.MatchString(stmt) && m.coll != nil:
			g := reAlterDB.FindStringSubmatch(stmt)
			m.coll[g[1]] = g[2]
		case reCreateTab.MatchString(stmt):
			sc, t := m.key(reCreateTab.FindStringSubmatch(stmt)[1])
			if m.cat[sc] == nil {
				m.problems = append(m.problems, fmt.Sprintf("restore creates table %s in missing schema %s", t, sc))
				continue
			}
			m.cat[sc][t] = true
		default:
			m.problems = append(m.problems, fmt.Sprintf("restore runs a statement the model does not know: %s", stmt))
		}
	}
	return nil
}

func openDriver(dialect string, m *mockDB) (migrate.Snapshoter, func(), error) {
	db, mk, err := sqlmock.New()
	if err != nil {
		return nil, nil, err
	}
	switch dialect {
	case "postgres", "cockroach":
		var crdbVersion any
		if dialect == "cockroach" {
			crdbVersion = "v23.1.0"
		}
		mk.ExpectQuery("SELECT current_setting").WillReturnRows(sqlmock.NewRows([]string{"a", "b", "c"}).AddRow("150000", "heap", crdbVersion))
		drv, err := postgres.Open(db)
		if err != nil {
			db.Close()
			return nil, nil, err
		}
		d, ok := drv.(*postgres.Driver)
		if !ok && dialect == "cockroach" {
			// for CockroachDB Open wraps the driver in an unexported struct that hides the Lock method;
			// the *Driver inside is the one the restore functions belong to.
			v := reflect.New(reflect.TypeOf(drv)).Elem()
			v.Set(reflect.ValueOf(drv))
			f := v.Field(0)
			inner := reflect.NewAt(f.Type(), unsafe.Pointer(f.UnsafeAddr())).Elem().Interface()
			d, ok = inner.(*postgres.Driver)
		}
		if !ok {
			db.Close()
			return nil, nil, fmt.Errorf("postgres.Open returned %T", drv)
		}
		d.Inspector, d.PlanApplier = m, m
		if m.bound != "" {
			// what sqlclient does for a URL with search_path.
			f := reflect.ValueOf(d).Elem().FieldByName("conn").Elem().FieldByName("schema")
			reflect.NewAt(f.Type(), unsafe.Pointer(f.UnsafeAddr())).Elem().SetString(m.bound)
		}
		return d, func() { db.Close() }, nil
	default:
		mk.ExpectQuery("SELECT @@version").WillReturnRows(sqlmock.NewRows([]string{"@@version", "@@collation_server", "@@character_set_server", "@@lower_case_table_names"}).
			AddRow("8.0.30", "utf8mb4_0900_ai_ci", "utf8mb4", 0))
		drv, err := mysql.Open(db)
		if err != nil {
			db.Close()
			return nil, nil, err
		}
		d, ok := drv.(*mysql.Driver)
		if !ok {
			db.Close()
			return nil, nil, fmt.Errorf("mysql.Open returned %T", drv)
		}
		d.Inspector, d.PlanApplier = m, m
		return d, func() { db.Close() }, nil
	}
}

// EvalDriver runs one case; scope = the schemas the connection owns (the bound schema, or all).
func EvalDriver(c DrvCase) (problems []string, outcome string) {
	bad := func(f string, a ...any) { problems = append(problems, fmt.Sprintf(f, a...)) }
	defer func() {
		if p := recover(); p != nil {
			bad("panic: %v", p)
		}
	}()
	names := c.names()
	init := catalogue{}
	for i, st := range c.State {
		if st >= 1 {
			init[names[i]] = map[string]bool{}
		}
		if st == 2 {
			init[names[i]]["precious_"+names[i]] = true
		}
	}
	m := &mockDB{cat: init.clone(), deps: map[string]bool{}, fks: map[string][]string{}, pg: c.Dialect == "postgres" || c.Dialect == "cockroach", crdb: c.Dialect == "cockroach", defaultSchema: names[0]}
	if c.Bound {
		m.bound = names[0]
	}
	const defColl = "utf8mb4_0900_ai_ci"
	if c.Replay&64 != 0 {
		m.coll = map[string]string{names[0]: defColl, names[1]: defColl, "extra": defColl}
	}
	bound := c.Bound && init[names[0]] != nil // binding to a schema that does not exist is no binding
	drv, closeDB, err := openDriver(c.Dialect, m)
	if err != nil {
		return []string{"harness: " + err.Error()}, "harness"
	}
	defer closeDB()
	if c.Op == "normalize" {
		m.fail = c.Fail
		owned := init.tables()
		if bound {
			owned = len(init[names[0]])
		}
		desired := schema.New("app_desired")
		desired.AddTables(schema.NewTable("norm_t").AddColumns(schema.NewIntColumn("id", "int")))
		var err error
		if c.Bound {
			_, err = drv.(schema.Normalizer).NormalizeSchema(context.Background(), desired)
		} else {
			_, err = drv.(schema.Normalizer).NormalizeRealm(context.Background(), schema.NewRealm(desired))
		}
		problems = append(problems, m.problems...)
		same := m.cat.String() == init.String()
		if _, refused := err.(*migrate.NotCleanError); refused && owned == 0 {
			// refusing is always safe (an unbound connection owns every schema, empty ones included).
			if !same {
				bad("the dev database was refused but changed: %s -> %s", init, m.cat)
			}
			return problems, "refused"
		}
		switch {
		case owned > 0 && err == nil:
			bad("a dev database holding %d user table(s) was used for normalisation (%s)", owned, init)
			return problems, "accepted-nonempty"
		case owned > 0 && !same:
			bad("a dev database holding user tables was refused but changed: %s -> %s", init, m.cat)
			return problems, "refused"
		case owned > 0:
			return problems, "refused"
		case !same && err == nil:
			bad("the dev database is not handed back as it was (before %s, after %s; statements %v) and the command reports success", init, m.cat, m.applied)
		case c.Fail == 0 && err != nil && init[names[0]] != nil:
			bad("normalisation on an empty dev database fails: %v", err)
		case c.Fail != 0 && m.calls >= c.Fail && err == nil:
			bad("a failing step (ApplyChanges call %d) is not reported by the command", c.Fail)
		}
		if err != nil {
			return problems, "normalize-error"
		}
		return problems, "normalized-restored"
	}
	restore, err := drv.Snapshot(context.Background())
	if m.cat.String() != init.String() {
		bad("Snapshot itself changed the database: %s -> %s", init, m.cat)
	}
	// what the connection owns.
	owned := init.tables()
	if bound {
		owned = len(init[names[0]])
	}
	if err != nil {
		if _, ok := err.(*migrate.NotCleanError); !ok {
			return problems, "snapshot-error" // e.g. the bound schema does not exist: nothing is touched
		}
		return problems, "refused" // refusing is always safe
	}
	if owned > 0 {
		bad("a dev database holding %d user table(s) was not refused by Snapshot (%s)", owned, init)
		return problems, "accepted-nonempty"
	}
	// the replay.
	add := func(s, t string) {
		if m.cat[s] == nil {
			m.cat[s] = map[string]bool{}
		}
		if t != "" {
			m.cat[s][t] = true
		}
	}
	if c.Replay&1 != 0 {
		add(names[0], "replayed_a")
	}
	if c.Replay&2 != 0 {
		add(names[1], "replayed_b")
	}
	if c.Replay&4 != 0 {
		add("extra", "")
	}
	if c.Replay&8 != 0 && c.Replay&1 != 0 {
		m.deps[names[0]+".replayed_a"] = true
	}
	if c.Replay&16 != 0 {
		// two more tables that reference each other (a cycle the planner has to break up).
		add(names[0], "cyc_a")
		add(names[0], "cyc_b")
		m.fks[names[0]+".cyc_a"] = []string{names[0] + ".cyc_b"}
		m.fks[names[0]+".cyc_b"] = []string{names[0] + ".cyc_a"}
		if c.Replay&8 != 0 {
			m.deps[names[0]+".cyc_a"] = true
		}
	}
	if c.Replay&32 != 0 {
		m.session = names[1] // the last replayed statement is `USE other`
	}
	if c.Replay&64 != 0 {
		m.coll[names[0]] = "utf8mb4_bin" // a replayed statement was ALTER DATABASE COLLATE utf8mb4_bin
	}
	after := m.cat.clone()
	if err := restore(context.Background()); err != nil {
		bad("restore failed: %v", err)
	}
	problems = append(problems, m.problems...)
	for k, v := range m.fks {
		if len(v) == 0 {
			delete(m.fks, k)
		}
	}
	if m.coll != nil && m.coll[names[0]] != defColl && m.cat[names[0]] != nil {
		bad("the dev database keeps the collation the replay gave it: %s (applied %v)", m.coll[names[0]], m.applied)
	}
	if m.cat.String() != init.String() || len(m.deps) > 0 || len(m.fks) > 0 {
		bad("the dev database is not handed back as it was: before %s, after the replay %s, after the restore %s dependents %v (applied %v)", init, after, m.cat, m.deps, m.applied)
	}
	if len(m.applied) == 0 {
		return problems, "accepted-nothing-to-restore"
	}
	return problems, "accepted-restored"
}

func drvCases() []DrvCase {
	var cs []DrvCase
	for _, d := range []string{"mysql", "postgres", "cockroach"} {
		for s0 := 0; s0 < 3; s0++ {
			for s1 := 0; s1 < 3; s1++ {
				if d == "cockroach" && s0 == 0 {
					continue // CockroachDB has no database without the schema public (it cannot be dropped)
				}
				for _, b := range []bool{false, true} {
					for rp := 0; rp < 128; rp++ {
						if rp&32 != 0 && !(d == "mysql" && b && s1 > 0) {
							continue // `USE`: MySQL sessions, the other schema exists
						}
						if rp&64 != 0 && !(d == "mysql" && b && s0 > 0 && rp&32 == 0) {
							continue // ALTER DATABASE: MySQL, bound connection, the schema exists
						}
						if b && rp&^(25|32|64) != 0 {
							continue // a bound connection replays into its own schema only
						}
						if rp&8 != 0 && (rp&17 == 0 || d == "mysql") {
							continue // the dependent object hangs off a replayed table; modelled for PostgreSQL
						}
						cs = append(cs, DrvCase{Dialect: d, State: []int{s0, s1}, Bound: b, Replay: rp})
					}
					for f := 0; f <= 2; f++ {
						cs = append(cs, DrvCase{Dialect: d, State: []int{s0, s1}, Bound: b, Op: "normalize", Fail: f})
					}
				}
			}
		}
	}
	return cs
}
