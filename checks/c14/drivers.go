package c14

// Driver-level slice: the Snapshot / restore protocol of the MySQL and PostgreSQL drivers (the
// SQLite CLI slice cannot reach them: there is no server in the sandbox). The real drivers are
// opened on a mocked connection; what they see of the database (Inspector) and what they do to it
// (PlanApplier) is a small in-memory catalogue owned by the harness. Every initial catalogue x
// connection binding x replay effect is enumerated; the real Snapshot decides, the real restore
// function (real differ) undoes.

import (
	"context"
	"fmt"
	"reflect"
	"sort"
	"strings"
	"unsafe"

	"github.com/DATA-DOG/go-sqlmock"

	"ariga.io/atlas/sql/migrate"
	"ariga.io/atlas/sql/mysql"
	"ariga.io/atlas/sql/postgres"
	"ariga.io/atlas/sql/schema"
)

// DrvCase is one (dialect, catalogue, binding, replay) combination.
type DrvCase struct {
	Dialect string `json:"dialect"` // mysql | postgres
	// State[i] of schema names[i]: 0 absent, 1 empty, 2 holds a table.
	State []int `json:"state"`
	// Bound: the connection is bound to the first schema (for PostgreSQL the harness sets the
	// driver's unexported search_path field, which only sqlclient can set otherwise).
	Bound bool `json:"bound,omitempty"`
	// Replay: bit 0 = a table is created in the first schema, bit 1 = in the second (created if
	// absent), bit 2 = a new empty schema "extra" is created, bit 3 = an object the inspector does not
	// report (a view) is created over the table of bit 0 (PostgreSQL refuses to drop a table others
	// depend on unless CASCADE is given).
	Replay int `json:"replay"`
}

func (c DrvCase) names() []string {
	if c.Dialect == "postgres" {
		return []string{"public", "app"}
	}
	return []string{"dev", "other"}
}

// catalogue: schema -> set of tables.
type catalogue map[string]map[string]bool

func (c catalogue) String() string {
	var out []string
	for s, ts := range c {
		var t []string
		for n := range ts {
			t = append(t, n)
		}
		sort.Strings(t)
		out = append(out, s+"{"+strings.Join(t, ",")+"}")
	}
	sort.Strings(out)
	return strings.Join(out, " ")
}

func (c catalogue) clone() catalogue {
	o := catalogue{}
	for s, ts := range c {
		o[s] = map[string]bool{}
		for t := range ts {
			o[s][t] = true
		}
	}
	return o
}

func (c catalogue) tables() int {
	n := 0
	for _, ts := range c {
		n += len(ts)
	}
	return n
}

func (c catalogue) schema(name string) *schema.Schema {
	s := schema.New(name)
	var ts []string
	for t := range c[name] {
		ts = append(ts, t)
	}
	sort.Strings(ts)
	for _, t := range ts {
		tb := schema.NewTable(t).AddColumns(schema.NewIntColumn("id", "int"))
		s.AddTables(tb)
	}
	return s
}

func (c catalogue) realm() *schema.Realm {
	var ns []string
	for s := range c {
		ns = append(ns, s)
	}
	sort.Strings(ns)
	r := schema.NewRealm()
	for _, n := range ns {
		r.AddSchemas(c.schema(n))
	}
	return r
}

// mockDB is the Inspector and PlanApplier the real driver talks to.
type mockDB struct {
	cat      catalogue
	deps     map[string]bool // "schema.table" -> a dependent object exists
	pg       bool
	bound    string
	problems []string
	applied  []string
}

func (m *mockDB) InspectSchema(_ context.Context, name string, _ *schema.InspectOptions) (*schema.Schema, error) {
	if name == "" {
		name = m.bound
	}
	if _, ok := m.cat[name]; !ok || name == "" {
		return nil, &schema.NotExistError{Err: fmt.Errorf("schema %q was not found", name)}
	}
	s := m.cat.schema(name)
	schema.NewRealm(s)
	return s, nil
}

func (m *mockDB) InspectRealm(context.Context, *schema.InspectRealmOption) (*schema.Realm, error) {
	return m.cat.realm(), nil
}

func (m *mockDB) PlanChanges(context.Context, string, []schema.Change, ...migrate.PlanOption) (*migrate.Plan, error) {
	return &migrate.Plan{}, nil
}

func (m *mockDB) ApplyChanges(_ context.Context, changes []schema.Change, _ ...migrate.PlanOption) error {
	for _, ch := range changes {
		switch ch := ch.(type) {
		case *schema.AddSchema:
			m.applied = append(m.applied, "AddSchema("+ch.S.Name+")")
			if m.cat[ch.S.Name] == nil {
				m.cat[ch.S.Name] = map[string]bool{}
			}
		case *schema.DropSchema:
			m.applied = append(m.applied, "DropSchema("+ch.S.Name+")")
			delete(m.cat, ch.S.Name)
			for k := range m.deps {
				if strings.HasPrefix(k, ch.S.Name+".") {
					delete(m.deps, k)
				}
			}
		case *schema.AddTable:
			m.applied = append(m.applied, "AddTable("+ch.T.Schema.Name+"."+ch.T.Name+")")
			if m.cat[ch.T.Schema.Name] == nil {
				m.problems = append(m.problems, fmt.Sprintf("restore creates table %s in missing schema %s", ch.T.Name, ch.T.Schema.Name))
				continue
			}
			m.cat[ch.T.Schema.Name][ch.T.Name] = true
		case *schema.DropTable:
			m.applied = append(m.applied, "DropTable("+ch.T.Schema.Name+"."+ch.T.Name+")")
			if k := ch.T.Schema.Name + "." + ch.T.Name; m.deps[k] {
				cascade := false
				for _, e := range ch.Extra {
					if _, ok := e.(*postgres.Cascade); ok {
						cascade = true
					}
				}
				if m.pg && !cascade {
					return fmt.Errorf("pq: cannot drop table %s because other objects depend on it (SQLSTATE 2BP01)", ch.T.Name)
				}
				delete(m.deps, k)
			}
			delete(m.cat[ch.T.Schema.Name], ch.T.Name)
		case *schema.ModifySchema, *schema.ModifyTable:
			m.applied = append(m.applied, fmt.Sprintf("%T", ch))
		default:
			m.problems = append(m.problems, fmt.Sprintf("restore applies an unexpected change %T", ch))
		}
	}
	return nil
}

func openDriver(dialect string, m *mockDB) (migrate.Snapshoter, func(), error) {
	db, mk, err := sqlmock.New()
	if err != nil {
		return nil, nil, err
	}
	switch dialect {
	case "postgres":
		mk.ExpectQuery("SELECT current_setting").WillReturnRows(sqlmock.NewRows([]string{"a", "b", "c"}).AddRow("150000", "heap", nil))
		drv, err := postgres.Open(db)
		if err != nil {
			db.Close()
			return nil, nil, err
		}
		d, ok := drv.(*postgres.Driver)
		if !ok {
			db.Close()
			return nil, nil, fmt.Errorf("postgres.Open returned %T", drv)
		}
		d.Inspector, d.PlanApplier = m, m
		if m.bound != "" {
			// what sqlclient does for a URL with search_path.
			f := reflect.ValueOf(d).Elem().FieldByName("conn").Elem().FieldByName("schema")
			reflect.NewAt(f.Type(), unsafe.Pointer(f.UnsafeAddr())).Elem().SetString(m.bound)
		}
		return d, func() { db.Close() }, nil
	default:
		mk.ExpectQuery("SELECT @@version").WillReturnRows(sqlmock.NewRows([]string{"@@version", "@@collation_server", "@@character_set_server", "@@lower_case_table_names"}).
			AddRow("8.0.30", "utf8mb4_0900_ai_ci", "utf8mb4", 0))
		drv, err := mysql.Open(db)
		if err != nil {
			db.Close()
			return nil, nil, err
		}
		d, ok := drv.(*mysql.Driver)
		if !ok {
			db.Close()
			return nil, nil, fmt.Errorf("mysql.Open returned %T", drv)
		}
		d.Inspector, d.PlanApplier = m, m
		return d, func() { db.Close() }, nil
	}
}

// EvalDriver runs one case; scope = the schemas the connection owns (the bound schema, or all).
func EvalDriver(c DrvCase) (problems []string, outcome string) {
	bad := func(f string, a ...any) { problems = append(problems, fmt.Sprintf(f, a...)) }
	defer func() {
		if p := recover(); p != nil {
			bad("panic: %v", p)
		}
	}()
	names := c.names()
	init := catalogue{}
	for i, st := range c.State {
		if st >= 1 {
			init[names[i]] = map[string]bool{}
		}
		if st == 2 {
			init[names[i]]["precious_"+names[i]] = true
		}
	}
	m := &mockDB{cat: init.clone(), deps: map[string]bool{}, pg: c.Dialect == "postgres"}
	if c.Bound {
		m.bound = names[0]
	}
	bound := c.Bound && init[names[0]] != nil // binding to a schema that does not exist is no binding
	drv, closeDB, err := openDriver(c.Dialect, m)
	if err != nil {
		return []string{"harness: " + err.Error()}, "harness"
	}
	defer closeDB()
	restore, err := drv.Snapshot(context.Background())
	if m.cat.String() != init.String() {
		bad("Snapshot itself changed the database: %s -> %s", init, m.cat)
	}
	// what the connection owns.
	owned := init.tables()
	if bound {
		owned = len(init[names[0]])
	}
	if err != nil {
		if _, ok := err.(*migrate.NotCleanError); !ok {
			return problems, "snapshot-error" // e.g. the bound schema does not exist: nothing is touched
		}
		return problems, "refused" // refusing is always safe
	}
	if owned > 0 {
		bad("a dev database holding %d user table(s) was not refused by Snapshot (%s)", owned, init)
		return problems, "accepted-nonempty"
	}
	// the replay.
	add := func(s, t string) {
		if m.cat[s] == nil {
			m.cat[s] = map[string]bool{}
		}
		if t != "" {
			m.cat[s][t] = true
		}
	}
	if c.Replay&1 != 0 {
		add(names[0], "replayed_a")
	}
	if c.Replay&2 != 0 {
		add(names[1], "replayed_b")
	}
	if c.Replay&4 != 0 {
		add("extra", "")
	}
	if c.Replay&8 != 0 && c.Replay&1 != 0 {
		m.deps[names[0]+".replayed_a"] = true
	}
	after := m.cat.clone()
	if err := restore(context.Background()); err != nil {
		bad("restore failed: %v", err)
	}
	problems = append(problems, m.problems...)
	if m.cat.String() != init.String() || len(m.deps) > 0 {
		bad("the dev database is not handed back as it was: before %s, after the replay %s, after the restore %s dependents %v (applied %v)", init, after, m.cat, m.deps, m.applied)
	}
	if len(m.applied) == 0 {
		return problems, "accepted-nothing-to-restore"
	}
	return problems, "accepted-restored"
}

func drvCases() []DrvCase {
	var cs []DrvCase
	for _, d := range []string{"mysql", "postgres"} {
		for s0 := 0; s0 < 3; s0++ {
			for s1 := 0; s1 < 3; s1++ {
				for _, b := range []bool{false, true} {
					for rp := 0; rp < 16; rp++ {
						if b && rp&^9 != 0 {
							continue // a bound connection replays into its own schema only
						}
						if rp&8 != 0 && (rp&1 == 0 || d != "postgres") {
							continue // the dependent object hangs off the table of bit 0; modelled for PostgreSQL
						}
						cs = append(cs, DrvCase{Dialect: d, State: []int{s0, s1}, Bound: b, Replay: rp})
					}
				}
			}
		}
	}
	return cs
}
