// Package c06: directory integrity - any tampering is detected, an untouched directory validates,
// and every writer leaves the directory valid.
package c06

import (
	"bytes"
	"context"
	"encoding/json"
	"errors"
	"fmt"
	"os"
	"path/filepath"
	"regexp"
	"sort"
	"strings"
	"sync/atomic"
	"verif/clih"

	"ariga.io/atlas/sql/migrate"
	"ariga.io/atlas/sql/sqltool"

	"verif/engine/enum"
	"verif/engine/report"
	"verif/mighelp"
)

// ---------- directory snapshots ----------

type Snap map[string]string // name -> bytes (including atlas.sum)

func (s Snap) clone() Snap {
	c := Snap{}
	for k, v := range s {
		c[k] = v
	}
	return c
}

func (s Snap) names() []string {
	ns := make([]string, 0, len(s))
	for n := range s {
		ns = append(ns, n)
	}
	sort.Strings(ns)
	return ns
}

func (s Snap) mem() *migrate.MemDir {
	d := &migrate.MemDir{}
	for _, n := range s.names() {
		d.WriteFile(n, []byte(s[n]))
	}
	return d
}

func snapOf(d migrate.Dir, extra ...string) Snap {
	s := Snap{}
	files, _ := d.Files()
	for _, f := range files {
		s[f.Name()] = string(f.Bytes())
	}
	for _, n := range append(extra, migrate.HashFileName) {
		if f, err := d.Open(n); err == nil {
			var b bytes.Buffer
			b.ReadFrom(f)
			f.Close()
			s[n] = b.String()
		}
	}
	return s
}

var reTS = regexp.MustCompile(`\d{14}`)

func (s Snap) canon() string {
	var b strings.Builder
	for _, n := range s.names() {
		if n == migrate.HashFileName {
			continue
		}
		fmt.Fprintf(&b, "%q=%q;", reTS.ReplaceAllString(n, "T"), reTS.ReplaceAllString(s[n], "T"))
	}
	return b.String()
}

// ---------- reference model: what is material ----------

var reIgnore = regexp.MustCompile(`^[ -~]*atlas:sum +ignore`)

// ignored reports whether the file opts out of the sum: its first line is a
// comment carrying exactly the directive "atlas:sum ignore". ambiguous is set
// when the first line mentions the directive in a shape the documentation does
// not settle (trailing junk, control characters); such cases are not judged.
func ignored(content string) (ign, ambiguous bool) {
	line := content
	if i := strings.IndexByte(line, '\n'); i >= 0 {
		line = line[:i]
	}
	line = strings.TrimSuffix(line, "\r")
	m := reIgnore.FindString(line)
	if m == "" {
		return false, strings.Contains(line, "atlas:sum")
	}
	return m == line, m != line
}

type entry struct{ name, body string }

// view is what the sum is documented to protect: the ordered migration files, their
// names and - unless the file opts out - their bytes.
func view(s Snap) []entry {
	var es []entry
	for _, n := range s.names() {
		if !strings.HasSuffix(n, ".sql") {
			continue
		}
		if ign, _ := ignored(s[n]); ign {
			es = append(es, entry{n, "\x00IGNORED"})
		} else {
			es = append(es, entry{n, s[n]})
		}
	}
	return es
}

func sameView(a, b []entry) bool {
	if len(a) != len(b) {
		return false
	}
	for i := range a {
		if a[i] != b[i] {
			return false
		}
	}
	return true
}

func stripWS(s string) string {
	return strings.NewReplacer(" ", "", "\t", "", "\r", "", "\v", "", "\f", "").Replace(strings.TrimRight(s, "\n \t\r\v\f"))
}

// onlyTrailingIgnored: the two views differ only in sum-ignored files that sort after every hashed file.
func onlyTrailingIgnored(a, b []entry) bool {
	trim := func(es []entry) []entry {
		for len(es) > 0 && es[len(es)-1].body == "\x00IGNORED" {
			es = es[:len(es)-1]
		}
		return es
	}
	return sameView(trim(a), trim(b))
}

type Case struct {
	Base Snap   `json:"base"`
	Edit string `json:"edit"`
	New  Snap   `json:"new"`
}

const (
	wantErr = iota
	wantNil
	notAsserted
)

func classify(base, n Snap) (want int, key string) {
	for _, s := range []Snap{base, n} {
		for name, c := range s {
			if _, amb := ignored(c); amb && strings.HasSuffix(name, ".sql") {
				return notAsserted, ""
			}
		}
	}
	vb, vn := view(base), view(n)
	sumSame := base[migrate.HashFileName] == n[migrate.HashFileName]
	_, hadSum := base[migrate.HashFileName]
	_, hasSum := n[migrate.HashFileName]
	switch {
	case sameView(vb, vn) && sumSame && hadSum == hasSum:
		// only sum-ignored bodies or non-migration files changed.
		for name, b := range base {
			if nb, ok := n[name]; ok && nb != b && strings.HasSuffix(name, ".sql") {
				return notAsserted, "" // body of a sum-ignored file: excluded by the directive's purpose
			}
		}
		return wantNil, ""
	case sameView(vb, vn):
		if hasSum && stripWS(base[migrate.HashFileName]) == stripWS(n[migrate.HashFileName]) {
			return notAsserted, "" // whitespace-only edit of atlas.sum
		}
		return wantErr, ""
	default:
		if !sumSame {
			return notAsserted, "" // compound edit of files and sum: not judged
		}
		if onlyTrailingIgnored(vb, vn) {
			return wantErr, "trailing-sum-ignored-file-change-undetected"
		}
		return wantErr, ""
	}
}

func isChecksumErr(err error) bool {
	return errors.Is(err, migrate.ErrChecksumMismatch) || errors.Is(err, migrate.ErrChecksumFormat) || errors.Is(err, migrate.ErrChecksumNotFound)
}

func validate(s Snap) (err error) {
	defer func() {
		if p := recover(); p != nil {
			err = fmt.Errorf("panic: %v", p)
		}
	}()
	return migrate.Validate(s.mem())
}

var localSeq atomic.Int64

// validateLocal is validate through a real directory on disk (LocalDir reads the files back); it
// also reports whether the bytes the directory hands out are the bytes that were written.
func validateLocal(s Snap) (err error, faithful string) {
	defer func() {
		if p := recover(); p != nil {
			err = fmt.Errorf("panic: %v", p)
		}
	}()
	root := "/dev/shm"
	if st, e := os.Stat(root); e != nil || !st.IsDir() {
		root = clih.ScratchRoot()
	}
	path := filepath.Join(root, fmt.Sprintf("verif-c06-%d-%d", os.Getpid(), localSeq.Add(1)))
	if e := os.MkdirAll(path, 0o755); e != nil {
		return nil, "harness: " + e.Error()
	}
	defer os.RemoveAll(path)
	for n, c := range s {
		if e := os.WriteFile(filepath.Join(path, n), []byte(c), 0o644); e != nil {
			return nil, "harness: " + e.Error()
		}
	}
	d, e := migrate.NewLocalDir(path)
	if e != nil {
		return nil, "harness: " + e.Error()
	}
	if files, e := d.Files(); e == nil {
		for _, f := range files {
			if want, ok := s[f.Name()]; ok && want != string(f.Bytes()) {
				faithful = fmt.Sprintf("the directory hands out other bytes for %s than the file holds (%d instead of %d bytes)", f.Name(), len(f.Bytes()), len(want))
			}
		}
	}
	return migrate.Validate(d), faithful
}

// executeTo runs the real Executor.ExecuteTo(v) over the directory on a driver that accepts every
// statement and a fresh revision store (what reading a directory as a state source up to a version
// does): the executor validates the directory before it runs anything.
func executeTo(s Snap, v string) (err error) {
	defer func() {
		if p := recover(); p != nil {
			err = fmt.Errorf("panic: %v", p)
		}
	}()
	drv := &mighelp.Driver{OnExec: func(string) error { return nil }}
	ex, err := migrate.NewExecutor(drv, s.mem(), mighelp.NewStore())
	if err != nil {
		return err
	}
	return ex.ExecuteTo(context.Background(), v)
}

// executeToThenTamper keeps one executor over a real directory: ExecuteTo(v) is called twice on the
// untouched directory (the second call has nothing left to do and fails with "no pending files"),
// then the directory is replaced by the tampered one and the same executor is asked again: whatever
// entry point is used, it reads the directory as it is now.
func executeToThenTamper(base, n Snap, v string) (problem string) {
	tampered := false
	defer func() {
		if p := recover(); p != nil {
			problem = fmt.Sprintf("panic: %v", p)
			if !tampered {
				// the untouched directory cannot be executed for reasons of its own (e.g. the up and
				// down files of another tool's layout, read as Atlas files, share a version): not judged.
				problem = ""
			}
		}
	}()
	root := "/dev/shm"
	if st, e := os.Stat(root); e != nil || !st.IsDir() {
		root = clih.ScratchRoot()
	}
	path := filepath.Join(root, fmt.Sprintf("verif-c06x-%d-%d", os.Getpid(), localSeq.Add(1)))
	if e := os.MkdirAll(path, 0o755); e != nil {
		return "harness: " + e.Error()
	}
	defer os.RemoveAll(path)
	write := func(s Snap) error {
		es, _ := os.ReadDir(path)
		for _, e := range es {
			os.Remove(filepath.Join(path, e.Name()))
		}
		for name, c := range s {
			if e := os.WriteFile(filepath.Join(path, name), []byte(c), 0o644); e != nil {
				return e
			}
		}
		return nil
	}
	if e := write(base); e != nil {
		return "harness: " + e.Error()
	}
	d, e := migrate.NewLocalDir(path)
	if e != nil {
		return "harness: " + e.Error()
	}
	drv := &mighelp.Driver{OnExec: func(string) error { return nil }}
	ex, e := migrate.NewExecutor(drv, d, mighelp.NewStore())
	if e != nil {
		return "harness: " + e.Error()
	}
	ctx := context.Background()
	if e := ex.ExecuteTo(ctx, v); e != nil {
		return "" // the untouched directory cannot be executed to v for reasons of its own: not judged
	}
	ex.ExecuteTo(ctx, v) // nothing pending any more
	tampered = true
	if e := write(n); e != nil {
		return "harness: " + e.Error()
	}
	if _, e := ex.Pending(ctx); e == nil || !isChecksumErr(e) {
		return fmt.Sprintf("after ExecuteTo(%q) was called twice on an executor, its Pending does not notice the tampering: %v", v, e)
	}
	if e := ex.ExecuteN(ctx, 0); e == nil || !isChecksumErr(e) {
		return fmt.Sprintf("after ExecuteTo(%q) was called twice on an executor, its ExecuteN does not notice the tampering: %v", v, e)
	}
	return ""
}

// versionsBeforeCheckpoint lists the versions of the directory that precede a checkpoint file.
func versionsBeforeCheckpoint(s Snap) []string {
	files, err := s.mem().Files()
	if err != nil {
		return nil
	}
	last := -1
	for i, f := range files {
		if c, ok := f.(migrate.CheckpointFile); ok && c.IsCheckpoint() {
			last = i
		}
	}
	var vs []string
	for i := 0; i < last; i++ {
		vs = append(vs, files[i].Version())
	}
	return vs
}

var reEditPos = regexp.MustCompile(`@(\d+)`)

func judge(base, n Snap, edit string) (problem, key string, want int) {
	want, key = classify(base, n)
	err := validate(n)
	// the same directory on disk: same verdict, and the files are handed out byte for byte
	// (single-byte edits beyond the first bytes of a file go through the MemDir only: the two
	// directory types differ in how a file is read, not in how its bytes are hashed).
	lerr, unfaithful := err, ""
	if m := reEditPos.FindStringSubmatch(edit); m == nil || len(m[1]) == 1 && m[1] <= "3" {
		lerr, unfaithful = validateLocal(n)
	}
	if strings.HasPrefix(unfaithful, "harness: ") {
		return unfaithful, "", want
	}
	if unfaithful != "" {
		return unfaithful, "", want
	}
	if (err == nil) != (lerr == nil) {
		return fmt.Sprintf("the directory in memory and the same directory on disk are judged differently: MemDir %v, LocalDir %v", err, lerr), key, want
	}
	switch want {
	case wantErr:
		if err == nil {
			return "tampering not detected: Validate returned nil", key, want
		}
		if !isChecksumErr(err) {
			return fmt.Sprintf("tampering reported with a non-checksum error: %v", err), "", want
		}
		// the executor's own entry points validate too, whatever the target version.
		for _, v := range versionsBeforeCheckpoint(n) {
			if err := executeTo(n, v); err == nil || !isChecksumErr(err) {
				return fmt.Sprintf("tampering not detected by Executor.ExecuteTo(%q), a version that precedes a checkpoint: %v", v, err), key, want
			}
		}
		// and an executor that was used before the directory was touched sees it as well.
		if m := reEditPos.FindStringSubmatch(edit); m == nil || len(m[1]) == 1 && m[1] <= "3" {
			for _, v := range versionsBeforeCheckpoint(base) {
				if p := executeToThenTamper(base, n, v); p != "" {
					return p, key, want
				}
			}
		}
	case wantNil:
		if err != nil {
			return fmt.Sprintf("migration files and sum unchanged, yet Validate fails: %v", err), "", want
		}
	}
	return "", "", want
}

// ---------- tamper neighbourhood ----------

type tamper struct {
	name string
	out  Snap
}

func neighbourhood(base Snap, full bool, f func(tamper)) {
	emit := func(name string, s Snap) { f(tamper{name, s}) }
	// a byte order mark put in front of a file / taken away from it (three bytes at once).
	for _, n := range base.names() {
		if !strings.HasSuffix(n, ".sql") {
			continue
		}
		s := base.clone()
		if strings.HasPrefix(base[n], "\ufeff") {
			s[n] = strings.TrimPrefix(base[n], "\ufeff")
			emit("remove-bom "+n, s)
		} else {
			s[n] = "\ufeff" + base[n]
			emit("prepend-bom "+n, s)
		}
	}
	subst := []byte{'\n', ' '}
	for _, n := range base.names() {
		b := base[n]
		for i := 0; i < len(b); i++ {
			vals := append([]byte{b[i] ^ 1}, subst...)
			if full {
				vals = vals[:0]
				for v := 0; v < 256; v++ {
					vals = append(vals, byte(v))
				}
			}
			for _, v := range vals {
				if v == b[i] {
					continue
				}
				s := base.clone()
				s[n] = b[:i] + string([]byte{v}) + b[i+1:]
				emit(fmt.Sprintf("subst %s@%d=%#x", n, i, v), s)
			}
			s := base.clone()
			s[n] = b[:i] + b[i+1:]
			emit(fmt.Sprintf("delete %s@%d", n, i), s)
		}
		for i := 0; i <= len(b); i++ {
			for _, v := range []string{"x", "\n", " ", ";"} {
				s := base.clone()
				s[n] = b[:i] + v + b[i:]
				emit(fmt.Sprintf("insert %s@%d=%q", n, i, v), s)
			}
		}
	}
	var sqls []string
	for _, n := range base.names() {
		if strings.HasSuffix(n, ".sql") {
			sqls = append(sqls, n)
		}
	}
	// file added: before / between / after, several contents.
	addNames := []string{"0_new.sql", "9_new.sql", "README.md", "atlas.hcl"}
	for i := 0; i+1 < len(sqls); i++ {
		addNames = append(addNames, sqls[i]+"a.sql") // sorts right after sqls[i]
	}
	contents := []string{"NEW;\n", "-- atlas:sum ignore\nNEW;\n", ""}
	for _, n := range sqls {
		contents = append(contents, base[n])
	}
	for _, an := range addNames {
		if _, ok := base[an]; ok {
			continue
		}
		for _, c := range contents {
			s := base.clone()
			s[an] = c
			emit(fmt.Sprintf("add %s (%d bytes)", an, len(c)), s)
		}
	}
	for _, n := range sqls {
		s := base.clone()
		delete(s, n)
		emit("remove "+n, s)
		for _, to := range []string{"0_" + n, n[:len(n)-4] + "x.sql", "9_" + n, strings.ToUpper(n[:1]) + n[1:] + ".bak"} {
			if _, ok := base[to]; ok || to == n {
				continue
			}
			s := base.clone()
			s[to] = s[n]
			delete(s, n)
			emit("rename "+n+" -> "+to, s)
		}
		// turn the file into / out of a sum-ignored file.
		s2 := base.clone()
		if ign, _ := ignored(base[n]); ign {
			s2[n] = strings.SplitN(base[n], "\n", 2)[1]
		} else {
			s2[n] = "-- atlas:sum ignore\n" + base[n]
		}
		emit("toggle-ignore "+n, s2)
	}
	for i := 0; i < len(sqls); i++ {
		for j := i + 1; j < len(sqls); j++ {
			if base[sqls[i]] == base[sqls[j]] {
				continue
			}
			s := base.clone()
			s[sqls[i]], s[sqls[j]] = s[sqls[j]], s[sqls[i]]
			emit("swap-contents "+sqls[i]+" "+sqls[j], s)
			// move the tail of one file to the head of the next (same concatenated stream).
			if bi := base[sqls[i]]; len(bi) > 1 && j == i+1 {
				s := base.clone()
				s[sqls[i]] = bi[:len(bi)/2]
				s[sqls[j]] = bi[len(bi)/2:] + base[sqls[j]]
				emit("move-tail "+sqls[i]+" -> "+sqls[j], s)
			}
		}
	}
	if sum, ok := base[migrate.HashFileName]; ok {
		lines := strings.SplitAfter(sum, "\n")
		if lines[len(lines)-1] == "" {
			lines = lines[:len(lines)-1]
		}
		join := func(l []string) Snap {
			s := base.clone()
			s[migrate.HashFileName] = strings.Join(l, "")
			return s
		}
		// rehashed: the same edit of the file lines with the first line (the sum of the entries) computed
		// anew, so that the sum file is consistent in itself.
		rehashed := func(l []string) Snap {
			var hf migrate.HashFile
			for _, x := range l[1:] {
				x = strings.TrimSuffix(x, "\n")
				if k := strings.LastIndex(x, " h1:"); k >= 0 {
					hf = append(hf, struct{ N, H string }{x[:k], x[k+4:]})
				}
			}
			b, _ := hf.MarshalText()
			s := base.clone()
			s[migrate.HashFileName] = string(b)
			return s
		}
		for i := range lines {
			if i > 0 {
				l := append(append([]string(nil), lines[:i]...), lines[i+1:]...)
				emit(fmt.Sprintf("sum remove-line %d rehashed", i), rehashed(l))
				l = append(append(append([]string(nil), lines[:i+1]...), lines[i]), lines[i+1:]...)
				emit(fmt.Sprintf("sum dup-line %d rehashed", i), rehashed(l))
				if i+1 < len(lines) {
					l = append([]string(nil), lines...)
					l[i], l[i+1] = l[i+1], l[i]
					emit(fmt.Sprintf("sum swap-lines %d rehashed", i), rehashed(l))
				}
			}
			l := append(append([]string(nil), lines[:i]...), lines[i+1:]...)
			emit(fmt.Sprintf("sum remove-line %d", i), join(l))
			l = append(append(append([]string(nil), lines[:i+1]...), lines[i]), lines[i+1:]...)
			emit(fmt.Sprintf("sum dup-line %d", i), join(l))
			if i+1 < len(lines) {
				l = append([]string(nil), lines...)
				l[i], l[i+1] = l[i+1], l[i]
				emit(fmt.Sprintf("sum swap-lines %d", i), join(l))
			}
			// compound: move bytes across the "h1:" marker of a file line, i.e. between the name
			// and its hash (the concatenation of all names and hashes stays the same).
			if k := strings.Index(lines[i], " h1:"); i > 0 && k > 1 {
				name, hash := lines[i][:k], lines[i][k+4:]
				for n := 1; n <= 2 && n < len(name); n++ {
					l = append([]string(nil), lines...)
					l[i] = name[:len(name)-n] + " h1:" + name[len(name)-n:] + hash
					emit(fmt.Sprintf("sum shift-name-to-hash %d %d", i, n), join(l))
					l = append([]string(nil), lines...)
					l[i] = name + hash[:n] + " h1:" + hash[n:]
					emit(fmt.Sprintf("sum shift-hash-to-name %d %d", i, n), join(l))
				}
			}
		}
		s := base.clone()
		delete(s, migrate.HashFileName)
		emit("sum removed", s)
		s = base.clone()
		s[migrate.HashFileName] = ""
		emit("sum emptied", s)
	}
}

// ---------- writers (BFS alphabet) ----------

type formatter struct {
	name string
	f    migrate.Formatter
}

var formatters = []formatter{
	{"atlas", migrate.DefaultFormatter},
	{"golang-migrate", sqltool.GolangMigrateFormatter},
	{"goose", sqltool.GooseFormatter},
	{"flyway", sqltool.FlywayFormatter},
	{"liquibase", sqltool.LiquibaseFormatter},
	{"dbmate", sqltool.DBMateFormatter},
}

func plan(kind int, version, name string) *migrate.Plan {
	p := &migrate.Plan{Version: version, Name: name}
	switch kind {
	case 0:
		p.Changes = []*migrate.Change{{Cmd: "CREATE TABLE t" + version + " (id int)", Comment: "create table", Reverse: "DROP TABLE t" + version}}
	case 1:
		p.Changes = []*migrate.Change{
			{Cmd: "ALTER TABLE t ADD COLUMN c" + version + " text", Comment: "add column", Reverse: "ALTER TABLE t DROP COLUMN c" + version},
			{Cmd: "CREATE INDEX i" + version + " ON t (c" + version + ")", Reverse: []string{"DROP INDEX i" + version}},
		}
	}
	return p
}

type op struct {
	Kind string `json:"kind"` // plan | checkpoint | copy
	Fmt  int    `json:"fmt,omitempty"`
	Plan int    `json:"plan,omitempty"`
	Over bool   `json:"overwrite,omitempty"` // reuse version 1 / name of the first step
}

func ops() []op {
	var os []op
	for f := range formatters {
		for p := 0; p < 2; p++ {
			os = append(os, op{Kind: "plan", Fmt: f, Plan: p})
			if f == 0 { // only the atlas formatter takes the version from the plan; the others stamp the clock
				os = append(os, op{Kind: "plan", Fmt: f, Plan: p, Over: true})
			}
		}
	}
	os = append(os, op{Kind: "checkpoint", Plan: 0}, op{Kind: "checkpoint", Plan: 1}, op{Kind: "copy"}, op{Kind: "copy", Plan: 1}, op{Kind: "copy", Plan: 2})
	return os
}

// apply replays a history of writer operations on a fresh directory of the given kind.
func apply(hist []op, local string) (d migrate.Dir, err error) {
	var cd migrate.CheckpointDir = &migrate.MemDir{}
	if local != "" {
		os.RemoveAll(local)
		os.MkdirAll(local, 0o755)
		if cd, err = migrate.NewLocalDir(local); err != nil {
			return nil, err
		}
	}
	for i, o := range hist {
		v := fmt.Sprintf("%d", i+1)
		name := fmt.Sprintf("s%d", i+1)
		if o.Over {
			v, name = "1", "s1"
		}
		switch o.Kind {
		case "plan":
			pl := migrate.NewPlanner(nil, cd, migrate.PlanFormat(formatters[o.Fmt].f))
			err = pl.WritePlan(plan(o.Plan, v, name))
		case "checkpoint":
			pl := migrate.NewPlanner(nil, cd)
			err = pl.WriteCheckpoint(plan(o.Plan, v, name), "")
		case "copy":
			files, ferr := cd.Files()
			if ferr != nil {
				return nil, ferr
			}
			m := &migrate.MemDir{}
			switch {
			case o.Plan == 1 && len(files) > 1:
				// the target holds the first file already (written and hashed), the others are copied in.
				if err = m.WriteFile(files[0].Name(), files[0].Bytes()); err == nil {
					var sum migrate.HashFile
					if sum, err = m.Checksum(); err == nil {
						err = migrate.WriteSumFile(m, sum)
					}
				}
				files = files[1:]
			case o.Plan == 2:
				// the caller hands the files over newest first.
				rev := make([]migrate.File, len(files))
				for i, f := range files {
					rev[len(files)-1-i] = f
				}
				files = rev
			}
			if err != nil {
				break
			}
			err = m.CopyFiles(files)
			if local == "" {
				cd = m
			} else if err == nil {
				// copy back into a fresh local dir through the MemDir sync hook.
				mf, _ := m.Files()
				for _, f := range mf {
					if err = cd.WriteFile(f.Name(), f.Bytes()); err != nil {
						break
					}
				}
				if sum, e := m.Open(migrate.HashFileName); e == nil {
					var b bytes.Buffer
					b.ReadFrom(sum)
					err = cd.WriteFile(migrate.HashFileName, b.Bytes())
				}
			}
		}
		if err != nil {
			return nil, fmt.Errorf("op %d %+v: %w", i, o, err)
		}
	}
	return cd, nil
}

// special hand-built states: sum-ignored files and awkward names.
func specials() []Snap {
	mk := func(files map[string]string) Snap {
		d := &migrate.MemDir{}
		for n, c := range files {
			d.WriteFile(n, []byte(c))
		}
		sum, _ := d.Checksum()
		migrate.WriteSumFile(d, sum)
		extra := []string{}
		for n := range files {
			if !strings.HasSuffix(n, ".sql") {
				extra = append(extra, n)
			}
		}
		return snapOf(d, extra...)
	}
	return []Snap{
		mk(map[string]string{"1_a.sql": "A;\n", "2_b.sql": "B;\n"}),
		mk(map[string]string{"1_a.sql": "A;\n", "2_b.sql": "-- atlas:sum ignore\nB;\n", "3_c.sql": "C;\n"}),
		mk(map[string]string{"1_a.sql": "A;\n", "2_b.sql": "B;\n", "3_c.sql": "-- atlas:sum ignore\nC;\n"}),
		mk(map[string]string{"1_a.sql": "-- atlas:sum ignore\nA;\n", "2_b.sql": "B;\n"}),
		mk(map[string]string{"1_a.sql": "A;\n", "1_a.sqlx.sql": "A;\n", "2 b.sql": "B;\n"}),
		mk(map[string]string{"1_a.sql": "A;\n", "2_b.sql": "A;\n", "3_c.sql": "A;\n"}),
		mk(map[string]string{"1_a.sql": "", "2_b.sql": "B;\n"}),
		mk(map[string]string{"1_a.sql": "A;\n", "notes.txt": "hello"}),
		// a checkpoint in the middle: versions before it, a file after it.
		mk(map[string]string{"1_a.sql": "A;\n", "2_ck.sql": "-- atlas:checkpoint\n\nA;\nB;\n", "3_c.sql": "C;\n"}),
		// a file that begins with a byte order mark.
		mk(map[string]string{"1_a.sql": "\ufeffA;\n", "2_b.sql": "B;\n"}),
		// a file name that begins with a blank.
		mk(map[string]string{" 0_lead.sql": "L;\n", "1_a.sql": "A;\n"}),
		// a file name that holds the text separating a name from its hash in a sum line.
		mk(map[string]string{"1_a.sql": "A;\n", "2_h1:x.sql": "B;\n"}),
		// file names that hold a percent sign (a formatting verb, if the name were ever used as a format).
		mk(map[string]string{"1_a.sql": "A;\n", "2_50%_s.sql": "B;\n", "3_a%sb%%.sql": "C;\n"}),
	}
}

func Run(r *report.Run) {
	depth, tamperDepth, full := 3, 1, false
	if r.Tier == "thorough" {
		depth, tamperDepth, full = 4, 2, true
	}
	r.Rule = fmt.Sprintf("(1) BFS to depth %d over the writer alphabet {Planner.WritePlan x 6 formatters x 2 plans x {new version, overwrite version 1}, WriteCheckpoint x 2 plans, MemDir.CopyFiles into an empty MemDir / into one that holds the first file / newest file first} from the empty MemDir (and LocalDir to depth 2); canonical state = sorted (name, bytes) with 14-digit timestamps masked; invariant Validate(dir)==nil in every state. (2) for every reached state of depth<=%d with <=3 migration files plus 12 hand-built states (sum-ignored files first/middle/last, awkward names (a blank inside / in front, a second '.sql', the text 'h1:'), equal contents, empty file, a file starting with a byte order mark, a checkpoint file between two plain files, non-migration file): the complete single-edit neighbourhood - every byte position of every file and of atlas.sum x {substitute (%s), delete, insert 4 values}, a byte order mark prepended / removed, file add before/between/after x contents (new, sum-ignored, empty, copy of each file), remove, rename (order preserving / changing / out of *.sql), toggle the ignore directive, swap contents, move a tail across a file boundary, sum line remove/dup/swap (also with the first line computed anew, so that the sum file is consistent in itself), bytes moved between a name and its hash in a sum line, sum removed/emptied - judged by refSum, through a MemDir and through a LocalDir on disk (same verdict; the files handed out are the bytes on disk); for directories holding a checkpoint a material edit must also make Executor.ExecuteTo(v) fail with a checksum error for every version v that precedes the checkpoint, and an executor on which ExecuteTo(v) was already called (twice) before the edit must report it from Pending and ExecuteN. (3) BFS over CLI histories on a real directory with the alphabet {migrate new, migrate diff to 2 desired schemas (SQLite dev db), migrate hash, hand edits: append to newest file, remove oldest file, add a file, drop the last sum line, rename newest file, change one character of a file's hash in its sum line}: a writer command must refuse a directory whose sum does not match and leave it untouched, must leave a valid directory otherwise; in every reached state `migrate validate` and `migrate apply` (fresh database) must succeed iff the directory was not edited since atlas last wrote or re-hashed it, and the CLI must agree with migrate.Validate(LocalDir); an edited directory handed over as a state source (`schema inspect --url file://dir`, absolute and relative URL) must be refused too, and so must `migrate lint --latest 1`, whose integrity step is separate from the validation the other commands share; (4) `migrate import` from hand-written source directories of the 5 third-party formats x version sets (digit boundaries 9/10/11, 1/2/10, zero-padded; flyway also with a repeatable, a baseline and an undo file, and with a file in a sub-directory of a directory that lives below a hidden directory): the written directory must validate and hold the statement of every step exactly once; (5) `migrate hash` then `migrate validate` on hand-written directories of 5 formats with the directory and its format handed over through each of 4 channels (URL parameter, --dir-format, project file, project file plus --dir-format), every pair of channels, untouched and with a migration file edited in between: the sum one command writes is the one every other expects; non-trivial = tampered directory the model calls material; distinct = (state, edit)", depth, tamperDepth, map[bool]string{false: "bit flip, newline, space", true: "all 255 other values"}[full])
	r.Assumptions = []string{
		"material = the ordered list of *.sql files (name, bytes; bytes replaced by a marker for files whose first line carries atlas:sum ignore) changed, or atlas.sum changed other than in ASCII white space (space, tab, CR, VT, FF) or its final newline; immaterial edits of sum-ignored bodies and whitespace-only sum edits are counted, not judged",
		"any of ErrChecksumMismatch / ErrChecksumFormat / ErrChecksumNotFound counts as a checksum error",
		"third-party formatters stamp file names with the wall clock (second granularity); plan names carry the step number so names never collide",
	}
	// (1) BFS over writers
	alphabet := ops()
	type node struct{ hist []op }
	seen := map[string]bool{}
	frontier := []node{{nil}}
	var states []struct {
		hist []op
		snap Snap
	}
	transitions := 0
	d0, _ := apply(nil, "")
	seen[snapOf(d0).canon()] = true
	states = append(states, struct {
		hist []op
		snap Snap
	}{nil, snapOf(d0)})
	for dep := 1; dep <= depth; dep++ {
		var next []node
		type res struct {
			hist []op
			snap Snap
			err  error
			verr error
		}
		var jobs [][]op
		for _, n := range frontier {
			for _, o := range alphabet {
				if o.Over && len(n.hist) == 0 {
					continue
				}
				jobs = append(jobs, append(append([]op(nil), n.hist...), o))
			}
		}
		out := make([]res, len(jobs))
		enum.Parallel(len(jobs), func(i, _ int) {
			d, err := apply(jobs[i], "")
			if err != nil {
				out[i] = res{hist: jobs[i], err: err}
				return
			}
			out[i] = res{hist: jobs[i], snap: snapOf(d), verr: migrate.Validate(d)}
		})
		for _, o := range out {
			transitions++
			if o.err != nil {
				r.Violate("", fmt.Sprintf("writer failed: %v", o.err), map[string]any{"history": o.hist})
				continue
			}
			if o.verr != nil {
				r.Violate("", fmt.Sprintf("writer history %+v leaves the directory invalid: %v", o.hist, o.verr), map[string]any{"history": o.hist})
			}
			k := o.snap.canon()
			if !seen[k] {
				seen[k] = true
				next = append(next, node{o.hist})
				states = append(states, struct {
					hist []op
					snap Snap
				}{o.hist, o.snap})
			}
		}
		frontier = next
		if r.Expired() {
			break
		}
	}
	// LocalDir: same invariant to depth 2, and the result must equal the MemDir result.
	localStates := 0
	scratch := os.Getenv("VERIF_SCRATCH")
	if scratch == "" {
		scratch = fmt.Sprintf("/var/tmp/verif-%d", os.Getpid())
	}
	defer os.RemoveAll(scratch)
	var lhist [][]op
	for _, o1 := range alphabet {
		if o1.Over {
			continue
		}
		lhist = append(lhist, []op{o1})
		for _, o2 := range alphabet {
			lhist = append(lhist, []op{o1, o2})
		}
	}
	lres := make([]string, len(lhist))
	enum.Parallel(len(lhist), func(i, w int) {
		dir := fmt.Sprintf("%s/c06-%d", scratch, w)
		d, err := apply(lhist[i], dir)
		if err != nil {
			lres[i] = "writer failed: " + err.Error()
			return
		}
		if err := migrate.Validate(d); err != nil {
			lres[i] = "LocalDir invalid after writers: " + err.Error()
			return
		}
		m, _ := apply(lhist[i], "")
		if snapOf(d).canon() != snapOf(m).canon() {
			lres[i] = "LocalDir and MemDir disagree after the same history"
		}
	})
	for i, p := range lres {
		localStates++
		transitions += len(lhist[i])
		if p != "" {
			r.Violate("", fmt.Sprintf("%s (history %+v)", p, lhist[i]), map[string]any{"history": lhist[i], "local": true})
		}
	}
	// (3) CLI BFS: the commands that write the directory, interleaved with hand edits.
	cliDepth, cliFormats := 3, []string{"atlas"}
	if r.Tier == "thorough" {
		cliDepth = 4 // other directory formats stamp names with the wall clock (no seam): covered in process by (1)
	}
	cs, ct := RunCLI(r, cliDepth, cliFormats)
	transitions += ct
	r.Set("import_cases", RunImport(r))
	r.Set("hash_validate_channel_cases", RunVia(r))
	r.Set("cli_states", cs)
	r.Set("cli_transitions", ct)
	r.Set("states", len(states)+localStates+cs)
	r.Set("transitions", transitions)
	r.Set("bfs_depth", depth)
	r.Set("localdir_histories", localStates)

	// (2) tamper neighbourhoods
	var bases []Snap
	for _, s := range states {
		n := 0
		for name := range s.snap {
			if strings.HasSuffix(name, ".sql") {
				n++
			}
		}
		if len(s.hist) <= tamperDepth && n <= 3 {
			bases = append(bases, s.snap)
		}
	}
	bases = append(bases, specials()...)
	type tot struct{ evals, material, immaterial, skipped int64 }
	tots := make([]tot, len(bases))
	enum.Parallel(len(bases), func(i, _ int) {
		base := bases[i]
		if err := validate(base); err != nil {
			r.Violate("", fmt.Sprintf("untouched directory does not validate: %v", err), Case{Base: base, Edit: "none", New: base})
			return
		}
		neighbourhood(base, full, func(t tamper) {
			problem, key, want := judge(base, t.out, t.name)
			tots[i].evals++
			switch want {
			case wantErr:
				tots[i].material++
			case wantNil:
				tots[i].immaterial++
			default:
				tots[i].skipped++
			}
			if problem != "" {
				r.Violate(key, fmt.Sprintf("%s: %s (base files %v)", t.name, problem, base.names()), Case{base, t.name, t.out})
			}
		})
	})
	var T tot
	for _, t := range tots {
		T.evals += t.evals
		T.material += t.material
		T.immaterial += t.immaterial
		T.skipped += t.skipped
	}
	r.AddEvals(T.evals + int64(transitions))
	for i := int64(0); i < T.material; i++ {
		r.CaseDistinct(true)
	}
	// CaseDistinct also bumps evaluations; compensate.
	r.AddEvals(-T.material)
	r.Set("tamper_base_states", len(bases))
	r.Set("tamper_edits", T.evals)
	r.Set("tamper_material_expected_error", T.material)
	r.Set("tamper_immaterial_expected_valid", T.immaterial)
	r.Set("tamper_not_judged", T.skipped)
	r.Set("traces_validated_against_impl", transitions)
	if len(states) > 30 {
		r.Sample(map[string]any{"writer_history": states[30].hist, "files": states[30].snap.names()})
	}
	b := specials()[1]
	r.Sample(map[string]any{"tamper_base": b, "example_edit": "add 0_new.sql with sum-ignore directive => material, must be detected"})
}

func Replay(r *report.Run, raw json.RawMessage) {
	var v struct {
		Case struct {
			Case
			History []op `json:"history"`
			Local   bool `json:"local"`
		}
	}
	if err := json.Unmarshal(raw, &v); err != nil {
		r.Violate("", "bad replay file: "+err.Error(), nil)
		return
	}
	r.Case("a", true)
	r.Case("b", true)
	var cli struct {
		Case struct {
			H      []cliOp `json:"cli_history"`
			Format string  `json:"format"`
		}
	}
	var imp struct {
		Case struct {
			C *ImportCase `json:"import_case"`
		}
	}
	var via struct {
		Case struct {
			C *ViaCase `json:"via_case"`
		}
	}
	if json.Unmarshal(raw, &via) == nil && via.Case.C != nil {
		defer clih.Cleanup()
		if p := evalVia(*via.Case.C); len(p) > 0 {
			r.Violate("", strings.Join(p, " | "), map[string]any{"via_case": via.Case.C})
		}
		return
	}
	if json.Unmarshal(raw, &imp) == nil && imp.Case.C != nil {
		defer clih.Cleanup()
		if p := evalImport(*imp.Case.C); len(p) > 0 {
			r.Violate("", strings.Join(p, " | "), map[string]any{"import_case": imp.Case.C})
		}
		return
	}
	if json.Unmarshal(raw, &cli) == nil && len(cli.Case.H) > 0 {
		ReplayCLI(r, cli.Case.H, cli.Case.Format)
		return
	}
	if v.Case.Base == nil {
		d, err := apply(v.Case.History, "")
		if err != nil {
			r.Violate("", err.Error(), v.Case)
			return
		}
		if err := migrate.Validate(d); err != nil {
			r.Violate("", "directory invalid after writers: "+err.Error(), v.Case)
		}
		return
	}
	if p, key, _ := judge(v.Case.Base, v.Case.New, ""); p != "" {
		r.Violate(key, v.Case.Edit+": "+p, v.Case.Case)
	}
}
