package c06

import (
	"crypto/sha256"
	"fmt"
	"os"
	"path/filepath"
	"regexp"
	"sort"
	"strings"

	"ariga.io/atlas/sql/migrate"

	"verif/clih"
	"verif/engine/enum"
	"verif/engine/report"
)

// ---------- CLI BFS: every command that writes the directory, interleaved with hand edits ----------
//
// State = the directory on disk. The model keeps the snapshot of the directory at the last moment it
// was valid by construction (after a successful writer command or `migrate hash`); the current
// directory is judged against it with the same classify() the tamper neighbourhood uses.

type cliOp struct {
	Kind string `json:"kind"` // new | diff1 | diff2 | hash | t_append | t_remove | t_add | t_sumline | t_rename | t_sumhash
}

// the directory lives at a relative path whose last element is not "migrations", so that it can also be
// handed over as a state source through a relative URL (file://proj/db).
const cliDir = "proj/db"

var cliAlphabet = []cliOp{{"new"}, {"diff1"}, {"diff2"}, {"hash"}, {"t_append"}, {"t_remove"}, {"t_add"}, {"t_sumline"}, {"t_rename"}, {"t_sumhash"}}

const hclS1 = `schema "main" {}
table "a" {
  schema = schema.main
  column "id" {
    type = integer
  }
}
`

const hclS2 = hclS1 + `table "b" {
  schema = schema.main
  column "id" {
    type = integer
  }
  column "a_id" {
    type = integer
    null = true
  }
  index "b_a" {
    columns = [column.a_id]
  }
}
`

func readDirSnap(wk *clih.Work) Snap {
	s := Snap{}
	for n, c := range wk.ReadDir(cliDir) {
		s[n] = c
	}
	return s
}

var reStamp = regexp.MustCompile(`\d{14}`)

func cliCanon(s Snap, valid string) string {
	var out []string
	for n, c := range s {
		if n == migrate.HashFileName {
			continue
		}
		out = append(out, fmt.Sprintf("%s=%x", reStamp.ReplaceAllString(n, "T"), sha256.Sum256([]byte(c)))[:40])
	}
	sort.Strings(out)
	return strings.Join(out, ",") + "|" + valid
}

func sqlNames(s Snap) []string {
	var out []string
	for n := range s {
		if strings.HasSuffix(n, ".sql") {
			out = append(out, n)
		}
	}
	sort.Strings(out)
	return out
}

// runCLIHistory replays h on a fresh directory. ok=false: an operation was inapplicable or the model does
// not judge the state (history is dropped); problems refer to the last operation and the reached state.
func runCLIHistory(h []cliOp, format string) (problems []string, canon string, ok bool) {
	wk, err := clih.NewWork()
	if err != nil {
		return []string{"harness: " + err.Error()}, "", true
	}
	defer wk.Close()
	os.MkdirAll(wk.Path(cliDir), 0o755)
	os.WriteFile(wk.Path("s1.hcl"), []byte(hclS1), 0o644)
	os.WriteFile(wk.Path("s2.hcl"), []byte(hclS2), 0o644)
	dirURL := "file://" + wk.Path(cliDir)
	validSnap := Snap{}
	for step, op := range h {
		last := step == len(h)-1
		var bad func(string, ...any)
		if last {
			bad = func(f string, a ...any) { problems = append(problems, fmt.Sprintf(f, a...)) }
		} else {
			bad = func(string, ...any) {}
		}
		before := readDirSnap(wk)
		want, _ := classify(validSnap, before)
		names := sqlNames(before)
		switch op.Kind {
		case "new", "diff1", "diff2":
			if want == notAsserted {
				return nil, "", false
			}
			var res clih.Result
			// the harness owns the clock: every writer step gets its own version.
			now := []string{fmt.Sprintf("VERIF_NOW=202601010000%02d", step+1)}
			if op.Kind == "new" {
				res = wk.Run(now, "migrate", "new", fmt.Sprintf("n%d", step), "--dir", dirURL, "--dir-format", format)
			} else {
				res = wk.Run(now, "migrate", "diff", fmt.Sprintf("d%d", step), "--dir", dirURL, "--dir-format", format, "--to", "file://"+wk.Path("s"+op.Kind[4:]+".hcl"), "--dev-url", "sqlite://dev?mode=memory")
			}
			after := readDirSnap(wk)
			if want == wantErr {
				// a writer must refuse a directory that fails validation, and must not touch it.
				if res.Exit == 0 {
					bad("`migrate %s` succeeded on a directory whose sum does not match (%s)", op.Kind, res)
				}
				if fmt.Sprint(before) != fmt.Sprint(after) {
					bad("`migrate %s` was refused (exit %d) yet changed the directory: before %v after %v", op.Kind, res.Exit, names, sqlNames(after))
				}
				break
			}
			if res.Exit != 0 {
				bad("`migrate %s` failed on a valid directory: %s", op.Kind, res)
				break
			}
			if fmt.Sprint(before) == fmt.Sprint(after) {
				if op.Kind == "new" {
					bad("`migrate new` exited 0 and wrote nothing")
				}
				break // diff: nothing to do
			}
			// files present before must be untouched; the sum must protect the new content.
			for n, c := range before {
				if n != migrate.HashFileName && after[n] != c {
					bad("`migrate %s` changed existing file %s", op.Kind, n)
				}
			}
			validSnap = after
		case "hash":
			res := wk.Run(nil, "migrate", "hash", "--dir", dirURL, "--dir-format", format)
			after := readDirSnap(wk)
			if res.Exit != 0 {
				bad("`migrate hash` failed: %s", res)
			}
			for n, c := range before {
				if n != migrate.HashFileName && after[n] != c {
					bad("`migrate hash` changed file %s", n)
				}
			}
			validSnap = after
		case "t_append":
			if len(names) == 0 {
				return nil, "", false
			}
			n := names[len(names)-1]
			os.WriteFile(wk.Path(cliDir, n), []byte(before[n]+"-- edited\n"), 0o644)
		case "t_remove":
			if len(names) == 0 {
				return nil, "", false
			}
			os.Remove(wk.Path(cliDir, names[0]))
		case "t_add":
			n := fmt.Sprintf("1%d_manual.sql", step)
			if _, dup := before[n]; dup {
				return nil, "", false
			}
			os.WriteFile(wk.Path(cliDir, n), []byte(fmt.Sprintf("CREATE TABLE m%d (id integer);\n", step)), 0o644)
		case "t_sumline":
			sum, has := before[migrate.HashFileName]
			lines := strings.Split(strings.TrimRight(sum, "\n"), "\n")
			if !has || len(lines) < 2 {
				return nil, "", false
			}
			os.WriteFile(wk.Path(cliDir, migrate.HashFileName), []byte(strings.Join(lines[:len(lines)-1], "\n")+"\n"), 0o644)
		case "t_sumhash":
			// one character of the hash of the first file's line (the total line stays as it was).
			sum, has := before[migrate.HashFileName]
			lines := strings.Split(strings.TrimRight(sum, "\n"), "\n")
			if !has || len(lines) < 2 {
				return nil, "", false
			}
			i := strings.Index(lines[1], " h1:")
			if i < 0 || i+5 >= len(lines[1]) {
				return nil, "", false
			}
			b := []byte(lines[1])
			if b[i+4] == 'A' {
				b[i+4] = 'B'
			} else {
				b[i+4] = 'A'
			}
			lines[1] = string(b)
			os.WriteFile(wk.Path(cliDir, migrate.HashFileName), []byte(strings.Join(lines, "\n")+"\n"), 0o644)
		case "t_rename":
			if len(names) == 0 {
				return nil, "", false
			}
			n := names[len(names)-1]
			os.Rename(wk.Path(cliDir, n), wk.Path(cliDir, "9"+n))
		}
		if !last {
			continue
		}
		// ---- observations in the reached state ----
		cur := readDirSnap(wk)
		want, _ = classify(validSnap, cur)
		if want == notAsserted {
			return problems, "", false
		}
		v := wk.Run(nil, "migrate", "validate", "--dir", dirURL, "--dir-format", format)
		// the library on the same bytes (LocalDir) must agree with the CLI.
		var libErr error
		if ld, err := migrate.NewLocalDir(wk.Path(cliDir)); err == nil {
			libErr = migrate.Validate(ld)
		}
		if (v.Exit == 0) != (libErr == nil) {
			bad("`migrate validate` exit=%d but migrate.Validate(LocalDir)=%v", v.Exit, libErr)
		}
		// the directory as a state source (the desired state of an inspection), absolute and relative URL:
		// a directory carrying a sum file is a migration directory and is validated before it is replayed.
		if _, hasSum := cur[migrate.HashFileName]; hasSum && want == wantErr {
			for _, u := range []string{dirURL, "file://" + cliDir} {
				si := wk.Run(nil, "schema", "inspect", "--url", u, "--dev-url", "sqlite://dev?mode=memory")
				if si.Exit == 0 {
					bad("`schema inspect --url %s` reads the edited directory without a checksum complaint", u)
				}
			}
		}
		// `migrate lint` checks the integrity of the directory in a step of its own (it does not go through
		// the validation the other commands share).
		if _, hasSum := cur[migrate.HashFileName]; hasSum && want == wantErr && len(sqlNames(cur)) > 0 {
			li := wk.Run(nil, "migrate", "lint", "--dir", dirURL, "--dir-format", format, "--dev-url", "sqlite://dev?mode=memory", "--latest", "1")
			if li.Exit == 0 {
				bad("`migrate lint` accepts a directory whose sum does not match: %s", li)
			} else if !strings.Contains(strings.ToLower(li.Stderr+li.Stdout), "checksum") && !strings.Contains(li.Stderr+li.Stdout, "atlas.sum") {
				bad("`migrate lint` fails on a directory whose sum does not match without naming the checksum: %s", li)
			}
		}
		os.Remove(wk.Path("db.sqlite"))
		ap := wk.Run(nil, "migrate", "apply", "--dir", dirURL+"?format="+format, "--url", wk.URL("db.sqlite"))
		switch want {
		case wantNil:
			if v.Exit != 0 {
				bad("the directory was written by atlas / re-hashed and not edited since, yet `migrate validate` fails: %s", v)
			}
			// the statements themselves may fail (hand edits can make the SQL inconsistent); only a
			// checksum complaint contradicts the property.
			if ap.Exit != 0 && strings.Contains(ap.Stderr+ap.Stdout, "checksum") {
				bad("`migrate apply` reports a checksum error on a valid directory: %s", ap)
			}
		case wantErr:
			if v.Exit == 0 {
				bad("the directory was edited after the sum was written, yet `migrate validate` exits 0")
			} else if !strings.Contains(v.Stderr+v.Stdout, "checksum") {
				bad("`migrate validate` fails without naming the checksum: %s", v)
			}
			if ap.Exit == 0 {
				bad("`migrate apply` runs a directory whose sum does not match: %s", ap)
			} else if t, _ := wk.Query("db.sqlite", "SELECT name FROM sqlite_master WHERE type='table' AND name NOT LIKE 'atlas_%'"); len(t) > 0 {
				bad("`migrate apply` refused the directory (exit %d) but created tables %v", ap.Exit, t)
			}
		}
		canon = cliCanon(cur, fmt.Sprint(want))
	}
	return problems, canon, true
}

// RunCLI is the BFS over CLI histories; returns states, transitions.
func RunCLI(r *report.Run, depth int, formats []string) (states, transitions int) {
	defer clih.Cleanup()
	for _, format := range formats {
		type node struct{ ops []cliOp }
		frontier := []node{{nil}}
		seen := map[string]bool{}
		for d := 1; d <= depth; d++ {
			var hist [][]cliOp
			for _, n := range frontier {
				for _, o := range cliAlphabet {
					hist = append(hist, append(append([]cliOp(nil), n.ops...), o))
				}
			}
			type res struct {
				problems []string
				canon    string
				ok       bool
			}
			out := make([]res, len(hist))
			enum.Parallel(len(hist), func(i, _ int) {
				p, c, ok := runCLIHistory(hist[i], format)
				out[i] = res{p, c, ok}
			})
			var next []node
			for i, o := range out {
				if !o.ok && len(o.problems) == 0 {
					continue
				}
				transitions++
				r.Case("cli|"+format+"|"+fmt.Sprint(hist[i]), true)
				if len(o.problems) > 0 {
					r.Violate("", fmt.Sprintf("CLI history %v (dir format %s): %s", hist[i], format, strings.Join(o.problems, " | ")), map[string]any{"cli_history": hist[i], "format": format})
				}
				if o.canon != "" && !seen[o.canon] {
					seen[o.canon] = true
					states++
					next = append(next, node{hist[i]})
				}
			}
			frontier = next
		}
	}
	return
}

// ReplayCLI replays one CLI history.
func ReplayCLI(r *report.Run, h []cliOp, format string) {
	defer clih.Cleanup()
	p, canon, ok := runCLIHistory(h, format)
	fmt.Printf("  CLI history %v format=%s applicable=%v state=%s\n", h, format, ok, canon)
	if len(p) > 0 {
		r.Violate("", strings.Join(p, " | "), map[string]any{"cli_history": h, "format": format})
	}
}

var _ = filepath.Join

// ---------- `migrate import`: the imported directory must validate ----------

type ImportCase struct {
	Format   string   `json:"format"`
	Versions []string `json:"versions"`
	Extra    string   `json:"extra,omitempty"` // flyway: repeatable | baseline | undo | subdir_below_dotdir
}

func importFiles(c ImportCase) map[string]string {
	out := map[string]string{}
	for i, v := range c.Versions {
		up := fmt.Sprintf("CREATE TABLE t%d (id integer);\n", i+1)
		down := fmt.Sprintf("DROP TABLE t%d;\n", i+1)
		name := fmt.Sprintf("step%d", i+1)
		switch c.Format {
		case "golang-migrate":
			out[v+"_"+name+".up.sql"] = up
			out[v+"_"+name+".down.sql"] = down
		case "goose":
			out[v+"_"+name+".sql"] = "-- +goose Up\n" + up + "\n-- +goose Down\n" + down
		case "dbmate":
			out[v+"_"+name+".sql"] = "-- migrate:up\n" + up + "\n-- migrate:down\n" + down
		case "liquibase":
			out[v+"_"+name+".sql"] = "--liquibase formatted sql\n\n--changeset atlas:" + v + "-1\n" + up + "--rollback: " + down
		case "flyway":
			if c.Extra == "subdir_below_dotdir" && i == len(c.Versions)-1 {
				// Flyway scans sub-directories (hidden ones excepted).
				out["sub/V"+v+"__"+name+".sql"] = up
				continue
			}
			out["V"+v+"__"+name+".sql"] = up
		}
	}
	switch c.Extra {
	case "repeatable":
		out["R__views.sql"] = "CREATE VIEW v1 AS SELECT 1 AS one;\n"
	case "baseline":
		out["B"+c.Versions[0]+"__base.sql"] = "CREATE TABLE base (id integer);\n"
	case "undo":
		out["U"+c.Versions[0]+"__step1.sql"] = "DROP TABLE t1;\n"
	}
	return out
}

func evalImport(c ImportCase) (problems []string) {
	bad := func(f string, a ...any) { problems = append(problems, fmt.Sprintf(f, a...)) }
	wk, err := clih.NewWork()
	if err != nil {
		return []string{"harness: " + err.Error()}
	}
	defer wk.Close()
	src := wk.Path("src")
	if c.Extra == "subdir_below_dotdir" {
		// the directory itself lives below a hidden directory (e.g. ~/.cache/...): that must not matter.
		src = wk.Path(".cache", "src")
	}
	for n, body := range importFiles(c) {
		os.MkdirAll(filepath.Dir(filepath.Join(src, n)), 0o755)
		os.WriteFile(filepath.Join(src, n), []byte(body), 0o644)
	}
	res := wk.Run(nil, "migrate", "import", "--from", "file://"+src+"?format="+c.Format, "--to", "file://"+wk.Path("dst"))
	if res.Exit != 0 {
		bad("`migrate import` failed: %s", res)
		return
	}
	dst := Snap{}
	for n, b := range wk.ReadDir("dst") {
		dst[n] = b
	}
	if len(sqlNames(dst)) == 0 {
		bad("`migrate import` exited 0 and wrote no migration file")
		return
	}
	// nothing is left out: every step's statement arrives exactly once (a flyway baseline replaces
	// the versioned files up to its own version, which here is the first one).
	all := ""
	for _, n := range sqlNames(dst) {
		all += dst[n]
	}
	for i := range c.Versions {
		want := 1
		if c.Extra == "baseline" && i == 0 {
			want = 0
		}
		if got := strings.Count(all, fmt.Sprintf("CREATE TABLE t%d ", i+1)); got != want {
			bad("the statement of step %d (version %s) occurs %d time(s) in the imported directory %v, want %d", i+1, c.Versions[i], got, sqlNames(dst), want)
		}
	}
	v := wk.Run(nil, "migrate", "validate", "--dir", "file://"+wk.Path("dst"))
	var libErr error
	if ld, err := migrate.NewLocalDir(wk.Path("dst")); err == nil {
		libErr = migrate.Validate(ld)
	}
	if v.Exit != 0 || libErr != nil {
		bad("the directory written by `migrate import` (%v) does not validate: CLI %s; library: %v", sqlNames(dst), v, libErr)
	}
	return
}

func importCases(tier string) []ImportCase {
	var cs []ImportCase
	vsets := [][]string{{"1", "2", "3"}, {"1", "2", "10"}, {"9", "10", "11"}, {"001", "002", "010"}}
	if tier == "thorough" {
		vsets = append(vsets, []string{"1"}, []string{"2", "10"}, []string{"1", "10", "100"}, []string{"20230101", "20230102"}, []string{"1.1", "1.2", "1.10"})
	}
	for _, f := range []string{"golang-migrate", "goose", "dbmate", "liquibase", "flyway"} {
		for _, vs := range vsets {
			if f != "flyway" && strings.Contains(vs[0], ".") {
				continue
			}
			cs = append(cs, ImportCase{Format: f, Versions: vs})
			if f == "flyway" {
				for _, x := range []string{"repeatable", "baseline", "undo", "subdir_below_dotdir"} {
					cs = append(cs, ImportCase{Format: f, Versions: vs, Extra: x})
				}
			}
		}
	}
	return cs
}

// RunImport drives `migrate import` over source directories of the five third-party formats.
func RunImport(r *report.Run) int {
	defer clih.Cleanup()
	cs := importCases(r.Tier)
	res := make([][]string, len(cs))
	enum.Parallel(len(cs), func(i, _ int) { res[i] = evalImport(cs[i]) })
	for i, c := range cs {
		r.Case(fmt.Sprintf("import|%+v", c), true)
		if len(res[i]) > 0 {
			r.Violate("", fmt.Sprintf("import %+v: %s", c, strings.Join(res[i], " | ")), map[string]any{"import_case": c})
		}
	}
	return len(cs)
}

// ---------- `migrate hash` / `migrate validate` with the directory and its format given through
// every channel the CLI has: the sum one command writes is the sum every other command expects ----------

type ViaCase struct {
	Format string `json:"format"`
	Hash   string `json:"hash_via"`     // how `migrate hash` learns directory and format
	Check  string `json:"validate_via"` // how `migrate validate` does
	Edit   bool   `json:"edit"`         // a migration file is edited after the hash
}

var viaChannels = []string{"url_param", "dir_format_flag", "project_file", "project_dir_flag_format"}

func viaFiles(format string) (files map[string]string, edited string) {
	body := func(i int) string { return fmt.Sprintf("CREATE TABLE t%d (id integer);\n", i) }
	files = map[string]string{}
	for i := 1; i <= 2; i++ {
		switch format {
		case "golang-migrate":
			files[fmt.Sprintf("%d_s.up.sql", i)] = body(i)
			files[fmt.Sprintf("%d_s.down.sql", i)] = fmt.Sprintf("DROP TABLE t%d;\n", i)
			edited = "2_s.up.sql"
		case "goose":
			files[fmt.Sprintf("%d_s.sql", i)] = "-- +goose Up\n" + body(i) + "\n-- +goose Down\n" + fmt.Sprintf("DROP TABLE t%d;\n", i)
			edited = "2_s.sql"
		case "dbmate":
			files[fmt.Sprintf("%d_s.sql", i)] = "-- migrate:up\n" + body(i) + "\n-- migrate:down\n" + fmt.Sprintf("DROP TABLE t%d;\n", i)
			edited = "2_s.sql"
		case "flyway":
			files[fmt.Sprintf("V%d__s.sql", i)] = body(i)
			files[fmt.Sprintf("U%d__s.sql", i)] = fmt.Sprintf("DROP TABLE t%d;\n", i)
			edited = "V2__s.sql"
		default: // atlas
			files[fmt.Sprintf("%d_s.sql", i)] = body(i)
			edited = "2_s.sql"
		}
	}
	return
}

func evalVia(c ViaCase) (problems []string) {
	bad := func(f string, a ...any) { problems = append(problems, fmt.Sprintf(f, a...)) }
	wk, err := clih.NewWork()
	if err != nil {
		return []string{"harness: " + err.Error()}
	}
	defer wk.Close()
	files, edited := viaFiles(c.Format)
	os.MkdirAll(wk.Path("mig"), 0o755)
	for n, b := range files {
		os.WriteFile(wk.Path("mig", n), []byte(b), 0o644)
	}
	dirURL := "file://" + wk.Path("mig")
	os.WriteFile(wk.Path("with_format.hcl"), []byte(fmt.Sprintf("env \"local\" {\n  migration {\n    dir = %q\n    format = %s\n  }\n}\n", dirURL, c.Format)), 0o644)
	os.WriteFile(wk.Path("dir_only.hcl"), []byte(fmt.Sprintf("env \"local\" {\n  migration {\n    dir = %q\n  }\n}\n", dirURL)), 0o644)
	args := func(cmd, via string) []string {
		switch via {
		case "url_param":
			return []string{"migrate", cmd, "--dir", dirURL + "?format=" + c.Format}
		case "dir_format_flag":
			return []string{"migrate", cmd, "--dir", dirURL, "--dir-format", c.Format}
		case "project_file":
			return []string{"migrate", cmd, "-c", "file://" + wk.Path("with_format.hcl"), "--env", "local"}
		default:
			return []string{"migrate", cmd, "-c", "file://" + wk.Path("dir_only.hcl"), "--env", "local", "--dir-format", c.Format}
		}
	}
	if h := wk.Run(nil, args("hash", c.Hash)...); h.Exit != 0 {
		bad("`migrate hash` (%s) failed: %s", c.Hash, h)
		return
	}
	if c.Edit {
		os.WriteFile(wk.Path("mig", edited), []byte(files[edited]+"-- edited\n"), 0o644)
	}
	v := wk.Run(nil, args("validate", c.Check)...)
	switch {
	case !c.Edit && v.Exit != 0:
		bad("`migrate hash` (%s) wrote the sum, nothing was edited, yet `migrate validate` (%s) fails: %s", c.Hash, c.Check, v)
	case c.Edit && v.Exit == 0:
		bad("file %s was edited after `migrate hash` (%s), yet `migrate validate` (%s) exits 0", edited, c.Hash, c.Check)
	}
	return
}

// RunVia: formats x hash channel x validate channel x {untouched, edited}.
func RunVia(r *report.Run) int {
	defer clih.Cleanup()
	var cs []ViaCase
	for _, f := range []string{"atlas", "golang-migrate", "goose", "dbmate", "flyway"} {
		for _, h := range viaChannels {
			for _, v := range viaChannels {
				for _, e := range []bool{false, true} {
					cs = append(cs, ViaCase{f, h, v, e})
				}
			}
		}
	}
	res := make([][]string, len(cs))
	enum.Parallel(len(cs), func(i, _ int) { res[i] = evalVia(cs[i]) })
	for i, c := range cs {
		r.Case(fmt.Sprintf("via|%+v", c), true)
		if len(res[i]) > 0 {
			r.Violate("", fmt.Sprintf("format %s, hash via %s, validate via %s, edited=%v: %s", c.Format, c.Hash, c.Check, c.Edit, strings.Join(res[i], " | ")), map[string]any{"via_case": c})
		}
	}
	return len(cs)
}
