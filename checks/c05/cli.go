package c05

import (
	"fmt"
	"os"
	"sort"
	"strings"

	"verif/checks/c01"
	"verif/clih"
	"verif/engine/enum"
	"verif/engine/report"
	"verif/universe/squ"
)

// ---------- CLI slice ----------
//
// The populated database goes through the real `atlas schema apply --auto-approve`, with the desired
// state given the ways a project keeps it: one HCL file, or a directory of HCL files (schema block
// and first table in one file, the other tables in another, a nested directory in between, which is
// documented not to be read). Whatever the plan does to t, the rows of the tables the change does not
// touch (p, u) must be byte-identical afterwards and every row of t must still be there.

type CLICase struct {
	A      []string `json:"a"`
	B      []string `json:"b"`
	Source string   `json:"source"` // hcl | hcldir | hcldir_schema_twice | hcl_new_t (a populated table named new_t in both states) | diff_exec (the SQL `schema diff` prints, executed as it stands)
}

func tableRows(w *clih.Work, tab string) ([]string, error) {
	rs, err := w.Query("a.sqlite", fmt.Sprintf("SELECT * FROM `%s` ORDER BY 1", tab))
	if err != nil {
		return nil, err
	}
	var out []string
	for _, r := range rs {
		out = append(out, strings.Join(r, "|"))
	}
	return out, nil
}

func evalCLI(c CLICase) (problems []string, skipped string) {
	bad := func(f string, a ...any) { problems = append(problems, fmt.Sprintf(f, a...)) }
	w, err := clih.NewWork()
	if err != nil {
		return []string{"harness: " + err.Error()}, ""
	}
	defer w.Close()
	A, B := stateOf(c.A).Build(), stateOf(c.B).Build()
	if err := w.Exec("a.sqlite", A.DDL(0)...); err != nil {
		return nil, "engine rejects A"
	}
	if err := w.Exec("b.sqlite", B.DDL(0)...); err != nil {
		return nil, "engine rejects B"
	}
	if err := w.Exec("a.sqlite", populateStmts(A, 1)...); err != nil {
		return nil, "data not admissible for A"
	}
	untouched := []string{"p", "u"}
	if c.Source == "hcl_new_t" {
		// a user table that carries the name the rebuild procedure gives its temporary copy: it is in both
		// states, unchanged; whether the apply then works or is refused, its rows stay.
		if err := w.Exec("a.sqlite", "CREATE TABLE `new_t` (`id` integer NOT NULL, `note` text NULL, PRIMARY KEY (`id`))",
			"INSERT INTO `new_t` (`id`, `note`) VALUES (1, 'keep me'), (2, NULL)"); err != nil {
			return []string{"harness: " + err.Error()}, ""
		}
		untouched = append(untouched, "new_t")
	}
	before := map[string][]string{}
	for _, tab := range untouched {
		if before[tab], err = tableRows(w, tab); err != nil {
			return []string{"harness: " + err.Error()}, ""
		}
	}
	ids, err := w.Query("a.sqlite", "SELECT id FROM t ORDER BY 1")
	if err != nil {
		return []string{"harness: " + err.Error()}, ""
	}
	to := "file://" + w.Path("b.hcl")
	bh := B.HCL()
	if c.Source == "hcl_new_t" {
		bh += "table \"new_t\" {\n  schema = schema.main\n  column \"id\" {\n    null = false\n    type = integer\n  }\n  column \"note\" {\n    null = true\n    type = text\n  }\n  primary_key {\n    columns = [column.id]\n  }\n}\n"
	}
	os.WriteFile(w.Path("b.hcl"), []byte(bh), 0o644)
	if c.Source == "hcldir" || c.Source == "hcldir_schema_twice" {
		if err := c01.WriteHCLDir(w.Path("bdir"), B.HCL()); err != nil {
			return []string{"harness: " + err.Error()}, ""
		}
		to = "file://" + w.Path("bdir")
		if c.Source == "hcldir_schema_twice" {
			// every file of the directory declares its schema (one file per table, each self-contained):
			// whether atlas takes or refuses such a directory, the rows stay.
			f, err := os.OpenFile(w.Path("bdir", "z_rest.hcl"), os.O_APPEND|os.O_CREATE|os.O_WRONLY, 0o644)
			if err != nil {
				return []string{"harness: " + err.Error()}, ""
			}
			f.WriteString("schema \"main\" {\n}\n")
			f.Close()
		}
	}
	var ap clih.Result
	if c.Source == "diff_exec" {
		// the plan as `schema diff` prints it, executed as it stands by our own connection.
		ap = w.Run(nil, "schema", "diff", "--from", w.URL("a.sqlite"), "--to", to, "--dev-url", "sqlite://dev?mode=memory")
		if ap.Exit == 0 && !strings.Contains(ap.Stdout, "Schemas are synced") {
			if err := w.Exec("a.sqlite", ap.Stdout); err != nil {
				ap.Exit = 1
			}
		}
	} else {
		ap = w.Run(nil, "schema", "apply", "--url", w.URL("a.sqlite"), "--to", to, "--auto-approve")
	}
	if ap.Exit != 0 {
		// whether the desired schema can hold the data is judged by the engine-level part; a failed
		// apply must leave the rows alone all the same.
		skipped = "apply failed"
	}
	for _, tab := range untouched {
		after, err := tableRows(w, tab)
		if err != nil {
			bad("table %s, which the change does not touch, cannot be read after `schema apply`: %v (plan: %s)", tab, err, ap.Stdout)
			continue
		}
		if strings.Join(after, "\n") != strings.Join(before[tab], "\n") {
			bad("rows of table %s, which the change does not touch, differ after `schema apply`: before %q after %q", tab, before[tab], after)
		}
	}
	ids2, err := w.Query("a.sqlite", "SELECT id FROM t ORDER BY 1")
	if err != nil {
		bad("table t cannot be read after `schema apply`: %v", err)
	} else if fmt.Sprint(ids2) != fmt.Sprint(ids) {
		bad("rows of t lost by the plan (source %s): ids before %v after %v", c.Source, ids, ids2)
	}
	if len(problems) > 0 {
		skipped = ""
	}
	return
}

func cliCases(tier string) []CLICase {
	u1 := squ.Universe(1)
	var cs []CLICase
	for i, s := range u1 {
		for _, src := range []string{"hcl", "hcldir", "hcldir_schema_twice", "diff_exec", "hcl_new_t"} {
			cs = append(cs, CLICase{nil, s.Names(), src}, CLICase{s.Names(), nil, src})
			if tier == "thorough" && i+1 < len(u1) {
				cs = append(cs, CLICase{s.Names(), u1[i+1].Names(), src}, CLICase{u1[i+1].Names(), s.Names(), src})
			}
		}
	}
	sort.Slice(cs, func(i, j int) bool { return fmt.Sprint(cs[i]) < fmt.Sprint(cs[j]) })
	return cs
}

func runCLI(r *report.Run) {
	defer clih.Cleanup()
	cs := cliCases(r.Tier)
	type out struct {
		p []string
		s string
	}
	res := make([]out, len(cs))
	enum.Parallel(len(cs), func(i, _ int) {
		p, s := evalCLI(cs[i])
		res[i] = out{p, s}
	})
	n, failed := 0, 0
	for i, c := range cs {
		if res[i].s == "apply failed" {
			failed++
		} else if res[i].s != "" {
			continue
		}
		n++
		r.CaseDistinct(true)
		if len(res[i].p) > 0 {
			r.Violate("", fmt.Sprintf("CLI A=%v B=%v source=%s: %s", c.A, c.B, c.Source, strings.Join(res[i].p, " | ")), map[string]any{"cli": c})
		}
	}
	r.Set("cli_cases", n)
	r.Set("cli_cases_where_apply_failed", failed)
}
