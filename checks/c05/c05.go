// Package c05: planned table changes never lose rows or values of surviving columns (SQLite).
package c05

import (
	"context"
	"encoding/json"
	"fmt"
	"strings"
	"sync"

	"ariga.io/atlas/sql/migrate"
	"ariga.io/atlas/sql/schema"
	"ariga.io/atlas/sql/sqlite"

	"verif/clih"
	"verif/engine/enum"
	"verif/engine/report"
	"verif/sqliteh"
	"verif/universe/squ"
)

type Case struct {
	A       []string `json:"a"`
	B       []string `json:"b"`
	Variant int      `json:"variant"` // 0: third row holds NULLs where allowed; 1: no NULLs at all
	// NoTx: the changes are applied outside a transaction (what `--tx-mode none` does); foreign-key
	// enforcement then stays on unless the plan itself switches it off around a table rebuild.
	NoTx bool `json:"no_tx,omitempty"`
	// Exported: the desired HCL is atlas's own export of B (inspect a database created with B's DDL,
	// MarshalHCL) instead of the HCL of our writer.
	Exported bool `json:"exported,omitempty"`
}

func stateOf(names []string) squ.State {
	var s squ.State
	for _, n := range names {
		for i, f := range squ.Features {
			if f.Name == n {
				s = append(s, i)
			}
		}
	}
	return s
}

var indent = func(o *migrate.PlanOptions) { o.Indent = "  " }

// populate inserts 3 rows per table that satisfy every constraint any state can carry.
// populateStmts returns the statements that fill the skeleton tables of A.
func populateStmts(A *squ.DB, variant int) []string {
	stmts := []string{"PRAGMA foreign_keys = off",
		"INSERT INTO p (id, k) VALUES (1, 1), (2, 2), (3, 3)",
		"INSERT INTO u (id, v, t_id) VALUES (1, 'u1', 1), (2, NULL, 2), (3, 'u''3', NULL)",
	}
	t := A.Table("t")
	for row := 1; row <= 3; row++ {
		var cols, vals []string
		for _, c := range t.Cols {
			if c.Gen != "" {
				continue
			}
			null := variant == 0 && row == 3 && !c.NotNull && !c.AutoInc
			for _, pk := range t.PK {
				if pk == c.Name && (t.WithoutRowID || t.Strict) {
					null = false
				}
			}
			v := "NULL"
			if !null {
				switch c.Name {
				case "id":
					v = fmt.Sprint(row)
				case "a":
					v = fmt.Sprint(row)
					if strings.EqualFold(c.Type, "text") {
						v = fmt.Sprintf("'%d'", row)
					}
				case "b":
					v = fmt.Sprintf("'x%d'", row)
				case "c":
					v = fmt.Sprint(row * 10)
				case "d":
					v = fmt.Sprintf("'d%d'", row)
				case "e":
					v = fmt.Sprintf("%d.25", row)
				case "f":
					v = fmt.Sprint(6 + row)
				case "g":
					v = fmt.Sprintf("'2020-01-0%d 00:00:00'", row)
				}
			}
			cols = append(cols, "`"+c.Name+"`")
			vals = append(vals, v)
		}
		stmts = append(stmts, fmt.Sprintf("INSERT INTO t (%s) VALUES (%s)", strings.Join(cols, ", "), strings.Join(vals, ", ")))
	}
	return append(stmts, "PRAGMA foreign_keys = on")
}

func populate(ctx context.Context, e *sqliteh.Engine, A *squ.DB, variant int) error {
	if err := e.Exec(ctx, populateStmts(A, variant)...); err != nil {
		return err
	}
	// the data must be consistent under the constraints of A.
	rows, err := sqliteh.Query(ctx, e.Own, "PRAGMA foreign_key_check")
	if err != nil {
		return err
	}
	if len(rows) > 0 {
		return fmt.Errorf("populated data violates foreign keys of A: %v", rows)
	}
	return nil
}

type snapshot struct {
	cols  map[string][]string                     // table -> column names
	types map[string]map[string]string            // table -> column -> declared type
	rows  map[string]map[string]map[string]string // table -> id -> column -> quote(value)
}

func snap(ctx context.Context, e *sqliteh.Engine) (*snapshot, error) {
	s := &snapshot{cols: map[string][]string{}, types: map[string]map[string]string{}, rows: map[string]map[string]map[string]string{}}
	for _, tab := range []string{"p", "t", "u"} {
		names, types, _, err := sqliteh.Columns(ctx, e.Own, tab)
		if err != nil {
			return nil, err
		}
		s.cols[tab] = names
		s.types[tab] = map[string]string{}
		var q []string
		for i, n := range names {
			s.types[tab][n] = types[i]
			q = append(q, fmt.Sprintf("quote(`%s`)", n))
		}
		rs, err := sqliteh.Query(ctx, e.Own, fmt.Sprintf("SELECT quote(id), %s FROM `%s`", strings.Join(q, ", "), tab))
		if err != nil {
			return nil, err
		}
		s.rows[tab] = map[string]map[string]string{}
		for _, r := range rs {
			m := map[string]string{}
			for i, n := range names {
				m[n] = r[i+1]
			}
			if _, dup := s.rows[tab][r[0]]; dup {
				return nil, fmt.Errorf("duplicate id %s in %s", r[0], tab)
			}
			s.rows[tab][r[0]] = m
		}
	}
	return s, nil
}

type Result struct {
	Problems []string
	Skipped  string
	Expected string // expected failure (desired schema unsatisfiable by the data)
	Stmts    []string
	Rebuild  bool
	NonEmpty bool
	Compared int
}

func Eval(ctx context.Context, c Case) (res Result) {
	bad := func(f string, a ...any) { res.Problems = append(res.Problems, fmt.Sprintf(f, a...)) }
	A, B := stateOf(c.A).Build(), stateOf(c.B).Build()
	e, err := sqliteh.Open(ctx)
	if err != nil {
		bad("harness: %v", err)
		return
	}
	defer e.Close()
	if err := e.Exec(ctx, A.DDL(0)...); err != nil {
		res.Skipped = "engine rejects A: " + err.Error()
		return
	}
	ref, err := sqliteh.Open(ctx)
	if err != nil {
		bad("harness: %v", err)
		return
	}
	if err := ref.Exec(ctx, B.DDL(0)...); err != nil {
		ref.Close()
		res.Skipped = "engine rejects B: " + err.Error()
		return
	}
	ref.Close()
	if err := populate(ctx, e, A, c.Variant); err != nil {
		res.Skipped = "data not admissible for A: " + err.Error()
		return
	}
	before, err := snap(ctx, e)
	if err != nil {
		bad("harness: %v", err)
		return
	}
	defer func() {
		if p := recover(); p != nil {
			bad("panic: %v", p)
		}
	}()
	// which desired columns cannot hold the data?
	tb, ta := B.Table("t"), A.Table("t")
	var unsat []string
	for _, col := range tb.Cols {
		if !col.NotNull || col.Default != "" || col.Gen != "" || col.AutoInc {
			continue
		}
		old := ta.Col(col.Name)
		if old == nil {
			unsat = append(unsat, col.Name+" (new NOT NULL column without default)")
			continue
		}
		for _, r := range before.rows["t"] {
			if r[col.Name] == "NULL" {
				unsat = append(unsat, col.Name+" (NOT NULL without default over a NULL)")
				break
			}
		}
	}
	// a new column with a default gives every row the same value: a unique index on it cannot hold 3 rows.
	for _, col := range tb.Cols {
		if ta.Col(col.Name) != nil || col.Default == "" {
			continue
		}
		for _, ix := range tb.Idx {
			if ix.Unique && len(ix.Parts) == 1 && ix.Parts[0].Col == col.Name {
				unsat = append(unsat, col.Name+" (new column with a default under a unique index)")
			}
		}
	}
	// a NULL back-filled by a NOT NULL DEFAULT may violate a foreign key of the desired schema.
	for _, col := range tb.Cols {
		old := ta.Col(col.Name)
		if !col.NotNull || col.Default == "" || old == nil {
			continue
		}
		hadNull := false
		for _, r := range before.rows["t"] {
			hadNull = hadNull || r[col.Name] == "NULL"
		}
		for _, fk := range tb.FKs {
			for _, fc := range fk.Cols {
				if fc == col.Name && hadNull {
					unsat = append(unsat, col.Name+" (NULL back-filled by a default that has no parent row)")
				}
			}
		}
	}
	cur, err := e.Atlas.InspectRealm(ctx, nil)
	if err != nil {
		bad("inspect: %v", err)
		return
	}
	desired := &schema.Realm{}
	hclB := B.HCL()
	if c.Exported {
		ref, err := sqliteh.Open(ctx)
		if err != nil {
			bad("harness: %v", err)
			return
		}
		defer ref.Close()
		if err := ref.Exec(ctx, B.DDL(0)...); err != nil {
			res.Skipped = "engine rejects B"
			return
		}
		br, err := ref.Atlas.InspectRealm(ctx, nil)
		if err != nil {
			bad("inspect B: %v", err)
			return
		}
		b, err := sqlite.MarshalHCL.MarshalSpec(br)
		if err != nil {
			bad("export of B: %v", err)
			return
		}
		hclB = string(b)
	}
	if err := sqlite.EvalHCLBytes([]byte(hclB), desired, nil); err != nil {
		bad("harness: desired HCL rejected: %v", err)
		return
	}
	changes, err := e.Atlas.RealmDiff(cur, desired, schema.DiffNormalized())
	if err != nil {
		bad("diff: %v", err)
		return
	}
	res.NonEmpty = len(changes) > 0
	if len(changes) > 0 {
		if plan, perr := e.Atlas.PlanChanges(ctx, "plan", changes, indent); perr == nil {
			for _, ch := range plan.Changes {
				res.Stmts = append(res.Stmts, ch.Cmd)
				if strings.Contains(ch.Cmd, "`new_") {
					res.Rebuild = true
				}
			}
		}
		if c.NoTx {
			if err := e.Atlas.ApplyChanges(ctx, changes, indent); err != nil {
				if len(unsat) > 0 {
					res.Expected = fmt.Sprintf("%v: %v", unsat, err)
					return
				}
				bad("the plan fails (outside a transaction) on data the desired schema admits: %v\n  plan: %s", err, strings.Join(res.Stmts, ";\n        "))
				return
			}
		} else {
			tx, err := e.Atlas.Tx(ctx, nil)
			if err != nil {
				bad("harness: begin: %v", err)
				return
			}
			if err := tx.ApplyChanges(ctx, changes, indent); err != nil {
				tx.Rollback()
				if len(unsat) > 0 {
					res.Expected = fmt.Sprintf("%v: %v", unsat, err)
					return
				}
				bad("the plan fails on data the desired schema admits: %v\n  plan: %s", err, strings.Join(res.Stmts, ";\n        "))
				return
			}
			if err := tx.Commit(); err != nil {
				if len(unsat) > 0 {
					res.Expected = fmt.Sprintf("%v: %v", unsat, err)
					return
				}
				bad("commit fails on data the desired schema admits: %v", err)
				return
			}
		}
	}
	after, err := snap(ctx, e)
	if err != nil {
		bad("harness: snapshot after: %v", err)
		return
	}
	// untouched tables: byte-identical rows.
	for _, tab := range []string{"p", "u"} {
		if fmt.Sprint(before.rows[tab]) != fmt.Sprint(after.rows[tab]) {
			bad("rows of table %s changed: before %v after %v", tab, before.rows[tab], after.rows[tab])
		}
	}
	if len(after.rows["t"]) != len(before.rows["t"]) {
		bad("table t had %d rows, now %d", len(before.rows["t"]), len(after.rows["t"]))
	}
	for id, old := range before.rows["t"] {
		now, ok := after.rows["t"][id]
		if !ok {
			bad("row id=%s of t is gone", id)
			continue
		}
		for _, col := range tb.Cols {
			oc := ta.Col(col.Name)
			if oc == nil || col.Gen != "" || oc.Gen != "" {
				continue
			}
			if !strings.EqualFold(oc.Type, col.Type) {
				continue // type changed: value conversion is the engine's business
			}
			want := old[col.Name]
			if want == "NULL" && col.NotNull && col.Default != "" {
				want = col.Default // NULL back-filled by the declared default
			}
			res.Compared++
			if now[col.Name] != want {
				bad("t.id=%s column %s: was %s, now %s (expected %s)", id, col.Name, old[col.Name], now[col.Name], want)
			}
		}
	}
	return
}

func pairs(tier string) []Case {
	var cs []Case
	keepsT := func(squ.State) bool { return true } // every state keeps table t
	u1 := squ.Universe(1)
	add := func(a, b squ.State) {
		if !keepsT(b) {
			return
		}
		for v := 0; v < 2; v++ {
			cs = append(cs, Case{a.Names(), b.Names(), v, false, false})
		}
		cs = append(cs, Case{a.Names(), b.Names(), 1, true, false}, Case{a.Names(), b.Names(), 0, false, true})
	}
	for _, a := range u1 {
		for _, b := range u1 {
			add(a, b)
		}
	}
	u2 := squ.Universe(2)
	if tier == "thorough" {
		for _, a := range u2 {
			for _, b := range u2 {
				if len(a) <= 1 && len(b) <= 1 {
					continue
				}
				cs = append(cs, Case{a.Names(), b.Names(), (len(a)*3 + len(b)) % 2, (len(a)+len(b))%2 == 0, (len(a)+2*len(b))%3 == 0})
			}
		}
		return cs
	}
	for _, s := range u2 {
		if len(s) != 2 {
			continue
		}
		for i := 0; i < 2; i++ {
			sub := squ.State{s[i]}
			cs = append(cs, Case{s.Names(), sub.Names(), 0, false, false}, Case{sub.Names(), s.Names(), 0, true, false})
		}
		// and against the bare skeleton: plans that change two things at once.
		cs = append(cs, Case{nil, s.Names(), 1, true, true}, Case{s.Names(), nil, 1, false, false})
	}
	return cs
}

func Run(r *report.Run) {
	ctx := context.Background()
	r.Rule = "pairs (A,B) of the SQLite schema universe (quick: all pairs of <=1-feature states plus each 2-feature state against its 1-feature sub-states and against the bare skeleton; thorough: all pairs of <=2-feature states), A created by our DDL and populated with 3 rows per table (2 data variants: third row holds NULL wherever A allows / no NULLs), then the `schema apply` flow towards B (given as HCL of our writer, or as atlas's own export of a database built with B's DDL), inside a transaction and (one data variant) outside one, as --tx-mode none does; the bystander table u holds child rows of t (ON DELETE CASCADE); rows read before/after by our own connection with quote(); CLI slice: the populated database file goes through the real `atlas schema apply --auto-approve` with the desired state as one HCL file and as a directory of HCL files (with a nested directory, which is not read), with a populated user table named new_t (the name the rebuild procedure gives its temporary copy) in both states, and through the SQL that the real `atlas schema diff` prints, executed as it stands by our own connection, for every 1-feature state against the skeleton in both directions (thorough: also against its catalogue neighbour): the rows of the untouched tables p and u must be byte-identical and no row of t may be lost; non-trivial = pair with a non-empty plan that was applied; distinct = (A,B,variant)"
	r.Assumptions = []string{
		"a plan may fail only if the desired schema cannot hold the data (NOT NULL without default over a NULL or as a new column); such expected failures are counted separately",
		"a value is compared when the column exists before and after with the same declared type and is not generated; NULL under a new NOT NULL DEFAULT x is expected to become x",
	}
	cs := pairs(r.Tier)
	var mu sync.Mutex
	skipped, expected, rebuild, alter, compared := 0, 0, 0, 0, 0
	err := enum.ProcMap(len(cs), func(i int) Result { return Eval(ctx, cs[i]) }, func(i int, res Result) {
		c := cs[i]
		r.Case(fmt.Sprintf("%v|%v|%d|%v|%v", c.A, c.B, c.Variant, c.NoTx, c.Exported), res.NonEmpty && res.Skipped == "" && res.Expected == "")
		mu.Lock()
		if res.Skipped != "" {
			skipped++
		}
		if res.Expected != "" {
			expected++
		}
		if res.NonEmpty && res.Expected == "" {
			if res.Rebuild {
				rebuild++
			} else {
				alter++
			}
		}
		compared += res.Compared
		mu.Unlock()
		if len(res.Problems) > 0 {
			r.Violate("", fmt.Sprintf("A=%v B=%v variant=%d: %s", c.A, c.B, c.Variant, strings.Join(res.Problems, " | ")), c)
		}
		if res.Rebuild && len(c.A) == 0 && len(c.B) == 1 && c.B[0] == "b_notnull_default" {
			r.Sample(map[string]any{"case": c, "plan": res.Stmts})
		}
	})
	if err != nil {
		r.Violate("", "harness: "+err.Error(), nil)
	}
	r.Set("pairs_skipped", skipped)
	r.Set("expected_failures_unsatisfiable_by_data", expected)
	r.Set("applied_via_rebuild", rebuild)
	r.Set("applied_via_alter", alter)
	r.Set("cell_values_compared", compared)
	runCLI(r)
}

func Replay(r *report.Run, raw json.RawMessage) {
	var cv struct {
		Case struct {
			C *CLICase `json:"cli"`
		}
	}
	if json.Unmarshal(raw, &cv) == nil && cv.Case.C != nil {
		defer clih.Cleanup()
		r.Case("a", true)
		r.Case("b", true)
		if p, _ := evalCLI(*cv.Case.C); len(p) > 0 {
			r.Violate("", strings.Join(p, " | "), map[string]any{"cli": cv.Case.C})
		}
		return
	}
	var v struct{ Case Case }
	if err := json.Unmarshal(raw, &v); err != nil {
		r.Violate("", "bad replay file: "+err.Error(), nil)
		return
	}
	res := Eval(context.Background(), v.Case)
	fmt.Printf("  A=%v\n  B=%v\n  skipped=%q expected=%q\n", v.Case.A, v.Case.B, res.Skipped, res.Expected)
	for _, s := range res.Stmts {
		fmt.Println("   ", strings.ReplaceAll(s, "\n", "\n    "))
	}
	r.Case("a", true)
	r.Case("b", true)
	if len(res.Problems) > 0 {
		r.Violate("", strings.Join(res.Problems, " | "), v.Case)
	}
}
