// Package c02: diff is exact - every difference is reported once, and nothing else.
package c02

import (
	"encoding/json"
	"fmt"
	"reflect"
	"sort"
	"strings"

	"ariga.io/atlas/sql/schema"

	"verif/engine/report"
	"verif/universe/dfu"
)

type Case struct {
	Dialect string   `json:"dialect"`
	Kind    string   `json:"kind"` // identity | edit | pair | equivalence | realm
	Edits   []string `json:"edits,omitempty"`
	Permute int      `json:"permute"` // -1 none; desired side 0 reversed, 1 rotated; current side 2 reversed, 3 rotated
}

func dialect(n string) *dfu.Dialect {
	for _, d := range dfu.Dialects {
		if d.Name == n {
			return d
		}
	}
	return nil
}

func findEdit(d *dfu.Dialect, n string) (dfu.Edit, bool) {
	for _, e := range append(dfu.Edits(d), dfu.Equivalences(d)...) {
		if e.Name == n {
			return e, true
		}
	}
	return dfu.Edit{}, false
}

func diffAll(d *dfu.Dialect, from, to *schema.Schema) (flat []string, problems []string) {
	defer func() {
		if p := recover(); p != nil {
			problems = append(problems, fmt.Sprintf("differ panicked: %v", p))
		}
	}()
	cs, err := d.Diff.SchemaDiff(from, to, schema.DiffNormalized())
	if err != nil {
		return []string{"ERROR"}, nil
	}
	flat = dfu.Flatten(cs)
	// a second diff of the same (possibly normalised in place) inputs must agree.
	cs2, err := d.Diff.SchemaDiff(from, to, schema.DiffNormalized())
	if err != nil {
		problems = append(problems, fmt.Sprintf("second SchemaDiff of the same inputs fails: %v", err))
	} else if f2 := dfu.Flatten(cs2); !reflect.DeepEqual(f2, flat) {
		problems = append(problems, fmt.Sprintf("SchemaDiff is not repeatable on the same inputs: first %v, then %v", flat, f2))
	}
	// RealmDiff over the enclosing realms reports the same changes.
	if from.Realm != nil && to.Realm != nil {
		rs, err := d.Diff.RealmDiff(from.Realm, to.Realm, schema.DiffNormalized())
		if err != nil {
			problems = append(problems, fmt.Sprintf("RealmDiff fails where SchemaDiff succeeds: %v", err))
		} else if f := dfu.Flatten(rs); !reflect.DeepEqual(f, flat) {
			problems = append(problems, fmt.Sprintf("RealmDiff %v disagrees with SchemaDiff %v", f, flat))
		}
	}
	// TableDiff per table reports exactly the ModifyTable part.
	for _, t1 := range from.Tables {
		t2, ok := to.Table(t1.Name)
		if !ok {
			continue
		}
		ts, err := d.Diff.TableDiff(t1, t2, schema.DiffNormalized())
		if err != nil {
			problems = append(problems, fmt.Sprintf("TableDiff(%s) fails: %v", t1.Name, err))
			continue
		}
		var want []string
		pre := "ModifyTable(" + t1.Name + ")/"
		for _, f := range flat {
			if strings.HasPrefix(f, pre) {
				want = append(want, strings.TrimPrefix(f, pre))
			}
		}
		got := dfu.Flatten(ts)
		if !reflect.DeepEqual(got, want) && !(len(got) == 0 && len(want) == 0) {
			problems = append(problems, fmt.Sprintf("TableDiff(%s) %v disagrees with SchemaDiff %v", t1.Name, got, want))
		}
	}
	return flat, problems
}

// Eval builds the two graphs independently, applies the edits and compares.
func Eval(c Case) (problems []string, got, want []string) {
	problems, got, want, _ = eval(c)
	return
}

func eval(c Case) (problems []string, got, want []string, key string) {
	d := dialect(c.Dialect)
	from, to := dfu.Base(d), dfu.Base(d)
	for _, n := range c.Edits {
		e, ok := findEdit(d, n)
		if !ok {
			return []string{"harness: unknown edit " + n}, nil, nil, ""
		}
		e.Apply(to)
		want = append(want, e.Expect...)
	}
	if c.Kind == "detached" {
		// two tables that are attached to no schema (built by a program), one column apart.
		mk := func(extra bool) *schema.Table {
			t := schema.NewTable("t").AddColumns(&schema.Column{Name: "id", Type: &schema.ColumnType{Type: d.Int()}})
			if extra {
				t.AddColumns(&schema.Column{Name: "z", Type: &schema.ColumnType{Type: d.Int(), Null: true}})
			}
			return t
		}
		want = []string{"AddColumn(z)"}
		if c.Permute == 1 {
			want = nil
		}
		func() {
			defer func() {
				if p := recover(); p != nil {
					problems = append(problems, fmt.Sprintf("TableDiff of two tables without a schema panics: %v", p))
				}
			}()
			cs, err := d.Diff.TableDiff(mk(false), mk(c.Permute != 1), schema.DiffNormalized())
			if err != nil {
				problems = append(problems, "TableDiff of two tables without a schema: "+err.Error())
				return
			}
			got = dfu.Flatten(cs)
			if !reflect.DeepEqual(got, want) && !(len(got) == 0 && len(want) == 0) {
				problems = append(problems, fmt.Sprintf("tables without a schema: got %v, want %v", got, want))
			}
		}()
		return
	}
	if c.Kind == "realm" {
		// a second schema with one table appears / disappears.
		extra := schema.New("s2")
		x := schema.NewTable("x")
		xc := &schema.Column{Name: "id", Type: &schema.ColumnType{Type: d.Int()}}
		x.AddColumns(xc)
		extra.AddTables(x)
		if c.Permute == 0 {
			to.Realm.AddSchemas(extra)
			want = []string{"AddSchema(s2)", "AddTable(x)"}
		} else {
			from.Realm.AddSchemas(extra)
			want = []string{"DropSchema(s2)"}
		}
		cs, err := d.Diff.RealmDiff(from.Realm, to.Realm, schema.DiffNormalized())
		if err != nil {
			return []string{"RealmDiff: " + err.Error()}, nil, want, ""
		}
		got = dfu.Flatten(cs)
		if !reflect.DeepEqual(got, want) {
			problems = append(problems, fmt.Sprintf("got %v, want %v", got, want))
		}
		return
	}
	switch {
	case c.Permute >= 2: // the current side is listed in another order
		dfu.Permute(from, c.Permute-2)
	case c.Permute >= 0:
		dfu.Permute(to, c.Permute)
	}
	// merge: descriptors are a multiset; an "ERROR" expectation dominates.
	sort.Strings(want)
	for _, w := range want {
		if w == "ERROR" {
			want = []string{"ERROR"}
		}
	}
	got, problems = diffAll(d, from, to)
	if !reflect.DeepEqual(got, want) && !(len(got) == 0 && len(want) == 0) {
		missing, extra := minus(want, got), minus(got, want)
		if len(problems) == 0 {
			key = classifyDiff(c, missing, extra)
		}
		problems = append(problems, fmt.Sprintf("change set differs from the edits made: missing %v, unexpected %v", missing, extra))
	}
	if c.Kind == "identity" && len(c.Edits) == 0 {
		// the very same object against itself.
		if cs, err := d.Diff.SchemaDiff(from, from, schema.DiffNormalized()); err != nil || len(cs) > 0 {
			problems = append(problems, fmt.Sprintf("diff of a schema with itself: %v %v", dfu.Flatten(cs), err))
		}
	}
	return
}

func minus(a, b []string) []string {
	m := map[string]int{}
	for _, x := range b {
		m[x]++
	}
	var out []string
	for _, x := range a {
		if m[x] > 0 {
			m[x]--
		} else {
			out = append(out, x)
		}
	}
	return out
}

func cases(tier string) []Case {
	var cs []Case
	for _, d := range dfu.Dialects {
		for p := -1; p <= 3; p++ {
			cs = append(cs, Case{d.Name, "identity", nil, p})
		}
		cs = append(cs, Case{d.Name, "realm", nil, 0}, Case{d.Name, "realm", nil, 1})
		cs = append(cs, Case{d.Name, "detached", nil, 0}, Case{d.Name, "detached", nil, 1})
		es := dfu.Edits(d)
		for _, e := range es {
			for p := -1; p <= 3; p++ {
				cs = append(cs, Case{d.Name, "edit", []string{e.Name}, p})
			}
		}
		for _, e := range dfu.Equivalences(d) {
			cs = append(cs, Case{d.Name, "equivalence", []string{e.Name}, -1})
		}
		// pairs of compatible edits (quick: unpermuted; thorough: also permuted and triples over a sub-catalogue).
		for i := range es {
			for j := i + 1; j < len(es); j++ {
				if !dfu.Compatible(es[i], es[j]) {
					continue
				}
				cs = append(cs, Case{d.Name, "pair", []string{es[i].Name, es[j].Name}, -1})
				if tier == "thorough" {
					cs = append(cs, Case{d.Name, "pair", []string{es[i].Name, es[j].Name}, 0})
					cs = append(cs, Case{d.Name, "pair", []string{es[j].Name, es[i].Name}, 1})
				}
			}
		}
		if tier == "thorough" {
			for i := range es {
				for j := i + 1; j < len(es); j++ {
					for k := j + 1; k < len(es); k++ {
						if dfu.Compatible(es[i], es[j]) && dfu.Compatible(es[i], es[k]) && dfu.Compatible(es[j], es[k]) {
							cs = append(cs, Case{d.Name, "triple", []string{es[i].Name, es[j].Name, es[k].Name}, -1})
						}
					}
				}
			}
		}
	}
	return cs
}

func Run(r *report.Run) {
	r.Rule = "per dialect (MySQL, PostgreSQL, SQLite differs, DiffNormalized mode - the CLI's): base schema built twice by plain constructors; every elementary edit of the catalogue alone (x 5 listing orders: none, desired side reversed/rotated, current side reversed/rotated - tables, indexes, index parts, foreign keys, attributes), every compatible pair (thorough: also permuted, and every compatible triple), documented equivalences (expect no change), identity (same object, rebuilt copy, permuted copy), schema add/drop at realm level, TableDiff of two tables attached to no schema; the flattened change tree of SchemaDiff must equal the multiset of expected descriptors (path, change type, kind bits), RealmDiff and TableDiff must agree with it and a repeated diff of the same inputs must give the same result; non-trivial = case with >=1 edit; distinct = (dialect, edits, order)"
	r.Assumptions = []string{
		"expected descriptors are written from the definition of each edit; catalogue edits use unambiguous values, documented spelling equivalences (RESTRICT/NO ACTION/omitted, BTREE default, affinity classes, wrapped check expressions, identity defaults) form a separate stratum expecting no change",
		"connection-less DefaultDiffs (MySQL pinned at 8.0.31 by the driver): edits needing a server lookup are given both charset and collation",
	}
	cs := cases(r.Tier)
	per := map[string]int{}
	for _, c := range cs {
		problems, got, want := Eval(c)
		key := fmt.Sprintf("%s|%s|%v|%d", c.Dialect, c.Kind, c.Edits, c.Permute)
		r.Case(key, len(c.Edits) > 0)
		per[c.Dialect+":"+c.Kind]++
		if len(problems) > 0 {
			p2, _, _ := Eval(c)
			if strings.Join(p2, "|") != strings.Join(problems, "|") {
				r.Violate("", "NONDETERMINISTIC: "+key, c)
				continue
			}
			r.Violate(classify(c), fmt.Sprintf("%s %s %v order=%d: %s", c.Dialect, c.Kind, c.Edits, c.Permute, strings.Join(problems, " | ")), c)
		}
		if c.Kind == "pair" && c.Dialect == "postgres" && len(got) == 2 && per[c.Dialect+":"+c.Kind] < 40 {
			r.Sample(map[string]any{"case": c, "changes": got, "expected": want})
		}
	}
	r.Set("cases_by_dialect_and_kind", per)
}

func classify(c Case) string {
	_, _, _, key := eval(c)
	return key
}

// classifyDiff recognises listed findings by a predicate on the case and on what exactly is missing.
func classifyDiff(c Case, missing, extra []string) string {
	has := func(n string) bool {
		for _, e := range c.Edits {
			if e == n {
				return true
			}
		}
		return false
	}
	if c.Dialect == "mysql" && len(extra) == 0 && len(missing) == 1 {
		switch {
		case has("col_auto_increment_dropped") && missing[0] == "ModifyTable(t)/ModifyColumn(id)[attr]":
			return "mysql-column-auto-increment-toggle-not-diffed"
		case has("col_on_update_dropped") && missing[0] == "ModifyTable(t)/ModifyColumn(ts)[attr]":
			return "mysql-column-on-update-toggle-not-diffed"
		}
	}
	return ""
}

func Replay(r *report.Run, raw json.RawMessage) {
	var v struct{ Case Case }
	if err := json.Unmarshal(raw, &v); err != nil {
		r.Violate("", "bad replay file: "+err.Error(), nil)
		return
	}
	problems, got, want := Eval(v.Case)
	fmt.Printf("  case %+v\n  got  %v\n  want %v\n", v.Case, got, want)
	r.Case("a", true)
	r.Case("b", true)
	if len(problems) > 0 {
		r.Violate(classify(v.Case), strings.Join(problems, " | "), v.Case)
	}
}
