// Package c19: excluded resources and skipped change kinds never reach a plan.
package c19

import (
	"context"
	"encoding/json"
	"fmt"
	"path"
	"reflect"
	"regexp"
	"sort"
	"strings"
	"verif/clih"

	"ariga.io/atlas/sql/schema"

	"verif/engine/enum"
	"verif/engine/report"
	"verif/sqliteh"
	"verif/universe/dfu"
)

// ---------- (a) exclude ----------

// the inspected SQLite database: names collide on purpose (c1 is a column of several tables and
// the prefix of an index name, users/t1 share column names, ...).
var ddl = []string{
	"CREATE TABLE users (id integer NOT NULL PRIMARY KEY, name text, c1 integer, CONSTRAINT ck_name CHECK (name <> ''))",
	"CREATE INDEX idx_name ON users (name)",
	"CREATE INDEX c1_idx ON users (c1)",
	"CREATE TABLE t1 (id integer NOT NULL PRIMARY KEY, c1 integer, c2 integer, fk_col integer, CONSTRAINT fk_t1 FOREIGN KEY (fk_col) REFERENCES users (id), CONSTRAINT fk2 FOREIGN KEY (c2) REFERENCES users (id), CONSTRAINT ck_1 CHECK (c1 > 0), CONSTRAINT c_chk CHECK (c2 > 0))",
	"CREATE INDEX idx_c1 ON t1 (c1)",
	"CREATE INDEX idx_c1_c2 ON t1 (c1, c2)",
	"CREATE TABLE t2 (id integer NOT NULL PRIMARY KEY, c1 integer, id2 integer)",
	"CREATE INDEX idx_t2 ON t2 (id2)",
	"CREATE TABLE ta (id integer NOT NULL PRIMARY KEY, x integer)",
	"CREATE VIEW t1v AS SELECT id FROM t1",
}

type elem struct {
	table, kind, name string   // kind: table | column | index | fk | check
	cols              []string // columns an index / fk is built on
}

var elems = []elem{
	{"users", "table", "users", nil}, {"users", "column", "id", nil}, {"users", "column", "name", nil}, {"users", "column", "c1", nil},
	{"users", "index", "idx_name", []string{"name"}}, {"users", "index", "c1_idx", []string{"c1"}}, {"users", "check", "ck_name", nil},
	{"t1", "table", "t1", nil}, {"t1", "column", "id", nil}, {"t1", "column", "c1", nil}, {"t1", "column", "c2", nil}, {"t1", "column", "fk_col", nil},
	{"t1", "index", "idx_c1", []string{"c1"}}, {"t1", "index", "idx_c1_c2", []string{"c1", "c2"}},
	{"t1", "fk", "fk_t1", []string{"fk_col"}}, {"t1", "fk", "fk2", []string{"c2"}}, {"t1", "check", "ck_1", nil}, {"t1", "check", "c_chk", nil},
	{"t2", "table", "t2", nil}, {"t2", "column", "id", nil}, {"t2", "column", "c1", nil}, {"t2", "column", "id2", nil}, {"t2", "index", "idx_t2", []string{"id2"}},
	{"ta", "table", "ta", nil}, {"ta", "column", "id", nil}, {"ta", "column", "x", nil},
}

var reSel = regexp.MustCompile(`\[type=([a-z|_]+)\]$`)

// sel splits "glob[type=a|b]" into the glob and the selected kinds (nil = every kind).
func sel(p string) (string, map[string]bool) {
	m := reSel.FindStringSubmatch(p)
	if m == nil {
		return p, nil
	}
	kinds := map[string]bool{}
	for _, k := range strings.Split(m[1], "|") {
		kinds[k] = true
	}
	return strings.TrimSuffix(p, m[0]), kinds
}

func selected(kinds map[string]bool, k string) bool { return kinds == nil || kinds[k] }

func match(glob, name string) bool { ok, _ := path.Match(glob, name); return ok }

const (
	kept = iota
	excluded
	unspecified
)

// refExclude: the documented semantics of schema-scoped patterns "table" / "table.child", each part
// with an optional [type=...] selector. Returns the fate of every element.
func refExclude(patterns []string) map[string]int {
	fate := map[string]int{}
	id := func(e elem) string { return e.table + "|" + e.kind + "|" + e.name }
	exclTable := map[string]bool{}
	exclCol := map[string]bool{} // table.column
	for _, p := range patterns {
		parts := strings.Split(p, ".")
		tglob, tk := sel(parts[0])
		for _, e := range elems {
			if e.kind != "table" || !selected(tk, "table") || !match(tglob, e.name) {
				continue
			}
			if len(parts) == 1 {
				exclTable[e.name] = true
				continue
			}
			cglob, ck := sel(parts[1])
			for _, ch := range elems {
				if ch.table != e.name || ch.kind == "table" {
					continue
				}
				if selected(ck, ch.kind) && match(cglob, ch.name) {
					fate[id(ch)] = excluded
					if ch.kind == "column" {
						exclCol[ch.table+"."+ch.name] = true
					}
				}
			}
		}
	}
	for _, e := range elems {
		switch {
		case exclTable[e.table]:
			fate[id(e)] = excluded
		case fate[id(e)] == excluded:
		default:
			fate[id(e)] = kept
			// an index / foreign key over an excluded column: the documentation does not say.
			for _, c := range e.cols {
				if exclCol[e.table+"."+c] {
					fate[id(e)] = unspecified
				}
			}
			// a foreign key pointing at an excluded table: not specified either.
			if e.kind == "fk" && exclTable["users"] {
				fate[id(e)] = unspecified
			}
		}
	}
	return fate
}

// malformedEvaluated: does the pattern list hold a glob that path.Match rejects and that the
// exclusion has to evaluate? Patterns are applied one after the other: a table glob is evaluated
// while any table is left, a child glob only against the children - of the kinds its selector names -
// that the earlier patterns have left in a table its table glob matches.
func malformedEvaluated(patterns []string) bool {
	alive := make([]bool, len(elems))
	for i := range alive {
		alive[i] = true
	}
	bad := func(g string) bool { _, err := path.Match(g, "x"); return err != nil }
	for _, p := range patterns {
		parts := strings.Split(p, ".")
		tglob, tk := sel(parts[0])
		anyTable := false
		for i, e := range elems {
			anyTable = anyTable || alive[i] && e.kind == "table"
		}
		if bad(tglob) {
			if anyTable {
				return true
			}
			continue
		}
		if len(parts) == 1 {
			if selected(tk, "table") {
				for i, e := range elems {
					if alive[i] && match(tglob, e.table) {
						alive[i] = false
					}
				}
			}
			continue
		}
		cglob, ck := sel(parts[1])
		for ti, te := range elems {
			if te.kind != "table" || !alive[ti] || !selected(tk, "table") || !match(tglob, te.name) {
				continue
			}
			gone := map[string]bool{} // columns of this table the pattern removes
			for _, kind := range []string{"column", "index", "fk", "check"} {
				if !selected(ck, kind) {
					continue
				}
				for i, e := range elems {
					if !alive[i] || e.table != te.table || e.kind != kind {
						continue
					}
					over := false
					for _, c := range e.cols {
						over = over || gone[c]
					}
					if over {
						alive[i] = false // removed with its column, before the glob is looked at
						continue
					}
					if bad(cglob) {
						return true
					}
					if match(cglob, e.name) {
						alive[i] = false
						if kind == "column" {
							gone[e.name] = true
						}
					}
				}
			}
		}
	}
	return false
}

func observe(s *schema.Schema) map[string]bool {
	got := map[string]bool{}
	for _, t := range s.Tables {
		got[t.Name+"|table|"+t.Name] = true
		for _, c := range t.Columns {
			got[t.Name+"|column|"+c.Name] = true
		}
		for _, i := range t.Indexes {
			got[t.Name+"|index|"+i.Name] = true
		}
		for _, f := range t.ForeignKeys {
			got[t.Name+"|fk|"+f.Symbol] = true
		}
		for _, a := range t.Attrs {
			if c, ok := a.(*schema.Check); ok {
				got[t.Name+"|check|"+c.Name] = true
			}
		}
	}
	return got
}

type ExCase struct {
	Patterns []string `json:"patterns"`
}

type ExResult struct {
	Problems []string
	Excluded int
}

func evalExclude(ctx context.Context, c ExCase) (res ExResult) {
	bad := func(f string, a ...any) { res.Problems = append(res.Problems, fmt.Sprintf(f, a...)) }
	e, err := sqliteh.Open(ctx)
	if err != nil {
		bad("harness: %v", err)
		return
	}
	defer e.Close()
	if err := e.Exec(ctx, ddl...); err != nil {
		bad("harness: %v", err)
		return
	}
	defer func() {
		if p := recover(); p != nil {
			bad("panic: %v", p)
		}
	}()
	want := refExclude(c.Patterns)
	for _, w := range want {
		if w == excluded {
			res.Excluded++
		}
	}
	check := func(how string, s *schema.Schema) {
		got := observe(s)
		keys := make([]string, 0, len(want))
		for k := range want {
			keys = append(keys, k)
		}
		sort.Strings(keys)
		for _, k := range keys {
			switch want[k] {
			case excluded:
				if got[k] {
					bad("%s: %s matches a pattern but is still inspected", how, k)
				}
			case kept:
				if !got[k] {
					bad("%s: %s matches no pattern but is missing", how, k)
				}
			}
		}
	}
	if malformedEvaluated(c.Patterns) {
		// a pattern that cannot be evaluated must be reported, not read as "matches everything / nothing".
		if _, err := e.Atlas.InspectSchema(ctx, "main", &schema.InspectOptions{Exclude: c.Patterns}); err == nil {
			bad("InspectSchema: the malformed pattern in %q was accepted", c.Patterns)
		}
		q := make([]string, len(c.Patterns))
		for i, p := range c.Patterns {
			q[i] = "main." + p
		}
		if _, err := e.Atlas.InspectRealm(ctx, &schema.InspectRealmOption{Exclude: q}); err == nil {
			bad("InspectRealm: the malformed pattern in %q was accepted", q)
		}
		res.Excluded = 1
		return
	}
	s, err := e.Atlas.InspectSchema(ctx, "main", &schema.InspectOptions{Exclude: c.Patterns})
	if err != nil {
		bad("InspectSchema: %v", err)
	} else {
		check("InspectSchema", s)
	}
	q := make([]string, len(c.Patterns))
	for i, p := range c.Patterns {
		q[i] = "main." + p
	}
	r, err := e.Atlas.InspectRealm(ctx, &schema.InspectRealmOption{Exclude: q})
	if err != nil {
		bad("InspectRealm: %v", err)
	} else if len(r.Schemas) == 1 {
		check("InspectRealm", r.Schemas[0])
	} else {
		bad("InspectRealm: %d schemas", len(r.Schemas))
	}
	return
}

func patterns() []string {
	var out []string
	tabs := []string{"*", "t*", "t1", "t?", "[a-t]1", "x", "users", "t1v", "t", "user"}
	kids := []string{"", "*", "c*", "id", "idx_*", "fk*", "ck*", "id?", "[a"}
	sels := []string{"", "[type=table]", "[type=column]", "[type=index|fk]", "[type=check]", "[type=view]", "[type=index]", "[type=column|check]", "[type=table|view]"}
	for _, t := range tabs {
		for _, k := range kids {
			for _, s := range sels {
				if k == "" {
					out = append(out, t+s)
				} else {
					out = append(out, t+"."+k+s)
					if s == "[type=table]" {
						out = append(out, t+"[type=table]."+k) // selector on the table part
					}
				}
			}
		}
	}
	return out
}

// ---------- (b) skip ----------

var skippable = []schema.Change{
	&schema.AddSchema{}, &schema.DropSchema{}, &schema.ModifySchema{}, &schema.AddTable{}, &schema.DropTable{}, &schema.ModifyTable{},
	&schema.AddColumn{}, &schema.DropColumn{}, &schema.ModifyColumn{}, &schema.AddIndex{}, &schema.DropIndex{}, &schema.ModifyIndex{},
	&schema.AddForeignKey{}, &schema.DropForeignKey{}, &schema.ModifyForeignKey{},
}

func kindName(c schema.Change) string {
	s := fmt.Sprintf("%T", c)
	return s[strings.LastIndex(s, ".")+1:]
}

// pair builds a (from, to) pair of realms producing every skippable kind at every nesting level.
func pair(d *dfu.Dialect) (*schema.Realm, *schema.Realm) {
	from, to := dfu.Base(d), dfu.Base(d)
	apply := map[string]bool{"add_table": true, "drop_table": true, "add_column": true, "drop_column": true, "col_type": true,
		"add_index": true, "drop_index": true, "index_part_desc": true, "add_fk": true, "drop_fk": true,
		"schema_charset_collate": true, "schema_comment": true}
	for _, e := range dfu.Edits(d) {
		if apply[e.Name] {
			e.Apply(to)
		}
	}
	dfu.F(dfu.T(to, "t"), "fk_d2").OnDelete = schema.Cascade // ModifyForeignKey
	gone := schema.New("gone")
	g := schema.NewTable("g")
	g.AddColumns(&schema.Column{Name: "id", Type: &schema.ColumnType{Type: d.Int()}})
	gone.AddTables(g)
	from.Realm.AddSchemas(gone)
	fresh := schema.New("fresh")
	f := schema.NewTable("f")
	f.AddColumns(&schema.Column{Name: "id", Type: &schema.ColumnType{Type: d.Int()}})
	fresh.AddTables(f)
	to.Realm.AddSchemas(fresh)
	return from.Realm, to.Realm
}

type SkipCase struct {
	Dialect string `json:"dialect"`
	Mask    int    `json:"mask"`
}

func evalSkip(c SkipCase) (problems []string) {
	bad := func(f string, a ...any) { problems = append(problems, fmt.Sprintf(f, a...)) }
	defer func() {
		if p := recover(); p != nil {
			bad("panic: %v", p)
		}
	}()
	var d *dfu.Dialect
	for _, x := range dfu.Dialects {
		if x.Name == c.Dialect {
			d = x
		}
	}
	from, to := pair(d)
	all, err := d.Diff.RealmDiff(from, to, schema.DiffNormalized())
	if err != nil {
		return []string{"unskipped diff: " + err.Error()}
	}
	var skip []schema.Change
	names := map[string]bool{}
	for i, k := range skippable {
		if c.Mask&(1<<uint(i)) != 0 {
			skip = append(skip, k)
			names[kindName(k)] = true
		}
	}
	from2, to2 := pair(d)
	got, err := d.Diff.RealmDiff(from2, to2, schema.DiffNormalized(), schema.DiffSkipChanges(skip...))
	if err != nil {
		return []string{"diff with skip: " + err.Error()}
	}
	// expected: the unskipped diff with every change of a skipped kind removed at every level;
	// a ModifyTable / ModifySchema left without sub-changes vanishes.
	var want []string
	for _, f := range dfu.Flatten(all) {
		keep := true
		for _, seg := range strings.Split(f, "/") {
			k := seg
			if i := strings.IndexAny(k, "(["); i >= 0 {
				k = k[:i]
			}
			if names[k] {
				keep = false
			}
		}
		if keep {
			want = append(want, f)
		}
	}
	g := dfu.Flatten(got)
	if !reflect.DeepEqual(g, want) && !(len(g) == 0 && len(want) == 0) {
		bad("skip=%v: change set %v, expected the unskipped diff filtered: %v", keys(names), minus(g, want), minus(want, g))
	}
	// the same policy handed over as several options (one kind each) accumulates.
	if len(skip) > 1 {
		opts := []schema.DiffOption{schema.DiffNormalized()}
		for _, k := range skip {
			opts = append(opts, schema.DiffSkipChanges(k))
		}
		from3, to3 := pair(d)
		got3, err := d.Diff.RealmDiff(from3, to3, opts...)
		if err != nil {
			bad("diff with the policy split into %d options: %v", len(skip), err)
		} else if g3 := dfu.Flatten(got3); !reflect.DeepEqual(g3, g) && !(len(g3) == 0 && len(g) == 0) {
			bad("skip=%v given as %d separate options gives %v, as one option %v", keys(names), len(skip), g3, g)
		}
	}
	return
}

// skippableAttr: the kinds a table's checks and attributes are changed by. The project file has no
// names for them; a program hands them to the differ with schema.DiffSkipChanges like any other kind.
var skippableAttr = []schema.Change{&schema.AddCheck{}, &schema.DropCheck{}, &schema.ModifyCheck{}, &schema.AddAttr{}, &schema.ModifyAttr{}}

// pairAttr builds a pair of schemas producing a check added, dropped and modified and (where the
// dialect has one) a table attribute added / modified, next to a column change that stays.
func pairAttr(d *dfu.Dialect) (*schema.Schema, *schema.Schema) {
	from, to := dfu.Base(d), dfu.Base(d)
	apply := map[string]bool{"add_check": true, "modify_check": true, "table_comment_modified": true, "strict_added": true, "add_column": true}
	for _, e := range dfu.Edits(d) {
		if apply[e.Name] {
			e.Apply(to)
		}
	}
	dfu.T(from, "u").AddChecks(schema.NewCheck().SetName("ck_u_gone").SetExpr("id > 0"))
	return from, to
}

func evalSkipAttr(c SkipCase) (problems []string) {
	bad := func(f string, a ...any) { problems = append(problems, fmt.Sprintf(f, a...)) }
	defer func() {
		if p := recover(); p != nil {
			bad("panic: %v", p)
		}
	}()
	var d *dfu.Dialect
	for _, x := range dfu.Dialects {
		if x.Name == c.Dialect {
			d = x
		}
	}
	from, to := pairAttr(d)
	all, err := d.Diff.SchemaDiff(from, to, schema.DiffNormalized())
	if err != nil {
		return []string{"unskipped diff: " + err.Error()}
	}
	var skip []schema.Change
	names := map[string]bool{}
	for i, k := range skippableAttr {
		if c.Mask&(1<<uint(i)) != 0 {
			skip = append(skip, k)
			names[kindName(k)] = true
		}
	}
	from2, to2 := pairAttr(d)
	got, err := d.Diff.SchemaDiff(from2, to2, schema.DiffNormalized(), schema.DiffSkipChanges(skip...))
	if err != nil {
		return []string{"diff with skip: " + err.Error()}
	}
	var want []string
	for _, f := range dfu.Flatten(all) {
		keep := true
		for _, seg := range strings.Split(f, "/") {
			k := seg
			if i := strings.IndexAny(k, "(["); i >= 0 {
				k = k[:i]
			}
			if names[k] {
				keep = false
			}
		}
		if keep {
			want = append(want, f)
		}
	}
	g := dfu.Flatten(got)
	if !reflect.DeepEqual(g, want) && !(len(g) == 0 && len(want) == 0) {
		bad("skip=%v: change set has %v more and %v less than the unskipped diff filtered (%v)", keys(names), minus(g, want), minus(want, g), dfu.Flatten(all))
	}
	return
}

func keys(m map[string]bool) []string {
	var out []string
	for k := range m {
		out = append(out, k)
	}
	sort.Strings(out)
	return out
}

func minus(a, b []string) []string {
	m := map[string]int{}
	for _, x := range b {
		m[x]++
	}
	var out []string
	for _, x := range a {
		if m[x] > 0 {
			m[x]--
		} else {
			out = append(out, x)
		}
	}
	return out
}

func Run(r *report.Run) {
	ctx := context.Background()
	r.Rule = "(a) exclude: a SQLite database with colliding names (4 tables, a view, columns/indexes/foreign keys/checks) on a real engine x every pattern table[.child][selector] from 10 table globs x 9 child globs (one of them malformed: it must be reported as an error) x 9 type selectors (quick: every single pattern; thorough: every unordered pair), through InspectSchema and InspectRealm, compared element by element with a reference of the pattern semantics built on path.Match; (b) skip: per dialect a change set containing every skippable kind at every nesting level x all 2^15 subsets of the policy kinds {Add,Drop,Modify} x {Schema,Table,Column,Index,ForeignKey}: the change tree must equal the unskipped diff with the skipped kinds filtered out recursively, also when the policy is handed over as several options; and all 32 subsets of the kinds a table's checks and attributes change by {AddCheck, DropCheck, ModifyCheck, AddAttr, ModifyAttr} (no names in the project file; handed over with DiffSkipChanges); (c) end to end: real `atlas schema apply --auto-approve` on a SQLite file whose current and desired states disagree on 3 tables and 3 columns (one per way a plan can touch a resource) x every set of <=2 of 9 exclude patterns x {--exclude flags, env exclude, env:// URLs, the hcl_schema data source of the project file} x {no dev database, dev database} x desired state {HCL file, database URL}, and all 15 non-empty subsets of diff.skip {add_table, drop_table, add_column, drop_column} in a project file (in the env's diff block, or in the project-level diff block inherited by an env without / with a diff block of its own): a resource is left exactly as it was iff a pattern matches it / its change kind is skipped, everything else reaches the desired state, rows survive, and a second apply is a no-op; the same with an index and a foreign key over the excluded column present on both sides (nothing may be planned for them); (d) the policy handed to the versioned-migration planner (migrate.NewPlanner with PlanWithDiffOptions, as `migrate diff` builds it) on a real in-memory SQLite dev database that replays a directory: scope {whole database, connected schema} x all 32 subsets of {drop table, drop column, drop index, add table, add index}: a kind is in the plan iff it is not switched off; (e) patterns over the columns of a view, on a hand-built realm (the community SQLite inspection reports no views): 9 child globs, one malformed, through ExcludeRealm / ExcludeSchema; (f) realm-level patterns on a hand-built realm of four schemas (three matched by the same globs) in all 24 orders x every ordered set of <=2 of 11 schema / schema.table patterns with type selectors through ExcludeRealm, against a path.Match reference (what is left, and in the inspected order); non-trivial = pattern set excluding >=1 element, or a non-empty skip subset; distinct by construction"
	r.Assumptions = []string{
		"indexes/foreign keys built on an excluded column, and foreign keys pointing at an excluded table, are unspecified by the documentation: not judged",
		"the CLI slice uses one fixed pair of schemas in which every way a plan can touch a resource occurs once",
	}
	ps := patterns()
	var cases []ExCase
	for _, p := range ps {
		cases = append(cases, ExCase{[]string{p}})
	}
	if r.Tier == "thorough" {
		for i := range ps {
			for j := i + 1; j < len(ps); j++ {
				cases = append(cases, ExCase{[]string{ps[i], ps[j]}})
			}
		}
	}
	err := enum.ProcMap(len(cases), func(i int) ExResult { return evalExclude(ctx, cases[i]) }, func(i int, res ExResult) {
		r.CaseDistinct(res.Excluded > 0)
		if len(res.Problems) > 0 {
			r.Violate("", fmt.Sprintf("exclude %q: %s", cases[i].Patterns, strings.Join(res.Problems, " | ")), map[string]any{"exclude": cases[i]})
		}
		if len(cases[i].Patterns) == 1 && cases[i].Patterns[0] == "t?.c*[type=column|check]" {
			r.Sample(map[string]any{"exclude": cases[i], "elements_excluded": res.Excluded})
		}
	})
	if err != nil {
		r.Violate("", "harness: "+err.Error(), nil)
	}
	r.Set("exclude_pattern_sets", len(cases))
	// (b)
	n := 0
	for _, d := range dfu.Dialects {
		for mask := 0; mask < 1<<uint(len(skippable)); mask++ {
			c := SkipCase{d.Name, mask}
			problems := evalSkip(c)
			r.CaseDistinct(mask != 0)
			n++
			if len(problems) > 0 {
				r.Violate("", fmt.Sprintf("%s: %s", d.Name, strings.Join(problems, " | ")), map[string]any{"skip": c})
			}
			if mask == 0b000000100010000 && d.Name == "mysql" {
				r.Sample(map[string]any{"skip": c, "kinds": "DropTable, DropColumn"})
			}
		}
	}
	for _, d := range dfu.Dialects {
		for mask := 0; mask < 1<<uint(len(skippableAttr)); mask++ {
			c := SkipCase{d.Name, mask}
			r.CaseDistinct(mask != 0)
			n++
			if problems := evalSkipAttr(c); len(problems) > 0 {
				r.Violate("", fmt.Sprintf("%s (check / attribute kinds): %s", d.Name, strings.Join(problems, " | ")), map[string]any{"skip_attr": c})
			}
		}
	}
	r.Set("skip_subsets_checked", n)
	// (e) patterns over the columns of a view (hand-built realm)
	for _, c := range viewCases() {
		r.CaseDistinct(true)
		if p := evalView(c); len(p) > 0 {
			r.Violate("", fmt.Sprintf("view %+v: %s", c, strings.Join(p, " | ")), map[string]any{"view": c})
		}
	}
	// (f) realm-level patterns over several schemas in every order
	for _, c := range realmCases() {
		r.CaseDistinct(true)
		if p := evalRealm(c); len(p) > 0 {
			r.Violate("", fmt.Sprintf("realm %+v: %s", c, strings.Join(p, " | ")), map[string]any{"realm": c})
		}
	}
	r.Set("realm_pattern_cases", len(realmCases()))
	// (d) the policy handed to the versioned-migration planner
	for _, c := range plannerCases() {
		r.CaseDistinct(c.Mask != 0)
		if p := evalPlanner(c); len(p) > 0 {
			r.Violate("", fmt.Sprintf("planner %+v: %s", c, strings.Join(p, " | ")), map[string]any{"planner": c})
		}
	}
	r.Set("planner_policy_cases", len(plannerCases()))
	// (c) end to end through the CLI
	r.Set("cli_cases", runCLI(r))
}

func Replay(r *report.Run, raw json.RawMessage) {
	var v struct {
		Case struct {
			Exclude  *ExCase
			Skip     *SkipCase
			CLI      *CLICase     `json:"cli"`
			Planner  *PlannerCase `json:"planner"`
			SkipAttr *SkipCase    `json:"skip_attr"`
			View     *ViewCase    `json:"view"`
			Realm    *RealmCase   `json:"realm"`
		}
	}
	if err := json.Unmarshal(raw, &v); err != nil {
		r.Violate("", "bad replay file: "+err.Error(), nil)
		return
	}
	r.Case("a", true)
	r.Case("b", true)
	switch {
	case v.Case.CLI != nil:
		defer clih.Cleanup()
		if p := evalCLI(*v.Case.CLI); len(p) > 0 {
			r.Violate(classifyCLI(*v.Case.CLI, p), strings.Join(p, " | "), v.Case)
		}
	case v.Case.Exclude != nil:
		res := evalExclude(context.Background(), *v.Case.Exclude)
		fmt.Printf("  exclude %q -> reference %v\n", v.Case.Exclude.Patterns, refExclude(v.Case.Exclude.Patterns))
		if len(res.Problems) > 0 {
			r.Violate("", strings.Join(res.Problems, " | "), v.Case)
		}
	case v.Case.Skip != nil:
		if p := evalSkip(*v.Case.Skip); len(p) > 0 {
			r.Violate("", strings.Join(p, " | "), v.Case)
		}
	case v.Case.Realm != nil:
		if p := evalRealm(*v.Case.Realm); len(p) > 0 {
			r.Violate("", strings.Join(p, " | "), v.Case)
		}
	case v.Case.View != nil:
		if p := evalView(*v.Case.View); len(p) > 0 {
			r.Violate("", strings.Join(p, " | "), v.Case)
		}
	case v.Case.SkipAttr != nil:
		if p := evalSkipAttr(*v.Case.SkipAttr); len(p) > 0 {
			r.Violate("", strings.Join(p, " | "), v.Case)
		}
	case v.Case.Planner != nil:
		if p := evalPlanner(*v.Case.Planner); len(p) > 0 {
			r.Violate("", strings.Join(p, " | "), v.Case)
		}
	}
}
