package c19

import (
	"fmt"
	"os"
	"path"
	"sort"
	"strings"

	"verif/clih"
	"verif/engine/enum"
	"verif/engine/report"
)

// ---------- (c) end to end: `atlas schema apply` with --exclude / env exclude / diff.skip on a real SQLite file ----------
//
// Current database and desired state disagree on six resources, one per way a plan can touch a
// resource; each can be hit by a pattern (or a skipped change kind):
//
//	table  secret_a   in both, desired adds column x      -> ALTER unless excluded
//	table  db_only    only in the database                 -> DROP  unless excluded / drop_table skipped
//	table  hcl_only   only in the desired state            -> CREATE unless excluded / add_table skipped
//	column shared.hidden  only in the database             -> dropped unless excluded / drop_column skipped
//	column shared.extra   only in the desired state        -> added unless excluded / add_column skipped
//	column keep.n         only in the desired state        -> added unless excluded / add_column skipped

var cliSetup = []string{
	"CREATE TABLE keep (id integer NOT NULL PRIMARY KEY, v text NULL)",
	"CREATE TABLE secret_a (id integer NOT NULL PRIMARY KEY)",
	"CREATE TABLE db_only (id integer NOT NULL PRIMARY KEY)",
	"CREATE TABLE shared (id integer NOT NULL PRIMARY KEY, hidden text NULL, shown text NULL)",
	"INSERT INTO keep VALUES (1, 'k1'), (2, NULL)",
	"INSERT INTO secret_a VALUES (1)",
	"INSERT INTO db_only VALUES (1), (2)",
	"INSERT INTO shared VALUES (1, 'h1', 's1')",
}

var cliDesiredDDL = []string{
	"CREATE TABLE keep (id integer NOT NULL PRIMARY KEY, v text NULL, n integer NULL)",
	"CREATE TABLE secret_a (id integer NOT NULL PRIMARY KEY, x integer NULL)",
	"CREATE TABLE hcl_only (id integer NOT NULL PRIMARY KEY)",
	"CREATE TABLE shared (id integer NOT NULL PRIMARY KEY, shown text NULL, extra integer NULL)",
}

const cliDesiredHCL = `schema "main" {}
table "keep" {
  schema = schema.main
  column "id" {
    type = integer
  }
  column "v" {
    type = text
    null = true
  }
  column "n" {
    type = integer
    null = true
  }
  primary_key {
    columns = [column.id]
  }
}
table "secret_a" {
  schema = schema.main
  column "id" {
    type = integer
  }
  column "x" {
    type = integer
    null = true
  }
  primary_key {
    columns = [column.id]
  }
}
table "hcl_only" {
  schema = schema.main
  column "id" {
    type = integer
  }
  primary_key {
    columns = [column.id]
  }
}
table "shared" {
  schema = schema.main
  column "id" {
    type = integer
  }
  column "shown" {
    type = text
    null = true
  }
  column "extra" {
    type = integer
    null = true
  }
  primary_key {
    columns = [column.id]
  }
}
`

var cliPatterns = []string{"secret_*", "db_only", "hcl_only", "*_only", "shared.hidden", "shared.extra", "keep.n", "*.n", "shared.*[type=column]"}

var cliSkips = []string{"add_table", "drop_table", "add_column", "drop_column"}

type CLICase struct {
	Patterns []string `json:"patterns,omitempty"`
	Skip     []string `json:"skip,omitempty"`
	Via      string   `json:"via"`    // flag | env | envurl | datasrc | project | project+envdiff
	Dev      bool     `json:"dev"`    // --dev-url given
	Source   string   `json:"source"` // hcl | db
	// Rebuild: the desired state also changes the type of shared.shown, which SQLite can only do by
	// re-creating the table: whatever is excluded or skipped on that table must survive the rebuild.
	Rebuild bool `json:"rebuild,omitempty"`
	// Attached: another pair of states (see evalAttached): an index and a foreign key over columns
	// that the patterns exclude, present on both sides.
	Attached bool `json:"attached,omitempty"`
	// Composite: in the attached scenario the index and the foreign key have two columns, and the
	// excluded column is the second one of each.
	Composite bool `json:"composite,omitempty"`
}

var attachedSetup2 = []string{
	"CREATE TABLE keep (id integer NOT NULL PRIMARY KEY, k integer NOT NULL, v text NULL)",
	"CREATE UNIQUE INDEX keep_id_k ON keep (id, k)",
	"CREATE INDEX idx_v ON keep (k, v)",
	"CREATE TABLE shared (id integer NOT NULL PRIMARY KEY, a integer NULL, shown integer NULL, CONSTRAINT fk_shown FOREIGN KEY (a, shown) REFERENCES keep (id, k))",
	"INSERT INTO keep VALUES (1, 10, 'k1'), (2, 20, NULL)",
	"INSERT INTO shared VALUES (1, 2, 20)",
}

const attachedHCL2 = `schema "main" {}
table "keep" {
  schema = schema.main
  column "id" {
    type = integer
  }
  column "k" {
    type = integer
  }
  column "v" {
    type = text
    null = true
  }
  primary_key {
    columns = [column.id]
  }
  index "keep_id_k" {
    unique  = true
    columns = [column.id, column.k]
  }
  index "idx_v" {
    columns = [column.k, column.v]
  }
}
table "shared" {
  schema = schema.main
  column "id" {
    type = integer
  }
  column "a" {
    type = integer
    null = true
  }
  column "shown" {
    type = integer
    null = true
  }
  primary_key {
    columns = [column.id]
  }
  foreign_key "fk_shown" {
    columns     = [column.a, column.shown]
    ref_columns = [table.keep.column.id, table.keep.column.k]
    on_update   = NO_ACTION
    on_delete   = NO_ACTION
  }
}
table "hcl_only" {
  schema = schema.main
  column "id" {
    type = integer
  }
  primary_key {
    columns = [column.id]
  }
}
`

// Attached scenario: the database and the desired state agree on keep (with an index over keep.v)
// and shared (with a foreign key on shared.shown); the desired state adds table hcl_only. Excluding
// keep.v / shared.shown hides the column on both sides; the index and the key over it exist on both
// sides, match no pattern, and have to come out of the apply as they went in.
var attachedSetup = []string{
	"CREATE TABLE keep (id integer NOT NULL PRIMARY KEY, v text NULL)",
	"CREATE INDEX idx_v ON keep (v)",
	"CREATE TABLE shared (id integer NOT NULL PRIMARY KEY, shown integer NULL, CONSTRAINT fk_shown FOREIGN KEY (shown) REFERENCES keep (id))",
	"INSERT INTO keep VALUES (1, 'k1'), (2, NULL)",
	"INSERT INTO shared VALUES (1, 2)",
}

const attachedHCL = `schema "main" {}
table "keep" {
  schema = schema.main
  column "id" {
    type = integer
  }
  column "v" {
    type = text
    null = true
  }
  primary_key {
    columns = [column.id]
  }
  index "idx_v" {
    columns = [column.v]
  }
}
table "shared" {
  schema = schema.main
  column "id" {
    type = integer
  }
  column "shown" {
    type = integer
    null = true
  }
  primary_key {
    columns = [column.id]
  }
  foreign_key "fk_shown" {
    columns     = [column.shown]
    ref_columns = [table.keep.column.id]
    on_update   = NO_ACTION
    on_delete   = NO_ACTION
  }
}
table "hcl_only" {
  schema = schema.main
  column "id" {
    type = integer
  }
  primary_key {
    columns = [column.id]
  }
}
`

func evalAttached(c CLICase) (problems []string) {
	bad := func(f string, a ...any) { problems = append(problems, fmt.Sprintf(f, a...)) }
	w, err := clih.NewWork()
	if err != nil {
		return []string{"harness: " + err.Error()}
	}
	defer w.Close()
	setup, hcl, nddl := attachedSetup, attachedHCL, 3
	if c.Composite {
		setup, hcl, nddl = attachedSetup2, attachedHCL2, 4
	}
	if err := w.Exec("db.sqlite", setup...); err != nil {
		return []string{"harness: " + err.Error()}
	}
	to := "file://" + w.Path("desired.hcl")
	os.WriteFile(w.Path("desired.hcl"), []byte(hcl), 0o644)
	if c.Source == "db" {
		ddl := append(append([]string(nil), setup[:nddl]...), "CREATE TABLE hcl_only (id integer NOT NULL PRIMARY KEY)")
		if err := w.Exec("desired.sqlite", ddl...); err != nil {
			return []string{"harness: " + err.Error()}
		}
		to = w.URL("desired.sqlite")
	}
	args := []string{"schema", "apply", "--auto-approve", "--url", w.URL("db.sqlite"), "--to", to}
	if c.Dev {
		args = append(args, "--dev-url", "sqlite://dev?mode=memory")
	}
	for _, p := range c.Patterns {
		args = append(args, "--exclude", p)
	}
	before, err := w.Dump("db.sqlite")
	if err != nil {
		return []string{"harness: " + err.Error()}
	}
	res := w.Run(nil, args...)
	if res.Exit != 0 {
		bad("`schema apply` failed: %s", res)
		return
	}
	after, err := w.Dump("db.sqlite")
	if err != nil {
		return []string{"harness: " + err.Error()}
	}
	// everything that was there is still there, unchanged; hcl_only is new.
	for _, l := range strings.Split(before, "\n") {
		if l != "" && !strings.Contains(after, l) {
			bad("the database lost %q in an apply whose states agree on it (exclude %v); statements: %s", l, c.Patterns, res.Stdout)
		}
	}
	if !strings.Contains(after, "hcl_only") {
		bad("table hcl_only, which matches no pattern, was not created (exclude %v)", c.Patterns)
	}
	if r2 := w.Run(nil, args...); r2.Exit != 0 || !strings.Contains(r2.Stdout, "Schema is synced") {
		bad("second `schema apply` with the same exclusions is not a no-op: %s", r2)
	}
	return
}

// reference: is the table / column hit by a pattern? (table pattern = one segment; column pattern = table.child)
func cliExcluded(patterns []string, table, col string) bool {
	for _, p := range patterns {
		glob, kinds := sel(p)
		seg := strings.SplitN(glob, ".", 2)
		if ok, _ := path.Match(seg[0], table); !ok {
			continue
		}
		switch {
		case len(seg) == 1 && selected(kinds, "table"):
			return true // the whole table (and with it every column)
		case len(seg) == 2 && col != "":
			if ok, _ := path.Match(seg[1], col); ok && selected(kinds, "column") {
				return true
			}
		}
	}
	return false
}

func has(list []string, s string) bool {
	for _, x := range list {
		if x == s {
			return true
		}
	}
	return false
}

func evalCLI(c CLICase) (problems []string) {
	if c.Attached {
		return evalAttached(c)
	}
	bad := func(f string, a ...any) { problems = append(problems, fmt.Sprintf(f, a...)) }
	w, err := clih.NewWork()
	if err != nil {
		return []string{"harness: " + err.Error()}
	}
	defer w.Close()
	if err := w.Exec("db.sqlite", cliSetup...); err != nil {
		return []string{"harness: " + err.Error()}
	}
	to := "file://" + w.Path("desired.hcl")
	desiredHCL, desiredDDL := cliDesiredHCL, cliDesiredDDL
	if c.Rebuild {
		desiredHCL = strings.Replace(desiredHCL, "column \"shown\" {\n    type = text", "column \"shown\" {\n    type = integer", 1)
		desiredDDL = append([]string(nil), cliDesiredDDL...)
		for i := range desiredDDL {
			desiredDDL[i] = strings.Replace(desiredDDL[i], "shown text NULL", "shown integer NULL", 1)
		}
	}
	os.WriteFile(w.Path("desired.hcl"), []byte(desiredHCL), 0o644)
	if c.Source == "db" {
		if err := w.Exec("desired.sqlite", desiredDDL...); err != nil {
			return []string{"harness: " + err.Error()}
		}
		to = w.URL("desired.sqlite")
	}
	args := []string{"schema", "apply", "--auto-approve"}
	if c.Via != "flag" {
		var b strings.Builder
		skipBlock := func(indent string) string {
			var sb strings.Builder
			sb.WriteString(indent + "skip {\n")
			for _, k := range c.Skip {
				fmt.Fprintf(&sb, "%s  %s = true\n", indent, k)
			}
			sb.WriteString(indent + "}\n")
			return sb.String()
		}
		// "project": the policy sits in the project-level diff block and the env inherits it;
		// "project+envdiff": the env has a diff block of its own holding only a driver option.
		if c.Via != "env" && c.Via != "envurl" && c.Via != "datasrc" && len(c.Skip) > 0 {
			b.WriteString("diff {\n" + skipBlock("  ") + "}\n")
		}
		if c.Via == "datasrc" {
			// the desired state goes through the project file's hcl_schema data source.
			fmt.Fprintf(&b, "data \"hcl_schema\" \"app\" {\n  path = %q\n}\n", w.Path("desired.hcl"))
			fmt.Fprintf(&b, "env \"e\" {\n  url = %q\n  src = data.hcl_schema.app.url\n", w.URL("db.sqlite"))
		} else {
			fmt.Fprintf(&b, "env \"e\" {\n  url = %q\n  src = %q\n", w.URL("db.sqlite"), to)
		}
		if c.Dev {
			b.WriteString("  dev = \"sqlite://dev?mode=memory\"\n")
		}
		if len(c.Patterns) > 0 {
			var qs []string
			for _, p := range c.Patterns {
				qs = append(qs, fmt.Sprintf("%q", p))
			}
			fmt.Fprintf(&b, "  exclude = [%s]\n", strings.Join(qs, ", "))
		}
		switch {
		case len(c.Skip) > 0 && (c.Via == "env" || c.Via == "envurl" || c.Via == "datasrc"):
			b.WriteString("  diff {\n" + skipBlock("    ") + "  }\n")
		case c.Via == "project+envdiff":
			b.WriteString("  diff {\n    concurrent_index {\n      create = true\n    }\n  }\n")
		}
		b.WriteString("}\n")
		os.WriteFile(w.Path("atlas.hcl"), []byte(b.String()), 0o644)
		args = append(args, "--env", "e", "-c", "file://"+w.Path("atlas.hcl"))
		if c.Via == "envurl" {
			// the same states, named indirectly through the env's attributes.
			args = append(args, "--url", "env://url", "--to", "env://src")
		}
	} else {
		args = append(args, "--url", w.URL("db.sqlite"), "--to", to)
		if c.Dev {
			args = append(args, "--dev-url", "sqlite://dev?mode=memory")
		}
		for _, p := range c.Patterns {
			args = append(args, "--exclude", p)
		}
	}
	res := w.Run(nil, args...)
	if res.Exit != 0 {
		bad("`schema apply` failed: %s", res)
		return
	}
	// observe
	tables := map[string]map[string]bool{}
	rows, err := w.Query("db.sqlite", "SELECT m.name, p.name FROM sqlite_master m JOIN pragma_table_info(m.name) p WHERE m.type = 'table' AND m.name NOT LIKE 'sqlite_%'")
	if err != nil {
		return []string{"harness: " + err.Error()}
	}
	for _, r := range rows {
		if tables[r[0]] == nil {
			tables[r[0]] = map[string]bool{}
		}
		tables[r[0]][r[1]] = true
	}
	exT := func(t string) bool { return cliExcluded(c.Patterns, t, "") }
	exC := func(t, col string) bool { return exT(t) || cliExcluded(c.Patterns, t, col) }
	expectTable := func(t string, want bool, why string) {
		if (tables[t] != nil) != want {
			bad("table %s present=%v after apply, expected %v (%s)", t, tables[t] != nil, want, why)
		}
	}
	expectCol := func(t, col string, want bool, why string) {
		if tables[t] == nil {
			return
		}
		if tables[t][col] != want {
			bad("column %s.%s present=%v after apply, expected %v (%s)", t, col, tables[t][col], want, why)
		}
	}
	why := fmt.Sprintf("exclude %v skip %v", c.Patterns, c.Skip)
	expectTable("keep", true, why)
	expectTable("shared", true, why)
	expectTable("secret_a", true, why)
	expectTable("db_only", exT("db_only") || has(c.Skip, "drop_table"), why)
	expectTable("hcl_only", !exT("hcl_only") && !has(c.Skip, "add_table"), why)
	expectCol("secret_a", "x", !exC("secret_a", "x") && !has(c.Skip, "add_column"), why)
	expectCol("keep", "n", !exC("keep", "n") && !has(c.Skip, "add_column"), why)
	expectCol("keep", "v", true, why)
	expectCol("shared", "shown", true, why)
	expectCol("shared", "extra", !exC("shared", "extra") && !has(c.Skip, "add_column"), why)
	expectCol("shared", "hidden", exC("shared", "hidden") || has(c.Skip, "drop_column"), why)
	// rows of the tables that stay are still there.
	for t, n := range map[string]string{"keep": "2", "secret_a": "1", "shared": "1", "db_only": "2"} {
		if tables[t] == nil {
			continue
		}
		cnt, err := w.Query("db.sqlite", "SELECT count(*) FROM "+t)
		if err != nil || len(cnt) != 1 || cnt[0][0] != n {
			bad("table %s holds %v rows after apply, expected %s", t, cnt, n)
		}
	}
	// a second apply finds nothing to do.
	if r2 := w.Run(nil, args...); r2.Exit != 0 || !strings.Contains(r2.Stdout, "Schema is synced") {
		bad("second `schema apply` with the same exclusions is not a no-op: %s", r2)
	}
	return
}

func cliCases(tier string) []CLICase {
	var cs []CLICase
	var sets [][]string
	sets = append(sets, nil)
	for i, p := range cliPatterns {
		sets = append(sets, []string{p})
		for _, q := range cliPatterns[i+1:] {
			sets = append(sets, []string{p, q})
		}
	}
	for _, ps := range sets {
		for _, via := range []string{"flag", "env"} {
			for _, dev := range []bool{false, true} {
				for _, src := range []string{"hcl", "db"} {
					// quick: pattern pairs through flags with an HCL source, and through the env block
					// (a list attribute, another code path) without a dev database.
					if tier != "thorough" && len(ps) == 2 && (src == "db" || via == "env" && dev) {
						continue
					}
					cs = append(cs, CLICase{Patterns: ps, Via: via, Dev: dev, Source: src})
				}
			}
		}
	}
	for mask := 1; mask < 1<<len(cliSkips); mask++ {
		var sk []string
		for i, k := range cliSkips {
			if mask&(1<<i) != 0 {
				sk = append(sk, k)
			}
		}
		for _, dev := range []bool{false, true} {
			cs = append(cs, CLICase{Skip: sk, Via: "env", Dev: dev, Source: "hcl"})
			if !dev {
				cs = append(cs, CLICase{Skip: sk, Via: "project", Source: "hcl"}, CLICase{Skip: sk, Via: "project+envdiff", Source: "hcl"})
			}
			if tier == "thorough" {
				cs = append(cs, CLICase{Skip: sk, Via: "env", Dev: dev, Source: "db"}, CLICase{Skip: sk, Patterns: []string{"secret_*"}, Via: "env", Dev: dev, Source: "hcl"})
			}
		}
	}
	// the states given as env://<attribute> URLs.
	for _, ps := range [][]string{{"db_only"}, {"hcl_only"}, {"secret_*", "shared.hidden"}, {"keep.n"}} {
		cs = append(cs, CLICase{Patterns: ps, Via: "envurl", Source: "hcl"})
	}
	// the desired state read through the hcl_schema data source of the project file.
	for _, ps := range [][]string{nil, {"db_only"}, {"hcl_only"}, {"secret_*", "shared.hidden"}, {"keep.n"}, {"shared.extra"}} {
		cs = append(cs, CLICase{Patterns: ps, Via: "datasrc", Source: "hcl"})
	}
	cs = append(cs, CLICase{Skip: []string{"add_table", "drop_column"}, Via: "datasrc", Source: "hcl"})
	// the same with the table shared re-created for another change.
	for _, via := range []string{"flag", "env"} {
		for _, ps := range [][]string{nil, {"shared.hidden"}, {"shared.extra"}, {"shared.*[type=column]"}} {
			cs = append(cs, CLICase{Patterns: ps, Via: via, Source: "hcl", Rebuild: true})
		}
	}
	for _, sk := range [][]string{{"drop_column"}, {"add_column", "drop_column"}} {
		cs = append(cs, CLICase{Skip: sk, Via: "env", Source: "hcl", Rebuild: true})
	}
	// an index / a foreign key over an excluded column, on both sides.
	for _, ps := range [][]string{nil, {"keep.v"}, {"shared.shown"}, {"keep.v", "shared.shown"}, {"keep.v[type=column]"}, {"shared.shown[type=column]"}, {"*.v"}} {
		for _, src := range []string{"hcl", "db"} {
			for _, dev := range []bool{false, true} {
				cs = append(cs, CLICase{Patterns: ps, Via: "flag", Dev: dev, Source: src, Attached: true})
				cs = append(cs, CLICase{Patterns: ps, Via: "flag", Dev: dev, Source: src, Attached: true, Composite: true})
			}
		}
	}
	sort.SliceStable(cs, func(i, j int) bool { return len(cs[i].Patterns)+len(cs[i].Skip) < len(cs[j].Patterns)+len(cs[j].Skip) })
	return cs
}

func runCLI(r *report.Run) int {
	defer clih.Cleanup()
	cs := cliCases(r.Tier)
	res := make([][]string, len(cs))
	enum.Parallel(len(cs), func(i, _ int) { res[i] = evalCLI(cs[i]) })
	for i, c := range cs {
		r.CaseDistinct(len(c.Patterns)+len(c.Skip) > 0)
		if len(res[i]) > 0 {
			r.Violate(classifyCLI(c, res[i]), fmt.Sprintf("CLI %+v: %s", c, strings.Join(res[i], " | ")), map[string]any{"cli": c})
		}
	}
	return len(cs)
}

// classifyCLI: the listed finding is the SQLite table rebuild under `skip { add_column = true }`: the new
// table is created from the desired table (with the column whose AddColumn was skipped) and the row
// copy then selects that column from the old table.
func classifyCLI(c CLICase, problems []string) string {
	if c.Rebuild && has(c.Skip, "add_column") {
		for _, p := range problems {
			if !strings.Contains(p, "`schema apply` failed") || !strings.Contains(p, "no such column: extra") {
				return ""
			}
		}
		return "sqlite-rebuild-with-skipped-add-column-copies-a-column-the-old-table-lacks"
	}
	if c.Rebuild {
		// the rebuild creates the new table from the desired one and copies the common columns: a column
		// that is excluded, or whose DropColumn is skipped, is not in the plan and yet gone afterwards.
		for _, p := range problems {
			if !strings.HasPrefix(p, "column shared.hidden present=false after apply, expected true") {
				return ""
			}
		}
		return "sqlite-rebuild-destroys-a-column-that-is-excluded-or-whose-drop-is-skipped"
	}
	if !has(c.Skip, "add_column") || has(c.Skip, "drop_column") {
		return ""
	}
	for _, p := range problems {
		if !strings.Contains(p, "`schema apply` failed") || !strings.Contains(p, "no such column: extra") {
			return ""
		}
	}
	return "sqlite-rebuild-with-skipped-add-column-copies-a-column-the-old-table-lacks"
}
