package c19

// (d) the diff policy handed to the versioned-migration planner: migrate.NewPlanner(dev, dir,
// PlanWithDiffOptions(DiffSkipChanges(..))) as `migrate diff` builds it, on a real in-memory SQLite
// dev database that replays the directory, for both scopes of the planner (Plan = the whole
// database, PlanSchema = the connected schema) and every subset of five change kinds.

import (
	"context"
	"fmt"
	"strings"

	"ariga.io/atlas/sql/migrate"
	"ariga.io/atlas/sql/schema"

	"verif/sqliteh"
)

// PlannerCase: Mask selects the kinds that are switched off, Scope the planner entry point.
type PlannerCase struct {
	Mask  int    `json:"mask"`
	Scope string `json:"scope"` // realm | schema
}

var plannerKinds = []struct {
	name string
	c    schema.Change
}{
	{"*schema.DropTable", &schema.DropTable{}},
	{"*schema.DropColumn", &schema.DropColumn{}},
	{"*schema.DropIndex", &schema.DropIndex{}},
	{"*schema.AddTable", &schema.AddTable{}},
	{"*schema.AddIndex", &schema.AddIndex{}},
}

// kindsOf lists the change kinds of a plan, nested ones included, with multiplicity.
func kindsOf(p *migrate.Plan) map[string]int {
	out := map[string]int{}
	seen := map[schema.Change]bool{}
	var walk func(c schema.Change)
	walk = func(c schema.Change) {
		if c == nil || seen[c] {
			return
		}
		seen[c] = true
		out[fmt.Sprintf("%T", c)]++
		if m, ok := c.(*schema.ModifyTable); ok {
			for _, n := range m.Changes {
				walk(n)
			}
		}
	}
	for _, c := range p.Changes {
		walk(c.Source)
	}
	return out
}

func planWith(c PlannerCase, mask int) (map[string]int, string, error) {
	ctx := context.Background()
	dir := &migrate.MemDir{}
	if err := dir.WriteFile("1_init.sql", []byte(strings.Join([]string{
		"CREATE TABLE `keep` (`id` int NOT NULL, `legacy` text NULL, `v` int NULL);",
		"CREATE INDEX `keep_legacy` ON `keep` (`legacy`);",
		"CREATE TABLE `old` (`id` int NOT NULL);",
		"",
	}, "\n"))); err != nil {
		return nil, "", err
	}
	sum, err := dir.Checksum()
	if err != nil {
		return nil, "", err
	}
	if err := migrate.WriteSumFile(dir, sum); err != nil {
		return nil, "", err
	}
	// desired: old is gone, keep lost legacy (and the index over it) and got an index on v, fresh is new.
	want, err := sqliteh.Open(ctx)
	if err != nil {
		return nil, "", err
	}
	defer want.Close()
	if err := want.Exec(ctx, "CREATE TABLE `keep` (`id` int NOT NULL, `v` int NULL)", "CREATE INDEX `keep_v` ON `keep` (`v`)", "CREATE TABLE `fresh` (`id` int NOT NULL)"); err != nil {
		return nil, "", err
	}
	desired, err := want.Atlas.InspectRealm(ctx, nil)
	if err != nil {
		return nil, "", err
	}
	dev, err := sqliteh.Open(ctx)
	if err != nil {
		return nil, "", err
	}
	defer dev.Close()
	var skip []schema.Change
	for i, k := range plannerKinds {
		if mask&(1<<i) != 0 {
			skip = append(skip, k.c)
		}
	}
	var opts []migrate.PlannerOption
	if len(skip) > 0 {
		opts = append(opts, migrate.PlanWithDiffOptions(schema.DiffSkipChanges(skip...)))
	}
	pl := migrate.NewPlanner(dev.Atlas.Driver, dir, opts...)
	var plan *migrate.Plan
	if c.Scope == "realm" {
		plan, err = pl.Plan(ctx, "policy", migrate.Realm(desired))
	} else {
		plan, err = pl.PlanSchema(ctx, "policy", migrate.Realm(desired))
	}
	if err != nil {
		if err == migrate.ErrNoPlan {
			return map[string]int{}, "", nil
		}
		return nil, "", err
	}
	var stmts []string
	for _, ch := range plan.Changes {
		stmts = append(stmts, ch.Cmd)
	}
	return kindsOf(plan), strings.Join(stmts, ";\n"), nil
}

func evalPlanner(c PlannerCase) (problems []string) {
	bad := func(f string, a ...any) { problems = append(problems, fmt.Sprintf(f, a...)) }
	defer func() {
		if p := recover(); p != nil {
			bad("panic: %v", p)
		}
	}()
	kinds, stmts, err := planWith(c, c.Mask)
	if err != nil {
		return []string{"planning with the policy fails: " + err.Error()}
	}
	// what the plan does, told from the statements for whole tables (a table rebuild creates and
	// drops tables of its own) and from the nested change kinds for the rest.
	rebuild := strings.Contains(stmts, "`new_keep`")
	facts := map[string]bool{
		"*schema.DropTable":  strings.Contains(stmts, "DROP TABLE `old`"),
		"*schema.AddTable":   strings.Contains(stmts, "CREATE TABLE `fresh`"),
		"*schema.DropColumn": rebuild || strings.Contains(stmts, "DROP COLUMN `legacy`"),
		"*schema.DropIndex":  strings.Contains(stmts, "DROP INDEX `keep_legacy`"),
		"*schema.AddIndex":   strings.Contains(stmts, "CREATE INDEX `keep_v`"),
	}
	_ = kinds
	for i, k := range plannerKinds {
		off := c.Mask&(1<<i) != 0
		if rebuild && strings.HasSuffix(k.name, "Index") {
			// the table is re-created from the desired one: its indexes come and go with it (what that does
			// to a skipped index change is the rebuild finding of the CLI slice, not judged here).
			continue
		}
		switch {
		case off && facts[k.name]:
			bad("%s is switched off by the diff policy, yet the plan (scope %s) holds it:\n%s", k.name, c.Scope, stmts)
		case !off && !facts[k.name]:
			bad("%s is not switched off, yet the plan (scope %s) does not hold it:\n%s", k.name, c.Scope, stmts)
		}
	}
	return
}

func plannerCases() []PlannerCase {
	var cs []PlannerCase
	for _, scope := range []string{"realm", "schema"} {
		for mask := 0; mask < 1<<len(plannerKinds); mask++ {
			cs = append(cs, PlannerCase{mask, scope})
		}
	}
	return cs
}
