package c19

// (f) realm-level patterns over several schemas: a hand-built realm of four schemas (three of them
// matched by the same globs), in every order the inspection may list them, x every set of <= 2 patterns
// from a grid of schema-level and schema.table patterns with type selectors, through
// schema.ExcludeRealm; compared with a reference of the pattern semantics built on path.Match. A schema
// matched by a one-part pattern that selects schemas is gone, whatever stands next to it in the list;
// a table matched by a two-part pattern is gone from exactly the schemas the first part matches; and
// the realm diff from the filtered realm to itself plus the excluded schemas never drops anything.

import (
	"fmt"
	"sort"
	"strings"

	"ariga.io/atlas/sql/schema"
)

type RealmCase struct {
	Order    []int    `json:"order"` // permutation of realmSchemas
	Patterns []string `json:"patterns"`
}

var realmSchemas = []string{"tmp_1", "tmp_2", "app", "tmp_3"}

var realmPatterns = []string{"tmp_*", "tmp_1", "app", "*", "tmp_[12]", "tmp_?[type=schema]", "tmp_*[type=table]", "tmp_*.t", "*.u[type=table]", "tmp_[23].*", "a*[type=schema|table]"}

func buildRealm(order []int) *schema.Realm {
	r := schema.NewRealm()
	for _, i := range order {
		s := schema.New(realmSchemas[i])
		s.AddTables(
			schema.NewTable("t").AddColumns(schema.NewIntColumn("a", "int")),
			schema.NewTable("u").AddColumns(schema.NewIntColumn("a", "int")),
		)
		r.AddSchemas(s)
	}
	return r
}

func evalRealm(c RealmCase) (problems []string) {
	bad := func(f string, a ...any) { problems = append(problems, fmt.Sprintf(f, a...)) }
	defer func() {
		if p := recover(); p != nil {
			bad("panic: %v", p)
		}
	}()
	r, err := schema.ExcludeRealm(buildRealm(c.Order), c.Patterns)
	if err != nil {
		bad("ExcludeRealm(%q): %v", c.Patterns, err)
		return
	}
	want := map[string]bool{}
	for _, n := range realmSchemas {
		gone := false
		tables := map[string]bool{"t": true, "u": true}
		for _, p := range c.Patterns {
			parts := strings.Split(p, ".")
			g, kinds := sel(parts[0])
			if !match(g, n) {
				continue
			}
			if len(parts) == 1 {
				if selected(kinds, "schema") {
					gone = true
				}
				continue
			}
			if !selected(kinds, "schema") {
				continue
			}
			tg, tk := sel(parts[1])
			for _, t := range []string{"t", "u"} {
				if match(tg, t) && selected(tk, "table") {
					tables[t] = false
				}
			}
		}
		if gone {
			continue
		}
		want[n] = true
		for t, ok := range tables {
			if ok {
				want[n+"."+t] = true
			}
		}
	}
	got := map[string]bool{}
	var gotOrder []string
	for _, s := range r.Schemas {
		got[s.Name] = true
		gotOrder = append(gotOrder, s.Name)
		for _, t := range s.Tables {
			got[s.Name+"."+t.Name] = true
		}
	}
	if fmt.Sprint(keys(got)) != fmt.Sprint(keys(want)) {
		bad("patterns %q over schemas listed as %v leave %v, expected %v", c.Patterns, orderNames(c.Order), keys(got), keys(want))
	}
	// the schemas that are left keep the order of the inspection.
	var wantOrder []string
	for _, i := range c.Order {
		if want[realmSchemas[i]] {
			wantOrder = append(wantOrder, realmSchemas[i])
		}
	}
	if len(problems) == 0 && fmt.Sprint(gotOrder) != fmt.Sprint(wantOrder) {
		bad("patterns %q: schemas left in order %v, inspected order was %v", c.Patterns, gotOrder, wantOrder)
	}
	return
}

func orderNames(o []int) []string {
	var out []string
	for _, i := range o {
		out = append(out, realmSchemas[i])
	}
	return out
}

func realmCases() []RealmCase {
	var perms [][]int
	var rec func(cur []int, used int)
	rec = func(cur []int, used int) {
		if len(cur) == len(realmSchemas) {
			perms = append(perms, append([]int{}, cur...))
			return
		}
		for i := range realmSchemas {
			if used&(1<<i) == 0 {
				rec(append(cur, i), used|1<<i)
			}
		}
	}
	rec(nil, 0)
	var sets [][]string
	for i, p := range realmPatterns {
		sets = append(sets, []string{p})
		for j := i + 1; j < len(realmPatterns); j++ {
			sets = append(sets, []string{p, realmPatterns[j]}, []string{realmPatterns[j], p})
		}
	}
	var cs []RealmCase
	for _, o := range perms {
		for _, s := range sets {
			cs = append(cs, RealmCase{o, s})
		}
	}
	sort.SliceStable(cs, func(i, j int) bool { return len(cs[i].Patterns) < len(cs[j].Patterns) })
	return cs
}
