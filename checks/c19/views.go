package c19

// (e) views: the community SQLite inspection reports no views, so patterns over a view and its
// columns are exercised on a realm built by hand (what an HCL or SQL desired state with views is
// turned into): schema main with view v(a, b, c) and a trigger-less table t(a), every pattern
// "main.v.<child glob>" from the child-glob grid, through schema.ExcludeRealm / ExcludeSchema.

import (
	"fmt"
	"path"
	"sort"

	"ariga.io/atlas/sql/schema"
)

type ViewCase struct {
	Pattern string `json:"pattern"`
	Realm   bool   `json:"realm"`
}

func viewRealm() *schema.Realm {
	s := schema.New("main")
	v := schema.NewView("v", "SELECT 1").AddColumns(schema.NewIntColumn("a", "int"), schema.NewIntColumn("b", "int"), schema.NewIntColumn("c1", "int"))
	s.AddViews(v)
	s.AddTables(schema.NewTable("t").AddColumns(schema.NewIntColumn("a", "int")))
	return schema.NewRealm(s)
}

func evalView(c ViewCase) (problems []string) {
	bad := func(f string, a ...any) { problems = append(problems, fmt.Sprintf(f, a...)) }
	defer func() {
		if p := recover(); p != nil {
			bad("panic: %v", p)
		}
	}()
	r := viewRealm()
	var err error
	if c.Realm {
		_, err = schema.ExcludeRealm(r, []string{"main.v." + c.Pattern})
	} else {
		_, err = schema.ExcludeSchema(r.Schemas[0], []string{"v." + c.Pattern})
	}
	_, merr := path.Match(c.Pattern, "a")
	if merr != nil {
		if err == nil {
			bad("the malformed pattern %q over a view's columns was accepted (columns left: %d)", c.Pattern, len(r.Schemas[0].Views[0].Columns))
		}
		return
	}
	if err != nil {
		bad("pattern %q: %v", c.Pattern, err)
		return
	}
	var got, want []string
	for _, col := range r.Schemas[0].Views[0].Columns {
		got = append(got, col.Name)
	}
	for _, n := range []string{"a", "b", "c1"} {
		if ok, _ := path.Match(c.Pattern, n); !ok {
			want = append(want, n)
		}
	}
	sort.Strings(got)
	sort.Strings(want)
	if fmt.Sprint(got) != fmt.Sprint(want) {
		bad("pattern %q over the view's columns leaves %v, expected %v", c.Pattern, got, want)
	}
	if len(r.Schemas[0].Tables) != 1 || len(r.Schemas[0].Tables[0].Columns) != 1 {
		bad("pattern %q over view v touched table t", c.Pattern)
	}
	return
}

func viewCases() []ViewCase {
	var cs []ViewCase
	for _, p := range []string{"a", "b", "c*", "?", "*", "[ab]", "[a", "zz", "c?"} {
		cs = append(cs, ViewCase{p, true}, ViewCase{p, false})
	}
	return cs
}
