package c12

import (
	"fmt"
	"sort"
	"strconv"
	"strings"

	"verif/clih"
	"verif/engine/enum"
	"verif/engine/report"
)

// ---------- CLI slice: partial progress made by the real `migrate apply --tx-mode none`, optionally followed
// by `migrate set <that version>`, then an edit, then apply again ----------

type CLICase struct {
	N    int    `json:"n"`    // statements in the file (statement 1 creates the journal table)
	K    int    `json:"k"`    // statements applied before the failing one (1..n-1)
	Set  bool   `json:"set"`  // run `migrate set 1` between the failure and the edit
	Edit string `json:"edit"` // none | repair | tail | prefix | truncate | insert_front | grow_fail_again
	// After: an older file (version 0) is applied before; together with the edit a file whose version lies between the two (05) is added, and the second run uses
	// --exec-order non-linear: the partially applied file is then not the first file of that run.
	After bool `json:"after,omitempty"`
	// Trig: the second statement of the file is a CREATE TRIGGER ... BEGIN ...; ...; END block (one statement
	// for the SQLite scanner). Mode2: the tx-mode of the run after the edit ("" = none, like the first run).
	Trig  bool   `json:"trigger,omitempty"`
	Mode2 string `json:"mode2,omitempty"`
}

const cliTrigger = "CREATE TRIGGER trg AFTER INSERT ON journal BEGIN SELECT 1; SELECT 2; END"

func cliStmt(i int) string {
	if i == 0 {
		return "CREATE TABLE journal (sid integer NOT NULL)"
	}
	return fmt.Sprintf("INSERT INTO journal (sid) VALUES (%d)", i+1)
}

const cliFailing = "INSERT INTO no_such_table VALUES (1)"

func cliBody(stmts []string) string { return strings.Join(stmts, ";\n") + ";\n" }

func evalCLI(c CLICase) (problems []string) {
	bad := func(f string, a ...any) { problems = append(problems, fmt.Sprintf(f, a...)) }
	w, err := clih.NewWork()
	if err != nil {
		return []string{"harness: " + err.Error()}
	}
	defer w.Close()
	var orig []string
	for i := 0; i < c.N; i++ {
		orig = append(orig, cliStmt(i))
	}
	if c.Trig {
		orig[1] = cliTrigger
	}
	broken := append([]string(nil), orig...)
	broken[c.K] = cliFailing
	first := map[string]string{"1_f.sql": cliBody(broken)}
	if c.After {
		first["0_init.sql"] = "CREATE TABLE other (id integer);\n"
	}
	if err := w.WriteDir("migrations", first); err != nil {
		return []string{"harness: " + err.Error()}
	}
	dirURL, dbURL := "file://"+w.Path("migrations"), w.URL("db.sqlite")
	apply := func() clih.Result {
		return w.Run(nil, "migrate", "apply", "--dir", dirURL, "--url", dbURL, "--tx-mode", "none", "--lock-timeout", "1ms")
	}
	if r1 := apply(); r1.Exit == 0 {
		return []string{"harness: the failing statement did not fail: " + r1.String()}
	}
	revs, _ := w.Revisions("db.sqlite")
	if rv := revs["1"]; rv[0] != strconv.Itoa(c.K) {
		return []string{fmt.Sprintf("harness: expected applied=%d after the failure, revision is %v", c.K, rv)}
	}
	if c.Set {
		if rs := w.Run(nil, "migrate", "set", "1", "--dir", dirURL, "--url", dbURL); rs.Exit != 0 {
			bad("`migrate set 1` failed: %s", rs)
			return
		}
	}
	if c.Edit == "grow_fail_again" {
		// the failing statement is repaired and the unapplied tail grows by two statements, the first of
		// which fails again (exactly where the file used to end); after the second repair the rest runs.
		grown := append(append([]string(nil), orig...), cliFailing, "INSERT INTO journal (sid) VALUES (96)")
		if err := w.WriteDir("migrations", map[string]string{"1_f.sql": cliBody(grown)}); err != nil {
			return []string{"harness: " + err.Error()}
		}
		if r2 := apply(); r2.Exit == 0 || strings.Contains(r2.Stderr, "panic:") {
			bad("the grown tail holds a failing statement, yet apply did not fail cleanly: %s", r2)
			return
		}
		if rv, _ := w.Revisions("db.sqlite"); rv["1"][0] != strconv.Itoa(c.N) || rv["1"][1] != strconv.Itoa(c.N+2) {
			bad("after the second failure revision 1 is applied=%s total=%s, want applied=%d total=%d", rv["1"][0], rv["1"][1], c.N, c.N+2)
		}
		grown[c.N] = "INSERT INTO journal (sid) VALUES (97)"
		if err := w.WriteDir("migrations", map[string]string{"1_f.sql": cliBody(grown)}); err != nil {
			return []string{"harness: " + err.Error()}
		}
		r3 := apply()
		if r3.Exit != 0 {
			bad("after the second repair apply fails: %s", r3)
			return
		}
		var want []string
		for i := 1; i < c.N; i++ {
			want = append(want, strconv.Itoa(i+1))
		}
		want = append(want, "97", "96")
		after, _ := w.Query("db.sqlite", "SELECT sid FROM journal ORDER BY rowid")
		var got []string
		for _, a := range after {
			got = append(got, a[0])
		}
		if fmt.Sprint(got) != fmt.Sprint(want) {
			bad("after fail, grow + fail again, repair: journal %v, want %v (%s)", got, want, strings.TrimSpace(r3.Stdout))
		}
		if rv, _ := w.Revisions("db.sqlite"); rv["1"][0] != rv["1"][1] || rv["1"][2] != "" {
			bad("after the last run revision 1 is applied=%s total=%s error=%q", rv["1"][0], rv["1"][1], rv["1"][2])
		}
		return
	}
	// the edit
	next := append([]string(nil), orig...) // "repair": the failing statement replaced by the intended one
	prefixChanged := false
	switch c.Edit {
	case "none":
		next = broken
	case "repair":
	case "tail":
		next[c.N-1] = "INSERT INTO journal (sid) VALUES (99)"
		if c.K == c.N-1 {
			next = append(next, "INSERT INTO journal (sid) VALUES (98)")
		}
	case "prefix":
		next[c.K-1] = "INSERT INTO journal (sid) VALUES (77)"
		prefixChanged = true
	case "truncate":
		next = next[:c.K-1]
		prefixChanged = true
		if len(next) == 0 {
			return nil
		}
	case "insert_front":
		next = append([]string{"INSERT INTO journal (sid) VALUES (66)"}, next...)
		prefixChanged = true
	}
	if err := w.WriteDir("migrations", map[string]string{"1_f.sql": cliBody(next)}); err != nil {
		return []string{"harness: " + err.Error()}
	}
	if c.After {
		if err := w.WriteDir("migrations", map[string]string{"0_init.sql": "CREATE TABLE other (id integer);\n", "05_pre.sql": "INSERT INTO journal (sid) VALUES (55);\n", "1_f.sql": cliBody(next)}); err != nil {
			return []string{"harness: " + err.Error()}
		}
		const rev1 = "SELECT version, description, type, applied, total, error, error_stmt, hash, partial_hashes FROM atlas_schema_revisions WHERE version = '1'"
		before, _ := w.Query("db.sqlite", "SELECT sid FROM journal WHERE sid <> 55 ORDER BY rowid")
		revBefore, _ := w.Query("db.sqlite", rev1)
		r2 := w.Run(nil, "migrate", "apply", "--dir", dirURL, "--url", dbURL, "--tx-mode", "none", "--lock-timeout", "1ms", "--exec-order", "non-linear")
		after, _ := w.Query("db.sqlite", "SELECT sid FROM journal WHERE sid <> 55 ORDER BY rowid")
		revAfter, _ := w.Query("db.sqlite", rev1)
		out := r2.Stdout + r2.Stderr
		switch {
		case strings.Contains(out, "panic:") || strings.Contains(out, "goroutine "):
			bad("`migrate apply --exec-order non-linear` panicked: %s", r2)
		case r2.Exit == 0 || !strings.Contains(out, "history changed"):
			bad("an already applied statement was changed, yet apply (an older file ran first) did not report a changed history: %s", r2)
		}
		if fmt.Sprint(before) != fmt.Sprint(after) {
			bad("apply refused the changed history but executed statements of the file: journal %v -> %v", before, after)
		}
		if fmt.Sprint(revBefore) != fmt.Sprint(revAfter) {
			bad("apply refused the changed history but rewrote it: revision row %v -> %v", revBefore, revAfter)
		}
		return
	}
	// the recorded history as the table holds it (the time of the run and the operator's version are
	// bookkeeping of the attempt, not history).
	const rawRevs = "SELECT version, description, type, applied, total, error, error_stmt, hash, partial_hashes FROM atlas_schema_revisions ORDER BY version"
	before, _ := w.Query("db.sqlite", "SELECT sid FROM journal ORDER BY rowid")
	revsBefore, _ := w.Query("db.sqlite", rawRevs)
	// the preview decides like the real run: it refuses a changed applied part and otherwise lists
	// the unapplied tail only.
	dry := w.Run(nil, "migrate", "apply", "--dir", dirURL, "--url", dbURL, "--tx-mode", "none", "--lock-timeout", "1ms", "--dry-run")
	switch dout := dry.Stdout + dry.Stderr; {
	case strings.Contains(dry.Stderr, "panic:"):
		bad("`migrate apply --dry-run` panicked: %s", dry)
	case prefixChanged && !c.Set:
		if dry.Exit == 0 || !strings.Contains(dout, "history changed") {
			bad("an already applied statement was changed, yet `migrate apply --dry-run` did not report a changed history: %s", dry)
		}
	case !prefixChanged && c.Edit != "none" && !c.Set:
		if dry.Exit != 0 {
			bad("only the unapplied tail changed, yet `migrate apply --dry-run` fails: %s", dry)
		} else if strings.Contains(dry.Stdout, "CREATE TABLE journal") {
			bad("`migrate apply --dry-run` lists a statement that is already applied: %s", dry)
		}
	}
	var r2 clih.Result
	if c.Mode2 != "" {
		r2 = w.Run(nil, "migrate", "apply", "--dir", dirURL, "--url", dbURL, "--tx-mode", c.Mode2, "--lock-timeout", "1ms")
	} else {
		r2 = apply()
	}
	after, _ := w.Query("db.sqlite", "SELECT sid FROM journal ORDER BY rowid")
	revsAfter, _ := w.Query("db.sqlite", rawRevs)
	if strings.Contains(r2.Stderr, "panic:") {
		bad("`migrate apply` panicked: %s", r2)
		return
	}
	out := r2.Stdout + r2.Stderr
	switch {
	case prefixChanged:
		if r2.Exit == 0 || !strings.Contains(out, "history changed") {
			bad("an already applied statement was changed, yet apply did not report a changed history: %s", r2)
		}
		if fmt.Sprint(before) != fmt.Sprint(after) {
			bad("apply refused the changed history but executed statements: journal %v -> %v", before, after)
		}
		if fmt.Sprint(revsBefore) != fmt.Sprint(revsAfter) {
			bad("apply refused the changed history but rewrote it: revision rows %v -> %v", revsBefore, revsAfter)
		}
	case c.Edit == "none":
		if r2.Exit == 0 {
			bad("the failing statement is still there, yet apply exited 0: %s", r2)
		}
		if fmt.Sprint(before) != fmt.Sprint(after) {
			bad("re-running the unchanged failing file executed statements: journal %v -> %v", before, after)
		}
	default:
		if r2.Exit != 0 {
			bad("only the unapplied tail changed, yet apply fails: %s", r2)
			break
		}
		// exactly the new tail ran, once.
		var want []string
		for _, b := range before {
			want = append(want, b[0])
		}
		for _, st := range next[c.K:] {
			want = append(want, st[strings.LastIndex(st, "(")+1:strings.LastIndex(st, ")")])
		}
		var got []string
		for _, a := range after {
			got = append(got, a[0])
		}
		if fmt.Sprint(got) != fmt.Sprint(want) {
			bad("resume executed the wrong statements: journal %v, want %v", got, want)
		}
		if rv, _ := w.Revisions("db.sqlite"); rv["1"][0] != rv["1"][1] || rv["1"][2] != "" {
			bad("after the resumed run revision 1 is applied=%s total=%s error=%q", rv["1"][0], rv["1"][1], rv["1"][2])
		}
	}
	return
}

func cliCases() []CLICase {
	var cs []CLICase
	for n := 2; n <= 4; n++ {
		for k := 1; k < n; k++ {
			for _, set := range []bool{false, true} {
				for _, e := range []string{"none", "repair", "tail", "prefix", "truncate", "insert_front", "grow_fail_again"} {
					cs = append(cs, CLICase{N: n, K: k, Set: set, Edit: e})
					if !set && (e == "repair" || e == "tail" || e == "prefix") {
						for _, m2 := range []string{"all", "file"} {
							cs = append(cs, CLICase{N: n, K: k, Edit: e, Mode2: m2})
						}
						if k >= 2 {
							for _, m2 := range []string{"", "all", "file"} {
								cs = append(cs, CLICase{N: n, K: k, Edit: e, Trig: true, Mode2: m2})
							}
						}
					}
					if !set && (e == "prefix" || e == "truncate" || e == "insert_front") && !(e == "truncate" && k == 1) {
						cs = append(cs, CLICase{N: n, K: k, Edit: e, After: true})
					}
				}
			}
		}
	}
	return cs
}

// classifyCLI: with `migrate set` on the partially applied version the revision stays partial (known
// finding of C11); the resume rule then still applies, so nothing is excused here.
func runCLI(r *report.Run) int {
	defer clih.Cleanup()
	cs := cliCases()
	res := make([][]string, len(cs))
	enum.Parallel(len(cs), func(i, _ int) { res[i] = evalCLI(cs[i]) })
	idx := make([]int, len(cs))
	for i := range idx {
		idx[i] = i
	}
	sort.Ints(idx)
	for _, i := range idx {
		c := cs[i]
		r.Case(fmt.Sprintf("cli|%+v", c), c.Edit != "none")
		if len(res[i]) > 0 {
			r.Violate("", fmt.Sprintf("CLI n=%d k=%d set=%v edit=%s after=%v trigger=%v mode2=%q: %s", c.N, c.K, c.Set, c.Edit, c.After, c.Trig, c.Mode2, strings.Join(res[i], " | ")), map[string]any{"cli_case": c})
		}
	}
	return len(cs)
}
