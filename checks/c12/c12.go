// Package c12: resuming a partially applied file whose applied part changed is refused, cleanly.
package c12

import (
	"context"
	"encoding/json"
	"errors"
	"fmt"
	"reflect"
	"strings"
	"sync"
	"verif/clih"

	"ariga.io/atlas/sql/migrate"

	"verif/engine/enum"
	"verif/engine/report"
	"verif/mighelp"
)

type Case struct {
	N      int      `json:"n"`      // statements in the file
	K      int      `json:"k"`      // statements applied before the failure
	Layout int      `json:"layout"` // 0: only file, 1: middle of three files, 2: a checkpoint file between two files
	Mode   int      `json:"mode"`   // how the partial progress arose: 0 statement k+1 failed; 1 process died before statement k+1; 2 statement 1 failed, re-run, died before statement k+1
	Edit   string   `json:"edit"`
	New    []string `json:"new"` // statement list after the edit
	// Reuse: the second run is made by the SAME Executor over the SAME directory object, edited in
	// place (a long-lived process); otherwise by a fresh Executor over a fresh directory (the CLI).
	Reuse bool `json:"reuse,omitempty"`
	// Salt > 0: the statements carry a suffix, so that the digests recorded for the applied part differ
	// from case to case: the salts are enumerated until the stored digests have begun with every
	// character of the base64 alphabet (a digest must be compared whole, whatever it begins or ends with).
	Salt int `json:"salt,omitempty"`
}

// digestFirst collects, per salt, the first and last digest characters of the stored partial hashes.
var digestFirst sync.Map

var errInjected = errors.New("verif: injected failure")

type died struct{}

func old(n int) []string { return oldSalt(n, 0) }

func oldSalt(n, salt int) []string {
	s := make([]string, n)
	for i := range s {
		s[i] = fmt.Sprintf("OLD_%d", i+1)
		if salt > 0 {
			s[i] += fmt.Sprintf("_s%d", salt)
		}
	}
	return s
}

type edit struct {
	name string
	out  []string
}

func singleEdits(in []string, gen *int) []edit {
	var es []edit
	cp := func() []string { return append([]string(nil), in...) }
	fresh := func() string { *gen++; return fmt.Sprintf("NEW_%d", *gen) }
	for i := range in {
		o := cp()
		o[i] = fresh()
		es = append(es, edit{fmt.Sprintf("change@%d", i), o})
	}
	for i := 0; i <= len(in); i++ {
		o := append(append(append([]string(nil), in[:i]...), fresh()), in[i:]...)
		es = append(es, edit{fmt.Sprintf("insert@%d", i), o})
	}
	for i := range in {
		o := append(append([]string(nil), in[:i]...), in[i+1:]...)
		es = append(es, edit{fmt.Sprintf("delete@%d", i), o})
	}
	for i := 0; i+1 < len(in); i++ {
		o := cp()
		o[i], o[i+1] = o[i+1], o[i]
		es = append(es, edit{fmt.Sprintf("swap@%d", i), o})
	}
	for m := 0; m < len(in); m++ {
		es = append(es, edit{fmt.Sprintf("truncate@%d", m), cp()[:m]})
	}
	// whitespace-only re-formatting is not an edit of the statements: expressed by layout of the file (see render).
	return es
}

func render(stmts []string, style int) string {
	var b strings.Builder
	for _, s := range stmts {
		switch style {
		case 1:
			b.WriteString("-- comment\n" + s + ";\n\n")
		default:
			b.WriteString(s + ";\n")
		}
	}
	return b.String()
}

func files(c Case, target []string, style int) map[string]string {
	m := map[string]string{}
	switch c.Layout {
	case 0:
		m["2_t.sql"] = render(target, style)
	case 1:
		m["1_a.sql"] = "A_1;\nA_2;\n"
		m["2_t.sql"] = render(target, style)
		m["3_z.sql"] = "Z_1;\n"
	case 2:
		// the file is a checkpoint: a first run starts with it (1_a.sql is never executed) and a newer file follows.
		m["1_a.sql"] = "A_1;\nA_2;\n"
		m["2_t.sql"] = "-- atlas:checkpoint\n\n" + render(target, style)
		m["3_z.sql"] = "Z_1;\n"
	}
	return m
}

// eval runs one case against the real executor; returns problems and a classification key.
func eval(c Case) (problems []string, key string) {
	bad := func(f string, a ...any) { problems = append(problems, fmt.Sprintf(f, a...)) }
	ctx := context.Background()
	oldS := oldSalt(c.N, c.Salt)
	store := mighelp.NewStore()
	var execs []string
	failAt, dieAt, dead := oldS[c.K], "<none>", false
	if c.Mode != 0 {
		failAt, dieAt = "<none>", oldS[c.K]
	}
	if c.Mode == 2 {
		failAt = oldS[0]
	}
	drv := &mighelp.Driver{OnExec: func(q string) error {
		q = strings.TrimSuffix(q, ";")
		if dead {
			return errInjected
		}
		if q == dieAt {
			dead = true
			panic(died{})
		}
		if q == failAt {
			return errInjected
		}
		execs = append(execs, q)
		return nil
	}}
	store.OnWrite = func(*migrate.Revision) (bool, error) {
		if dead {
			return false, errInjected
		}
		return true, nil
	}
	runDying := func(ex *migrate.Executor) (err error) {
		defer func() {
			if p := recover(); p != nil {
				if _, ok := p.(died); !ok {
					panic(p)
				}
				err = errors.New("died")
			}
		}()
		return ex.ExecuteN(ctx, 0)
	}
	dir, err := mighelp.Dir(files(c, oldS, 0))
	if err != nil {
		return []string{"harness: " + err.Error()}, ""
	}
	ex, err := migrate.NewExecutor(drv, dir, store)
	if err != nil {
		return []string{"harness: " + err.Error()}, ""
	}
	if err := runDying(ex); err == nil {
		return []string{"harness: first run did not fail"}, ""
	}
	if c.Mode == 2 {
		failAt = "<none>"
		ex, _ = migrate.NewExecutor(drv, dir, store)
		if err := runDying(ex); err == nil || !dead {
			return []string{"harness: second preparatory run did not die"}, ""
		}
	}
	dead, dieAt = false, "<none>"
	before, ok := store.Revs["2"]
	if !ok || before.Applied != c.K || before.Total != c.N {
		return []string{fmt.Sprintf("harness: after the failing run revision is %s, want applied=%d total=%d", mighelp.RevString(before), c.K, c.N)}, ""
	}
	before = mighelp.CopyRev(before)
	if c.Salt > 0 {
		var fl []string
		for _, h := range before.PartialHashes {
			if d := strings.TrimPrefix(h, "h1:"); len(d) > 1 {
				fl = append(fl, d[:1])
			}
		}
		digestFirst.Store(c.Salt, fl)
	}
	// edit + re-hash
	dir2, err := mighelp.Dir(files(c, c.New, 0))
	if err != nil {
		return []string{"harness: " + err.Error()}, ""
	}
	if c.Reuse {
		// edit the directory object the executor already holds.
		for n, body := range files(c, c.New, 0) {
			if err := dir.WriteFile(n, []byte(body)); err != nil {
				return []string{"harness: " + err.Error()}, ""
			}
		}
		sum, err := dir.Checksum()
		if err == nil {
			err = migrate.WriteSumFile(dir, sum)
		}
		if err != nil {
			return []string{"harness: " + err.Error()}, ""
		}
		dir2 = dir
	}
	failAt = "<none>"
	execs = nil
	prefixSame := len(c.New) >= c.K && sameStrings(c.New[:c.K], oldS[:c.K])
	var rerr error
	func() {
		defer func() {
			if p := recover(); p != nil {
				bad("second run panicked: %v", p)
				rerr = fmt.Errorf("panic: %v", p)
				if len(c.New) < c.K && !prefixSame {
					key = "panic-file-shorter-than-applied"
				}
			}
		}()
		ex2 := ex
		if !c.Reuse {
			if ex2, err = migrate.NewExecutor(drv, dir2, store); err != nil {
				rerr = err
				return
			}
		}
		rerr = ex2.ExecuteN(ctx, 0)
	}()
	after := store.Revs["2"]
	if !prefixSame {
		var hc migrate.HistoryChangedError
		if !errors.As(rerr, &hc) {
			bad("applied prefix changed (old[:k]=%v new=%v) but error is %v, want HistoryChangedError", oldS[:c.K], c.New, rerr)
		}
		if len(execs) != 0 {
			bad("applied prefix changed but statements were executed: %v", execs)
		}
		if after == nil {
			bad("revision vanished")
		} else if after.Applied != before.Applied || after.Total != before.Total || !reflect.DeepEqual(after.PartialHashes, before.PartialHashes) ||
			after.Error != before.Error || after.ErrorStmt != before.ErrorStmt || after.Hash != before.Hash || after.Type != before.Type {
			bad("history not left untouched: before %s after %s", mighelp.RevString(before), mighelp.RevString(after))
		}
		if c.Layout >= 1 {
			if _, ok := store.Revs["3"]; ok {
				bad("a later file was started although the run was refused")
			}
		}
		return
	}
	// only the tail changed: resume with the new tail.
	want := append([]string(nil), c.New[c.K:]...)
	if c.Layout >= 1 {
		want = append(want, "Z_1")
	}
	if rerr != nil {
		bad("only the unapplied tail changed, yet the run failed: %v", rerr)
	}
	if !reflect.DeepEqual(execs, want) && !(len(execs) == 0 && len(want) == 0) {
		bad("resume executed %v, want %v", execs, want)
	}
	// a following run must consider the version done (ties to C11).
	execs = nil
	var perr error
	func() {
		defer func() {
			if p := recover(); p != nil {
				bad("run after the resume panicked: %v", p)
				perr = fmt.Errorf("panic: %v", p)
			}
		}()
		ex3, err := migrate.NewExecutor(drv, dir2, store)
		if err != nil {
			perr = err
			return
		}
		var fs []migrate.File
		fs, perr = ex3.Pending(ctx)
		for _, f := range fs {
			if f.Version() == "2" {
				bad("after a successful resume version 2 is still pending")
			}
		}
	}()
	if perr != nil && !errors.Is(perr, migrate.ErrNoPendingFiles) {
		bad("Pending after the resume: %v", perr)
	}
	if after != nil && rerr == nil && (after.Applied != after.Total || after.Applied != len(c.New)) {
		bad("after a successful resume the revision says applied=%d total=%d for a file of %d statements", after.Applied, after.Total, len(c.New))
		if len(c.New) != c.N {
			key = totalKey(c)
		}
	}
	if len(problems) > 0 && key == "" && len(c.New) != c.N {
		key = totalKey(c)
	}
	return
}

// sameStrings: element-wise equality (a nil and an empty slice are the same empty prefix).
func sameStrings(a, b []string) bool {
	if len(a) != len(b) {
		return false
	}
	for i := range a {
		if a[i] != b[i] {
			return false
		}
	}
	return true
}

func totalKey(c Case) string {
	if c.K == 0 {
		return "resume-after-first-statement-failure-keeps-old-total"
	}
	return "resume-with-different-statement-count-keeps-old-total"
}

func cases(tier string) []Case {
	maxN := 5
	var cs []Case
	for n := 2; n <= maxN; n++ {
		for k := 0; k < n; k++ {
			for layout := 0; layout <= 2; layout++ {
				for mode := 0; mode <= 2; mode++ {
					gen := 0
					first := singleEdits(old(n), &gen)
					for _, e := range first {
						cs = append(cs, Case{N: n, K: k, Layout: layout, Mode: mode, Edit: e.name, New: e.out})
						if mode == 0 {
							cs = append(cs, Case{N: n, K: k, Layout: layout, Mode: mode, Edit: e.name, New: e.out, Reuse: true})
						}
						if tier == "thorough" && n <= 4 {
							for _, e2 := range singleEdits(e.out, &gen) {
								cs = append(cs, Case{N: n, K: k, Layout: layout, Mode: mode, Edit: e.name + "+" + e2.name, New: e2.out})
							}
						}
					}
					cs = append(cs, Case{N: n, K: k, Layout: layout, Mode: mode, Edit: "none", New: old(n)})
				}
			}
		}
	}
	// digest alphabet: n=3, two statements applied, only file, every single edit and none, x salts.
	for salt := 1; salt <= saltN; salt++ {
		gen := 0
		for _, e := range singleEdits(oldSalt(3, salt), &gen) {
			cs = append(cs, Case{N: 3, K: 2, Edit: e.name, New: e.out, Salt: salt})
		}
		cs = append(cs, Case{N: 3, K: 2, Edit: "none", New: oldSalt(3, salt), Salt: salt})
	}
	return cs
}

const saltN = 400

func Run(r *report.Run) {
	r.Rule = "files of n<=5 distinct statements x progress k in 0..n-1 (0: the first statement failed) x origin of the partial revision {statement k+1 failed; process died before statement k+1 (no error recorded); statement 1 failed, re-run, then died before statement k+1} (revision always produced by real runs) x layout {only file, middle of 3 files, a checkpoint file between two files} x every single edit (change/insert/delete/swap at every index, truncate to every length; thorough: every pair of edits for n<=4), re-hashed, then ExecuteN on the real Executor (a fresh one over a fresh directory, and - for failed-statement progress - the same Executor over the same directory object edited in place); plus a digest-alphabet slice: n=3, k=2 x every single edit and none x 400 salted statement lists, whose stored digests begin with every character of the base64 alphabet (counted in the evidence); plus a CLI slice on a real SQLite file: n in 2..4 x k x {no / `migrate set` on the partially applied version} x edit {none, repair, tail, prefix, truncate, insert at front} (for repair, tail and prefix also: the second run under --tx-mode all / file, and a CREATE TRIGGER ... BEGIN ... END block in the applied part) with the partial revision made by the real `migrate apply --tx-mode none`: same rule, read from exit status, output and a journal table, and no panic; for the edits of the applied part also with an older applied file and a newly added file between the two, the second run using --exec-order non-linear (the partially applied file is then not the first file of the run); non-trivial = case whose edit changes the statement list; distinct = (n,k,layout,new list)"
	r.Assumptions = []string{
		"'history untouched' compares Applied, Total, PartialHashes, Error, ErrorStmt, Hash, Type; ExecutedAt/ExecutionTime/OperatorVersion are rewritten by design on every write",
		"statements are distinct tokens; the recording driver never fails during the second run",
	}
	cs := cases(r.Tier)
	kinds := map[string]int{}
	var refused, resumed int64
	res := make([][]string, len(cs))
	keys := make([]string, len(cs))
	enum.Parallel(len(cs), func(i, _ int) {
		res[i], keys[i] = eval(cs[i])
	})
	for i, c := range cs {
		r.Case(fmt.Sprintf("%d|%d|%d|%d|%v|%v", c.N, c.K, c.Layout, c.Mode, c.New, c.Reuse), c.Edit != "none")
		kinds[strings.Split(c.Edit, "@")[0]]++
		o := oldSalt(c.N, c.Salt)
		if len(c.New) >= c.K && sameStrings(c.New[:c.K], o[:c.K]) {
			resumed++
		} else {
			refused++
		}
		if len(res[i]) > 0 {
			p2, _ := eval(c)
			if strings.Join(p2, "|") != strings.Join(res[i], "|") {
				r.Violate("", "NONDETERMINISTIC HARNESS", c)
				continue
			}
			r.Violate(keys[i], fmt.Sprintf("n=%d k=%d layout=%d mode=%d edit=%s new=%v: %s", c.N, c.K, c.Layout, c.Mode, c.Edit, c.New, strings.Join(res[i], " | ")), c)
		}
		if c.N == 3 && c.K == 2 && c.Layout == 0 && (strings.HasPrefix(c.Edit, "swap") || strings.HasPrefix(c.Edit, "truncate")) {
			r.Sample(c)
		}
	}
	firsts := map[string]bool{}
	digestFirst.Range(func(_, v any) bool {
		for _, f := range v.([]string) {
			firsts[f] = true
		}
		return true
	})
	r.Set("salted_statement_lists", saltN)
	r.Set("distinct_first_characters_of_stored_digests", len(firsts))
	ncli := runCLI(r)
	r.Set("cli_cases", ncli)
	r.Set("cases_expected_refused", refused)
	r.Set("cases_expected_resumed", resumed)
	r.Set("states", len(cs)+ncli)
	r.Set("transitions", len(cs)*3+ncli*3)
	r.Set("traces_validated_against_impl", len(cs)+ncli)
}

func Replay(r *report.Run, raw json.RawMessage) {
	var v struct{ Case Case }
	if err := json.Unmarshal(raw, &v); err != nil {
		r.Violate("", "bad replay file: "+err.Error(), nil)
		return
	}
	r.Case("a", true)
	r.Case("b", true)
	var cv struct {
		Case struct {
			C *CLICase `json:"cli_case"`
		}
	}
	if json.Unmarshal(raw, &cv) == nil && cv.Case.C != nil {
		defer clih.Cleanup()
		if p := evalCLI(*cv.Case.C); len(p) > 0 {
			r.Violate("", strings.Join(p, " | "), map[string]any{"cli_case": cv.Case.C})
		}
		return
	}
	p, key := eval(v.Case)
	if len(p) > 0 {
		r.Violate(key, strings.Join(p, " | "), v.Case)
	}
}
