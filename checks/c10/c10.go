// Package c10: `migrate apply` is crash-consistent at every point, per transaction mode.
package c10

import (
	"encoding/json"
	"fmt"
	"os"
	"sort"
	"strconv"
	"strings"
	"sync"
	"time"

	"verif/clih"
	"verif/engine/enum"
	"verif/engine/report"
)

type fileSpec struct {
	N      int    `json:"n"`                // statements
	TxMode string `json:"txmode,omitempty"` // per-file atlas:txmode directive
	Ck     bool   `json:"checkpoint,omitempty"` // atlas:checkpoint file
	// Sep: the line between the directive header and the first statement: "" = empty, "blanks" =
	// a line holding a space and a tab only (what an editor leaves behind), "crlf" = the whole file
	// is saved with CR LF line endings; "delim" = the file's first line is `-- atlas:delimiter \n\n`
	// and its statements are separated by blank lines instead of semicolons (the directive holds
	// for this file only).
	Sep string `json:"sep,omitempty"`
}

// start is the index of the file a first run on an empty database starts from: the latest checkpoint,
// or the first file. Files before it are never executed and get no revision.
func start(shape []fileSpec) int {
	st := 0
	for f, fs := range shape {
		if fs.Ck {
			st = f
		}
	}
	return st
}

type Case struct {
	Mode  string     `json:"tx_mode"`
	Shape []fileSpec `json:"shape"`
	Point string     `json:"crash_point"` // name:occurrence
	// Format: "" = an Atlas directory; otherwise the directory is written in another tool's layout and
	// opened with ?format=<Format> (plain shapes only: directives are an Atlas-format notion).
	Format string `json:"format,omitempty"`
}

func sid(f, i int) int { return (f+1)*10 + i + 1 }

// filesFormat renders a plain shape in another tool's directory layout.
func filesFormat(shape []fileSpec, format string) map[string]string {
	if format == "" {
		return files(shape)
	}
	out := map[string]string{}
	for f, fs := range shape {
		var b strings.Builder
		for i := 0; i < fs.N; i++ {
			if f == 0 && i == 0 {
				b.WriteString("CREATE TABLE IF NOT EXISTS journal (sid integer NOT NULL);\n")
				continue
			}
			fmt.Fprintf(&b, "INSERT INTO journal (sid) VALUES (%d);\n", sid(f, i))
		}
		switch format {
		case "golang-migrate":
			out[fmt.Sprintf("%d_f.up.sql", f+1)] = b.String()
			out[fmt.Sprintf("%d_f.down.sql", f+1)] = "DELETE FROM journal;\n"
		case "goose":
			out[fmt.Sprintf("%d_f.sql", f+1)] = "-- +goose Up\n" + b.String() + "\n-- +goose Down\nDELETE FROM journal;\n"
		case "dbmate":
			out[fmt.Sprintf("%d_f.sql", f+1)] = "-- migrate:up\n" + b.String() + "\n-- migrate:down\nDELETE FROM journal;\n"
		case "flyway":
			out[fmt.Sprintf("V%d__f.sql", f+1)] = b.String()
		}
	}
	return out
}

func files(shape []fileSpec) map[string]string {
	out := map[string]string{}
	st := start(shape)
	for f, fs := range shape {
		var b strings.Builder
		if fs.Sep == "delim" {
			b.WriteString("-- atlas:delimiter \\n\\n\n")
		}
		if fs.Ck {
			b.WriteString("-- atlas:checkpoint\n")
		}
		if fs.TxMode != "" {
			b.WriteString("-- atlas:txmode " + fs.TxMode + "\n")
		}
		if fs.Ck || fs.TxMode != "" {
			if fs.Sep == "blanks" {
				b.WriteString(" \t")
			}
			b.WriteString("\n")
		}
		for i := 0; i < fs.N; i++ {
			if f == st && i == 0 {
				b.WriteString("CREATE TABLE IF NOT EXISTS journal (sid integer NOT NULL);\n")
				continue
			}
			fmt.Fprintf(&b, "INSERT INTO journal (sid) VALUES (%d);\n", sid(f, i))
		}
		out[fmt.Sprintf("%d_f.sql", f+1)] = b.String()
		if fs.Sep == "delim" {
			out[fmt.Sprintf("%d_f.sql", f+1)] = strings.ReplaceAll(b.String(), ";\n", "\n\n")
			if !fs.Ck && fs.TxMode == "" {
				out[fmt.Sprintf("%d_f.sql", f+1)] = strings.Replace(out[fmt.Sprintf("%d_f.sql", f+1)], "\\n\\n\n", "\\n\\n\n\n", 1)
			}
		}
		if fs.Sep == "crlf" {
			out[fmt.Sprintf("%d_f.sql", f+1)] = strings.ReplaceAll(b.String(), "\n", "\r\n")
		}
	}
	return out
}

// effective transaction mode of a file.
func modeOf(mode string, fs fileSpec) string {
	if fs.TxMode != "" {
		return fs.TxMode
	}
	return mode
}

type state struct {
	start int
	table bool
	sids  map[int]int
	revs  map[string][3]string
}

func read(w *clih.Work, shape []fileSpec) (*state, error) {
	s := &state{sids: map[int]int{}, start: start(shape)}
	if _, err := os.Stat(w.Path("db.sqlite")); err != nil {
		return s, nil
	}
	t, err := w.Query("db.sqlite", "SELECT name FROM sqlite_master WHERE type='table' AND name='journal'")
	if err != nil {
		return nil, err
	}
	if len(t) == 1 {
		s.table = true
		rows, err := w.Query("db.sqlite", "SELECT sid FROM journal")
		if err != nil {
			return nil, err
		}
		for _, r := range rows {
			n, _ := strconv.Atoi(r[0])
			s.sids[n]++
		}
	}
	s.revs, err = w.Revisions("db.sqlite")
	return s, err
}

// present reports whether the effect of statement (f,i) is in the database.
func (s *state) present(f, i int) bool {
	if f == s.start && i == 0 {
		return s.table
	}
	return s.sids[sid(f, i)] > 0
}

func apply(w *clih.Work, mode, format string, env []string) clih.Result {
	dir := "file://" + w.Path("migrations")
	if format != "" {
		dir += "?format=" + format
	}
	return w.Run(env, "migrate", "apply", "--dir", dir, "--url", w.URL("db.sqlite"), "--tx-mode", mode, "--lock-timeout", "1ms")
}

// Points returns the crash points of the crash-free run of a shape, in order.
func Points(mode, format string, shape []fileSpec) ([]string, string) {
	w, err := clih.NewWork()
	if err != nil {
		return nil, err.Error()
	}
	defer w.Close()
	if err := w.WriteDirFormat("migrations", format, filesFormat(shape, format)); err != nil {
		return nil, err.Error()
	}
	log := w.Path("points.log")
	res := apply(w, mode, format, []string{"VERIF_POINT_LOG=" + log})
	if res.Exit != 0 {
		return nil, "crash-free run failed: " + res.String()
	}
	b, _ := os.ReadFile(log)
	var out []string
	for _, l := range strings.Split(strings.TrimSpace(string(b)), "\n") {
		if l != "" {
			out = append(out, l)
		}
	}
	return out, ""
}

type Result struct {
	Problems []string
	Skipped  string
	Dup      int
}

func Eval(c Case) (res Result) {
	bad := func(f string, a ...any) { res.Problems = append(res.Problems, fmt.Sprintf(f, a...)) }
	w, err := clih.NewWork()
	if err != nil {
		bad("harness: %v", err)
		return
	}
	defer w.Close()
	if err := w.WriteDirFormat("migrations", c.Format, filesFormat(c.Shape, c.Format)); err != nil {
		bad("harness: %v", err)
		return
	}
	r1 := apply(w, c.Mode, c.Format, []string{"VERIF_CRASH_AT=" + c.Point})
	if r1.Exit != 137 {
		res.Skipped = "crash point not reached: " + r1.String()
		return
	}
	s1, err := read(w, c.Shape)
	if err != nil {
		bad("harness: reading state after the crash: %v", err)
		return
	}
	// --- after the crash ---
	allPresent, nonePresent := true, true
	st := start(c.Shape)
	untouched := func(s *state, when string) {
		for f := 0; f < st; f++ {
			for i := 0; i < c.Shape[f].N; i++ {
				if s.sids[sid(f, i)] > 0 {
					bad("%s statement %d of file %d, which precedes the latest checkpoint, was executed", when, i+1, f+1)
				}
			}
			if _, ok := s.revs[strconv.Itoa(f+1)]; ok {
				bad("%s there is a revision for file %d, which precedes the latest checkpoint", when, f+1)
			}
		}
	}
	untouched(s1, "after the crash")
	for f, fs := range c.Shape {
		if f < st {
			continue
		}
		all, none := true, true
		prefix := 0
		for i := 0; i < fs.N; i++ {
			if s1.present(f, i) {
				none = false
				if prefix == i {
					prefix = i + 1
				}
			} else {
				all = false
			}
		}
		allPresent, nonePresent = allPresent && all, nonePresent && none
		if m := modeOf(c.Mode, fs); m != "none" && !all && !none {
			bad("after the crash file %d is half applied in %s mode (statements present: %v)", f+1, m, presentList(s1, f, fs.N))
		}
		if rv, ok := s1.revs[strconv.Itoa(f+1)]; ok {
			applied, _ := strconv.Atoi(rv[0])
			if applied > prefix {
				bad("after the crash revision %d records applied=%d but only the first %d statements took effect", f+1, applied, prefix)
			}
		}
	}
	if c.Mode == "all" && !allPresent && !nonePresent {
		bad("after the crash the directory is partly applied in all mode")
	}
	// --- the same command again ---
	if strings.HasPrefix(c.Point, "lock.") {
		// the lock file of the killed process is what is under test: it stays, and expires (1ms).
		time.Sleep(20 * time.Millisecond)
	} else {
		w.ClearLocks()
	}
	r2 := apply(w, c.Mode, c.Format, nil)
	if r2.Exit != 0 {
		bad("re-running the command after the crash fails: %s", r2.String())
		return
	}
	s2, err := read(w, c.Shape)
	if err != nil {
		bad("harness: reading state after the re-run: %v", err)
		return
	}
	dups := 0
	untouched(s2, "after the re-run")
	for f, fs := range c.Shape {
		if f < st {
			continue
		}
		for i := 0; i < fs.N; i++ {
			if !s2.present(f, i) {
				bad("after the re-run statement %d of file %d has no effect (lost)", i+1, f+1)
			}
			if f == st && i == 0 {
				continue
			}
			n := s2.sids[sid(f, i)]
			switch {
			case n > 2:
				bad("statement %d of file %d executed %d times", i+1, f+1, n)
			case n == 2:
				dups++
				if modeOf(c.Mode, fs) != "none" {
					bad("statement %d of file %d executed twice in %s mode", i+1, f+1, modeOf(c.Mode, fs))
				}
			}
		}
		rv, ok := s2.revs[strconv.Itoa(f+1)]
		if !ok {
			bad("after the re-run there is no revision for file %d", f+1)
		} else if rv[0] != strconv.Itoa(fs.N) || rv[1] != strconv.Itoa(fs.N) || rv[2] != "" {
			bad("after the re-run revision %d is applied=%s total=%s error=%q", f+1, rv[0], rv[1], rv[2])
		}
	}
	if dups > 1 {
		bad("%d statements were executed twice; at most the one in flight may be", dups)
	}
	res.Dup = dups
	return
}

func presentList(s *state, f, n int) []int {
	var out []int
	for i := 0; i < n; i++ {
		if s.present(f, i) {
			out = append(out, i+1)
		}
	}
	return out
}

func shapes(tier string) [][]fileSpec {
	q := [][]fileSpec{
		{{N: 2}},
		{{N: 2}, {N: 1}},
		{{N: 1}, {N: 3}},
		{{N: 2}, {N: 3, TxMode: "none"}},
		// a per-file directive on a file that is NOT the last one: it must not leak into the files after it.
		{{N: 1, TxMode: "none"}, {N: 2}},
		{{N: 1, TxMode: "file"}, {N: 2}},
		// the header is detached from the statements by a line of blanks.
		{{N: 1}, {N: 3, TxMode: "file", Sep: "blanks"}},
		{{N: 2, TxMode: "none", Sep: "blanks"}, {N: 1}},
		{{N: 1}, {N: 3, TxMode: "file", Sep: "crlf"}},
		{{N: 1}, {N: 2, Ck: true, Sep: "crlf"}, {N: 1}},
		// checkpoints: a first run starts at the latest one; an older checkpoint and files follow it.
		{{N: 1, Ck: true}, {N: 2, Ck: true}, {N: 1}, {N: 1}},
		// a delimiter directive holds for its own file only.
		{{N: 2, Sep: "delim"}, {N: 2}},
		{{N: 1}, {N: 2, Sep: "delim"}, {N: 2}},
	}
	if tier != "thorough" {
		return q
	}
	return append(q, [][]fileSpec{
		{{N: 1}}, {{N: 3}}, {{N: 1}, {N: 1}}, {{N: 2}, {N: 2}}, {{N: 3}, {N: 3}}, {{N: 1}, {N: 1}, {N: 1}}, {{N: 2}, {N: 1}, {N: 2}},
		{{N: 2, TxMode: "none"}, {N: 2}}, {{N: 2}, {N: 2, TxMode: "file"}}, {{N: 3}, {N: 4}},
		{{N: 1}, {N: 2, Ck: true}, {N: 2}}, {{N: 2, Ck: true}}, {{N: 1}, {N: 1, Ck: true}, {N: 1}, {N: 3, Ck: true}, {N: 1}},
		{{N: 1, Ck: true}, {N: 1}, {N: 3, Ck: true, TxMode: "none"}, {N: 2}, {N: 1}},
	}...)
}

func formats(tier string) []string {
	if tier != "thorough" {
		return []string{"golang-migrate", "goose"}
	}
	return []string{"golang-migrate", "goose", "flyway", "dbmate"}
}

func Run(r *report.Run) {
	defer clih.Cleanup()
	r.Rule = "real CLI binary (built with -tags verif) on a real SQLite file: tx-mode {file, all, none} x directory shapes (1-5 files x 1-4 statements, per-file txmode directives (header detached by an empty line, by a line of blanks, or in a file saved with CR LF line endings), a file with a delimiter directive of its own followed by plain files, checkpoint files incl. two checkpoints with files after the latest; plain shapes also as golang-migrate / goose / flyway / dbmate directories opened with ?format=; statements INSERT their own id into a journal table) x every crash point reached by the crash-free run of that shape (stmt.before/after, rev.before/after, commit.before/after, commitall.before/after, lock.created/written - discovered by a counting run, so complete by construction) ; the process is killed (exit 137, no deferred code) and the same command is run again; states read by our own SQLite connection; non-trivial = case whose crash point was reached; distinct = (mode, format, shape, point)"
	r.Assumptions = []string{
		"the re-run happens after the advisory lock of the killed process expired (--lock-timeout 1ms and stale lock files removed)",
		"SQLite's own journal recovery is trusted; the first statement is CREATE TABLE IF NOT EXISTS so that re-executing the in-flight statement in none mode is possible at all",
		"txmode directives that conflict with --tx-mode all are rejected by the CLI and not enumerated",
	}
	var cases []Case
	var mu sync.Mutex
	type sm struct {
		mode   string
		shape  []fileSpec
		format string
	}
	var sms []sm
	for _, mode := range []string{"file", "all", "none"} {
		for _, sh := range shapes(r.Tier) {
			conflict := false
			for _, f := range sh {
				if mode == "all" && f.TxMode != "" {
					conflict = true
				}
			}
			if !conflict {
				sms = append(sms, sm{mode, sh, ""})
			}
		}
		// the same guarantee for directories of the other tools' formats (their files are not
		// *migrate.LocalFile values for the CLI's transaction multiplexer).
		for _, format := range formats(r.Tier) {
			for _, sh := range [][]fileSpec{{{N: 3}}, {{N: 2}, {N: 2}}} {
				sms = append(sms, sm{mode, sh, format})
			}
		}
	}
	pointsTotal := map[string]int{}
	enum.Parallel(len(sms), func(i, _ int) {
		pts, errS := Points(sms[i].mode, sms[i].format, sms[i].shape)
		mu.Lock()
		defer mu.Unlock()
		if errS != "" {
			r.Violate("", fmt.Sprintf("mode=%s format=%q shape=%v: %s", sms[i].mode, sms[i].format, sms[i].shape, errS), Case{sms[i].mode, sms[i].shape, "", sms[i].format})
			return
		}
		for _, p := range pts {
			cases = append(cases, Case{sms[i].mode, sms[i].shape, p, sms[i].format})
			pointsTotal[strings.Split(p, ":")[0]]++
		}
	})
	sort.Slice(cases, func(i, j int) bool { return fmt.Sprint(cases[i]) < fmt.Sprint(cases[j]) })
	dupCases := 0
	enum.Parallel(len(cases), func(i, _ int) {
		res := Eval(cases[i])
		c := cases[i]
		r.Case(fmt.Sprint(c), res.Skipped == "")
		mu.Lock()
		if res.Dup > 0 {
			dupCases++
		}
		mu.Unlock()
		if res.Skipped != "" {
			r.Violate("", fmt.Sprintf("mode=%s format=%q shape=%v point=%s: %s", c.Mode, c.Format, c.Shape, c.Point, res.Skipped), c)
		}
		if len(res.Problems) > 0 {
			r.Violate("", fmt.Sprintf("mode=%s format=%q shape=%v point=%s: %s", c.Mode, c.Format, c.Shape, c.Point, strings.Join(res.Problems, " | ")), c)
		}
		if c.Mode == "none" && c.Point == "stmt.after:3" && len(c.Shape) == 2 {
			r.Sample(c)
		}
	})
	r.Set("crash_points_by_name", pointsTotal)
	r.Set("mode_shape_combinations", len(sms))
	r.Set("cases_with_one_statement_executed_twice", dupCases)
	r.Set("cli_invocations", len(sms)+2*len(cases))
}

func Replay(r *report.Run, raw json.RawMessage) {
	defer clih.Cleanup()
	var v struct{ Case Case }
	if err := json.Unmarshal(raw, &v); err != nil {
		r.Violate("", "bad replay file: "+err.Error(), nil)
		return
	}
	res := Eval(v.Case)
	fmt.Printf("  case %+v skipped=%q dup=%d\n", v.Case, res.Skipped, res.Dup)
	r.Case("a", true)
	r.Case("b", true)
	if len(res.Problems) > 0 {
		r.Violate("", strings.Join(res.Problems, " | "), v.Case)
	}
}
