// Package clih drives the real atlas CLI binary (built from /repo with -tags verif) in private
// scratch directories and reads SQLite files through our own connection.
package clih

import (
	"bytes"
	"context"
	"database/sql"
	"errors"
	"fmt"
	"os"
	"os/exec"
	"path/filepath"
	"sort"
	"strings"
	"sync"
	"sync/atomic"
	"time"

	"ariga.io/atlas/sql/migrate"
	"ariga.io/atlas/sql/sqltool"

	_ "github.com/mattn/go-sqlite3"

	"verif/engine/report"
)

// Bin is the CLI binary.
func Bin() string {
	if b := os.Getenv("VERIF_ATLAS"); b != "" {
		return b
	}
	return filepath.Join(report.Root, "bin", "atlas")
}

func home() string {
	if b := os.Getenv("VERIF_HOME"); b != "" {
		return b
	}
	return "/verif"
}

func init() {
	// the binary always lives under the real /verif, even when evidence is redirected.
	if _, err := os.Stat(Bin()); err != nil {
		os.Setenv("VERIF_ATLAS", filepath.Join(home(), "bin", "atlas"))
	}
}

var seq atomic.Int64

// ScratchRoot is the per-process scratch directory (removed by Cleanup).
func ScratchRoot() string {
	r := os.Getenv("VERIF_SCRATCH")
	if r == "" {
		r = "/var/tmp"
	}
	return filepath.Join(r, fmt.Sprintf("verif-%d", os.Getpid()))
}

func Cleanup() { os.RemoveAll(ScratchRoot()) }

// Work is one private working directory.
type Work struct {
	Dir string
}

func NewWork() (*Work, error) {
	d := filepath.Join(ScratchRoot(), fmt.Sprintf("w%d", seq.Add(1)))
	if err := os.MkdirAll(filepath.Join(d, "tmp"), 0o755); err != nil {
		return nil, err
	}
	return &Work{Dir: d}, nil
}

func (w *Work) Close() { os.RemoveAll(w.Dir) }

func (w *Work) Path(parts ...string) string {
	return filepath.Join(append([]string{w.Dir}, parts...)...)
}

// Panic is a CLI invocation that ended in a Go panic: a violation of every property.
type Panic struct {
	Args   []string `json:"args"`
	Stderr string   `json:"stderr"`
}

var (
	panicMu sync.Mutex
	panics  []Panic
)

// TakePanics returns (and forgets) the panics seen since the last call.
func TakePanics() []Panic {
	panicMu.Lock()
	defer panicMu.Unlock()
	p := panics
	panics = nil
	return p
}

// Result of one CLI invocation.
type Result struct {
	Stdout, Stderr string
	Exit           int
}

func (r Result) String() string {
	return fmt.Sprintf("exit=%d stdout=%q stderr=%q", r.Exit, trunc(r.Stdout), trunc(r.Stderr))
}

func trunc(s string) string {
	if len(s) > 600 {
		return s[:600] + "..."
	}
	return s
}

// Run invokes the CLI with a private TMPDIR/HOME. extraEnv entries are KEY=VALUE.
func (w *Work) Run(extraEnv []string, args ...string) Result { return w.RunStdin("", extraEnv, args...) }

// RunStdin is Run with the given text on the command's standard input (e.g. the answer to a prompt).
func (w *Work) RunStdin(stdin string, extraEnv []string, args ...string) Result {
	ctx, cancel := context.WithTimeout(context.Background(), 60*time.Second)
	defer cancel()
	cmd := exec.CommandContext(ctx, Bin(), args...)
	cmd.Dir = w.Dir
	cmd.Env = append([]string{
		"PATH=/usr/bin:/bin",
		"HOME=" + w.Dir,
		"TMPDIR=" + w.Path("tmp"),
		"ATLAS_NO_UPDATE_NOTIFIER=1", "ATLAS_NO_UPGRADE_SUGGESTIONS=1", "NO_COLOR=1",
	}, extraEnv...)
	var so, se bytes.Buffer
	cmd.Stdout, cmd.Stderr = &so, &se
	if stdin != "" {
		cmd.Stdin = strings.NewReader(stdin)
	}
	err := cmd.Run()
	res := Result{Stdout: so.String(), Stderr: se.String()}
	var ee *exec.ExitError
	switch {
	case err == nil:
	case errors.As(err, &ee):
		res.Exit = ee.ExitCode()
	default:
		res.Exit = -1
		res.Stderr += "\nexec: " + err.Error()
	}
	if strings.Contains(res.Stderr, "panic:") && strings.Contains(res.Stderr, "goroutine ") {
		panicMu.Lock()
		panics = append(panics, Panic{Args: args, Stderr: trunc(res.Stderr)})
		panicMu.Unlock()
	}
	if ctx.Err() != nil {
		res.Exit = -2
		res.Stderr += "\nTIMEOUT after 60s"
	}
	return res
}

// ClearLocks removes stale advisory lock files left by a killed process.
func (w *Work) ClearLocks() {
	m, _ := filepath.Glob(w.Path("tmp", "*.lock"))
	for _, f := range m {
		os.Remove(f)
	}
}

// WriteDir writes migration files and a valid atlas.sum into sub.
func (w *Work) WriteDir(sub string, files map[string]string) error {
	p := w.Path(sub)
	os.RemoveAll(p)
	if err := os.MkdirAll(p, 0o755); err != nil {
		return err
	}
	for n, c := range files {
		if err := os.WriteFile(filepath.Join(p, n), []byte(c), 0o644); err != nil {
			return err
		}
	}
	return Rehash(p)
}

// WriteDirFormat is WriteDir for a directory of another tool's format (opened by the CLI with
// ?format=<format>); the sum file is the one that format's directory type computes.
func (w *Work) WriteDirFormat(sub, format string, files map[string]string) error {
	if format == "" {
		return w.WriteDir(sub, files)
	}
	p := w.Path(sub)
	os.RemoveAll(p)
	if err := os.MkdirAll(p, 0o755); err != nil {
		return err
	}
	for n, c := range files {
		if err := os.WriteFile(filepath.Join(p, n), []byte(c), 0o644); err != nil {
			return err
		}
	}
	var (
		d   migrate.Dir
		err error
	)
	switch format {
	case "golang-migrate":
		d, err = sqltool.NewGolangMigrateDir(p)
	case "goose":
		d, err = sqltool.NewGooseDir(p)
	case "flyway":
		d, err = sqltool.NewFlywayDir(p)
	case "dbmate":
		d, err = sqltool.NewDBMateDir(p)
	case "liquibase":
		d, err = sqltool.NewLiquibaseDir(p)
	default:
		return fmt.Errorf("unknown directory format %q", format)
	}
	if err != nil {
		return err
	}
	sum, err := d.Checksum()
	if err != nil {
		return err
	}
	return migrate.WriteSumFile(d, sum)
}

// Rehash recomputes atlas.sum with the library (not through the CLI under test paths).
func Rehash(p string) error {
	d, err := migrate.NewLocalDir(p)
	if err != nil {
		return err
	}
	sum, err := d.Checksum()
	if err != nil {
		return err
	}
	return migrate.WriteSumFile(d, sum)
}

// ReadDir returns name -> bytes of every regular file in sub.
func (w *Work) ReadDir(sub string) map[string]string {
	out := map[string]string{}
	es, _ := os.ReadDir(w.Path(sub))
	for _, e := range es {
		if e.IsDir() {
			continue
		}
		b, _ := os.ReadFile(w.Path(sub, e.Name()))
		out[e.Name()] = string(b)
	}
	return out
}

// URL returns the sqlite URL of a database file in the work dir.
func (w *Work) URL(name string) string {
	return "sqlite://" + w.Path(name) + "?_fk=1"
}

// Query runs a query on a database file with our own connection.
func (w *Work) Query(name, q string, args ...any) ([][]string, error) {
	db, err := sql.Open("sqlite3", "file:"+w.Path(name)+"?_fk=1")
	if err != nil {
		return nil, err
	}
	defer db.Close()
	rows, err := db.Query(q, args...)
	if err != nil {
		return nil, err
	}
	defer rows.Close()
	cols, _ := rows.Columns()
	var out [][]string
	for rows.Next() {
		vals := make([]sql.NullString, len(cols))
		ptrs := make([]any, len(cols))
		for i := range vals {
			ptrs[i] = &vals[i]
		}
		if err := rows.Scan(ptrs...); err != nil {
			return nil, err
		}
		r := make([]string, len(cols))
		for i, v := range vals {
			r[i] = v.String
			if !v.Valid {
				r[i] = "\x00NULL"
			}
		}
		out = append(out, r)
	}
	return out, rows.Err()
}

// HoldReadLock opens a read transaction on a database file with our own connection and keeps it
// (a SHARED lock: others may read and prepare writes, but no COMMIT gets through) until release.
func (w *Work) HoldReadLock(name string) (release func(), err error) {
	db, err := sql.Open("sqlite3", "file:"+w.Path(name))
	if err != nil {
		return nil, err
	}
	db.SetMaxOpenConns(1)
	tx, err := db.Begin()
	if err != nil {
		db.Close()
		return nil, err
	}
	var n int
	if err := tx.QueryRow("SELECT count(*) FROM sqlite_master").Scan(&n); err != nil {
		tx.Rollback()
		db.Close()
		return nil, err
	}
	return func() { tx.Rollback(); db.Close() }, nil
}

// Exec runs statements on a database file with our own connection.
func (w *Work) Exec(name string, stmts ...string) error {
	db, err := sql.Open("sqlite3", "file:"+w.Path(name)+"?_fk=1")
	if err != nil {
		return err
	}
	defer db.Close()
	for _, s := range stmts {
		if _, err := db.Exec(s); err != nil {
			return fmt.Errorf("%w (%s)", err, s)
		}
	}
	return nil
}

// Dump is a full logical dump of a database file: sqlite_master rows and every row of every table,
// with the clock-dependent revision columns masked.
func (w *Work) Dump(name string) (string, error) {
	if _, err := os.Stat(w.Path(name)); err != nil {
		return "<no database file>", nil
	}
	var b strings.Builder
	master, err := w.Query(name, "SELECT type, name, tbl_name, sql FROM sqlite_master ORDER BY type, name")
	if err != nil {
		return "", err
	}
	for _, r := range master {
		fmt.Fprintf(&b, "master %s\n", strings.Join(r, "|"))
	}
	for _, r := range master {
		if r[0] != "table" {
			continue
		}
		t := r[1]
		cols, err := w.Query(name, fmt.Sprintf("SELECT name FROM pragma_table_info(%q)", t))
		if err != nil {
			return "", err
		}
		var sel []string
		for _, c := range cols {
			switch {
			case t == "atlas_schema_revisions" && (c[0] == "executed_at" || c[0] == "execution_time"):
				sel = append(sel, "'<masked>'")
			default:
				sel = append(sel, fmt.Sprintf("quote(%q)", c[0]))
			}
		}
		rows, err := w.Query(name, fmt.Sprintf("SELECT %s FROM %q", strings.Join(sel, ", "), t))
		if err != nil {
			return "", err
		}
		var lines []string
		for _, row := range rows {
			lines = append(lines, "row "+t+" "+strings.Join(row, "|"))
		}
		sort.Strings(lines)
		for _, l := range lines {
			b.WriteString(l + "\n")
		}
	}
	return b.String(), nil
}

// Revisions returns version -> (applied, total, error) of the revision table, or nil if absent.
func (w *Work) Revisions(name string) (map[string][3]string, error) {
	if _, err := os.Stat(w.Path(name)); err != nil {
		return nil, nil
	}
	t, err := w.Query(name, "SELECT name FROM sqlite_master WHERE type='table' AND name='atlas_schema_revisions'")
	if err != nil || len(t) == 0 {
		return nil, err
	}
	rows, err := w.Query(name, "SELECT version, applied, total, coalesce(error, '') FROM atlas_schema_revisions")
	if err != nil {
		return nil, err
	}
	out := map[string][3]string{}
	for _, r := range rows {
		out[r[0]] = [3]string{r[1], r[2], r[3]}
	}
	return out, nil
}
