// Package report collects coverage counters, violations and known findings
// for one check run and writes /verif/evidence/<id>.json.
package report

import (
	"bufio"
	"encoding/json"
	"fmt"
	"hash/fnv"
	"os"
	"path/filepath"
	"sort"
	"strconv"
	"sync"
	"sync/atomic"
	"time"
)

// Root is /verif (overridable for tests).
var Root = func() string {
	if v := os.Getenv("VERIF_ROOT"); v != "" {
		return v
	}
	return "/verif"
}()

// ReplayMode: evidence and replay files are not rewritten.
var ReplayMode bool

type Violation struct {
	Key  string `json:"finding_key,omitempty"` // classification by a predicate on the case ("" = unclassified)
	Msg  string `json:"msg"`
	Case any    `json:"case"`
}

type Finding struct {
	Property string `json:"property"`
	Key      string `json:"key"`
	What     string `json:"what"`
	Fixed    string `json:"fixed,omitempty"` // commit; a fixed entry suppresses nothing
}

type Run struct {
	ID    string
	Tier  string
	Seed  int64
	Level string

	Rule        string
	Assumptions []string
	Exhaustive  bool
	Extra       map[string]any

	start time.Time
	evals atomic.Int64
	nontr atomic.Int64

	mu       sync.Mutex
	distinct map[uint64]struct{}
	samples  []any
	maxSamp  int
	viol     []Violation
	knownHit map[string]int
	known    map[string]Finding
	counters map[string]int64
	deadline time.Time
}

func New(id, level, tier string) *Run {
	r := &Run{ID: id, Tier: tier, Level: level, start: time.Now(), Exhaustive: true,
		distinct: map[uint64]struct{}{}, maxSamp: 5, knownHit: map[string]int{}, known: map[string]Finding{},
		counters: map[string]int64{}, Extra: map[string]any{}}
	if s := os.Getenv("VERIF_SEED"); s != "" {
		r.Seed, _ = strconv.ParseInt(s, 10, 64)
	}
	home := os.Getenv("VERIF_HOME")
	if home == "" {
		home = "/verif"
	}
	if f, err := os.Open(filepath.Join(home, "known_findings.jsonl")); err == nil {
		sc := bufio.NewScanner(f)
		sc.Buffer(make([]byte, 1<<20), 1<<20)
		for sc.Scan() {
			var k Finding
			if json.Unmarshal(sc.Bytes(), &k) == nil && k.Property == id && k.Fixed == "" && k.Key != "" {
				r.known[k.Key] = k
			}
		}
		f.Close()
	}
	if d := os.Getenv("VERIF_DEADLINE_S"); d != "" {
		if n, err := strconv.Atoi(d); err == nil {
			r.deadline = r.start.Add(time.Duration(n) * time.Second)
		}
	}
	return r
}

// Expired reports whether the internal deadline passed; the caller stops
// enumerating and the run is marked non-exhaustive.
func (r *Run) Expired() bool {
	if r.deadline.IsZero() || time.Now().Before(r.deadline) {
		return false
	}
	r.mu.Lock()
	r.Exhaustive = false
	r.Extra["cap_hit"] = "internal deadline VERIF_DEADLINE_S reached; enumeration stopped early"
	r.mu.Unlock()
	return true
}

// Case counts one evaluated case. key identifies the case for the distinct
// count; nontrivial says whether it is non-trivial by the check's rule.
func (r *Run) Case(key string, nontrivial bool) {
	r.evals.Add(1)
	if !nontrivial {
		return
	}
	h := fnv.New64a()
	h.Write([]byte(key))
	k := h.Sum64()
	r.mu.Lock()
	r.distinct[k] = struct{}{}
	r.mu.Unlock()
}

// CaseDistinct counts a case the generator guarantees to be distinct (no set kept).
func (r *Run) CaseDistinct(nontrivial bool) {
	r.evals.Add(1)
	if nontrivial {
		r.nontr.Add(1)
	}
}

func (r *Run) AddEvals(n int64) { r.evals.Add(n) }

func (r *Run) Count(name string, n int64) {
	r.mu.Lock()
	r.counters[name] += n
	r.mu.Unlock()
}

func (r *Run) Sample(v any) {
	r.mu.Lock()
	if len(r.samples) < r.maxSamp {
		r.samples = append(r.samples, v)
	}
	r.mu.Unlock()
}

func (r *Run) Set(k string, v any) {
	r.mu.Lock()
	r.Extra[k] = v
	r.mu.Unlock()
}

// Violate records a violation. key is the classification computed by a
// predicate on the case; if known_findings.jsonl lists it, it is reported as a
// KNOWN-FINDING instead of a VIOLATION.
func (r *Run) Violate(key, msg string, c any) {
	r.mu.Lock()
	defer r.mu.Unlock()
	if _, ok := r.known[key]; ok && key != "" {
		r.knownHit[key]++
		return
	}
	if len(r.viol) < 200 {
		r.viol = append(r.viol, Violation{key, msg, c})
	} else {
		r.viol = append(r.viol[:200], Violation{"", "(more violations suppressed)", nil})[:200]
	}
	r.counters["violations_total"]++
}

func (r *Run) Violations() int {
	r.mu.Lock()
	defer r.mu.Unlock()
	return len(r.viol)
}

// Finish writes the evidence file, prints VIOLATION / KNOWN-FINDING lines and
// returns the process exit code.
func (r *Run) Finish() int {
	r.mu.Lock()
	defer r.mu.Unlock()
	if ReplayMode {
		for _, v := range r.viol {
			fmt.Printf("VIOLATION property=%s replay=(replayed)\n  %s\n", r.ID, v.Msg)
		}
		if len(r.viol) > 0 {
			return 1
		}
		for k := range r.knownHit {
			fmt.Printf("KNOWN-FINDING: property=%s %s (%s)\n", r.ID, r.known[k].What, k)
		}
		fmt.Println("replay: property held")
		return 0
	}
	cov := map[string]any{}
	for k, v := range r.Extra {
		cov[k] = v
	}
	cnt := map[string]int64{}
	for k, v := range r.counters {
		cnt[k] = v
	}
	cov["counters"] = cnt
	cov["evaluations"] = r.evals.Load()
	cov["distinct_nontrivial"] = int64(len(r.distinct)) + r.nontr.Load()
	cov["rule"] = r.Rule
	cov["exhaustive"] = r.Exhaustive
	if len(r.samples) == 0 {
		r.samples = []any{"(no sample recorded)"}
	}
	cov["samples"] = r.samples
	kh := map[string]int{}
	for k, v := range r.knownHit {
		kh[k] = v
	}
	cov["known_findings_hit"] = kh
	// smallest counterexample first.
	sort.SliceStable(r.viol, func(i, j int) bool {
		a, _ := json.Marshal(r.viol[i].Case)
		b, _ := json.Marshal(r.viol[j].Case)
		if len(a) != len(b) {
			return len(a) < len(b)
		}
		return string(a) < string(b)
	})
	code := 0
	dir := filepath.Join(Root, "replays", r.ID)
	var paths []string
	if len(r.viol) > 0 {
		code = 1
		os.MkdirAll(dir, 0o755)
		for i, v := range r.viol {
			if i >= 20 {
				if os.Getenv("VERIF_ALL") != "" {
					fmt.Printf("  [more] [%s] %s\n", v.Key, v.Msg)
					continue
				}
				break
			}
			p := filepath.Join(dir, fmt.Sprintf("%s-%03d.json", r.Tier, i))
			b, _ := json.MarshalIndent(v, "", " ")
			os.WriteFile(p, b, 0o644)
			paths = append(paths, p)
			fmt.Printf("VIOLATION property=%s replay=%s\n", r.ID, p)
			fmt.Printf("  [%s] %s\n", v.Key, v.Msg)
		}
	}
	keys := make([]string, 0, len(r.knownHit))
	for k := range r.knownHit {
		keys = append(keys, k)
	}
	sort.Strings(keys)
	for _, k := range keys {
		fmt.Printf("KNOWN-FINDING: property=%s %s (%s; %d cases)\n", r.ID, r.known[k].What, k, r.knownHit[k])
	}
	ev := map[string]any{
		"property_id": r.ID, "tier": r.Tier, "seed": r.Seed, "level": r.Level,
		"coverage": cov, "assumptions": r.Assumptions,
		"wall_s": time.Since(r.start).Seconds(), "violations": len(r.viol),
	}
	if r.Assumptions == nil {
		ev["assumptions"] = []string{}
	}
	b, err := json.MarshalIndent(ev, "", " ")
	if err != nil {
		fmt.Fprintln(os.Stderr, "evidence marshal:", err)
		return 2
	}
	os.MkdirAll(filepath.Join(Root, "evidence"), 0o755)
	if err := os.WriteFile(filepath.Join(Root, "evidence", r.ID+".json"), append(b, '\n'), 0o644); err != nil {
		fmt.Fprintln(os.Stderr, "evidence write:", err)
		return 2
	}
	fmt.Printf("%s tier=%s evaluations=%d distinct_nontrivial=%d exhaustive=%v violations=%d wall=%.1fs\n",
		r.ID, r.Tier, r.evals.Load(), int64(len(r.distinct))+r.nontr.Load(), r.Exhaustive, len(r.viol), time.Since(r.start).Seconds())
	return code
}
