// Package enum holds small bounded-exhaustive enumerators and a parallel driver.
package enum

import (
	"runtime"
	"sync"
)

// Workers is the default parallelism.
func Workers() int {
	n := runtime.NumCPU()
	if n > 16 {
		n = 16
	}
	if n < 1 {
		n = 1
	}
	return n
}

// Parallel calls f(i) for i in [0,n) on Workers() goroutines; w is the worker index.
func Parallel(n int, f func(i, w int)) {
	ParallelW(n, Workers(), f)
}

func ParallelW(n, workers int, f func(i, w int)) {
	if workers > n {
		workers = n
	}
	if workers <= 1 {
		for i := 0; i < n; i++ {
			f(i, 0)
		}
		return
	}
	var wg sync.WaitGroup
	var mu sync.Mutex
	next := 0
	for w := 0; w < workers; w++ {
		wg.Add(1)
		go func(w int) {
			defer wg.Done()
			for {
				mu.Lock()
				i := next
				next++
				mu.Unlock()
				if i >= n {
					return
				}
				f(i, w)
			}
		}(w)
	}
	wg.Wait()
}

// Subsets calls f with every subset of [0,n) of size <= k, smallest first.
func Subsets(n, k int, f func([]int)) {
	var cur []int
	var rec func(start, size int)
	for size := 0; size <= k && size <= n; size++ {
		rec = func(start, left int) {
			if left == 0 {
				f(append([]int(nil), cur...))
				return
			}
			for i := start; i <= n-left; i++ {
				cur = append(cur, i)
				rec(i+1, left-1)
				cur = cur[:len(cur)-1]
			}
		}
		rec(0, size)
	}
}

// Permutations calls f with every permutation of [0,n).
func Permutations(n int, f func([]int)) {
	p := make([]int, n)
	for i := range p {
		p[i] = i
	}
	var rec func(k int)
	rec = func(k int) {
		if k == n {
			f(append([]int(nil), p...))
			return
		}
		for i := k; i < n; i++ {
			p[k], p[i] = p[i], p[k]
			rec(k + 1)
			p[k], p[i] = p[i], p[k]
		}
	}
	rec(0)
}

// Product calls f with every tuple t where 0 <= t[i] < dims[i].
func Product(dims []int, f func([]int)) {
	t := make([]int, len(dims))
	for _, d := range dims {
		if d == 0 {
			return
		}
	}
	for {
		f(append([]int(nil), t...))
		i := len(t) - 1
		for ; i >= 0; i-- {
			t[i]++
			if t[i] < dims[i] {
				break
			}
			t[i] = 0
		}
		if i < 0 {
			return
		}
	}
}
