package enum

import (
	"bufio"
	"encoding/json"
	"fmt"
	"os"
	"os/exec"
	"strconv"
	"strings"
	"sync"
)

// ProcMap evaluates eval(i) for i in [0,n) in worker *processes* (the same
// binary re-executed with VERIF_WORKER=w/W) and hands every result to handle in
// the parent. Process sharding is used where the code under test contends on
// process-global locks (the SQLite library), which goroutines cannot avoid.
// The caller must build its case list deterministically before calling ProcMap:
// the child runs the same code path and exits inside ProcMap.
func ProcMap[T any](n int, eval func(i int) T, handle func(i int, t T)) error {
	if w := os.Getenv("VERIF_WORKER"); w != "" {
		parts := strings.Split(w, "/")
		me, _ := strconv.Atoi(parts[0])
		W, _ := strconv.Atoi(parts[1])
		out := bufio.NewWriterSize(os.Stdout, 1<<20)
		enc := json.NewEncoder(out)
		for i := me; i < n; i += W {
			r := eval(i)
			if err := enc.Encode(struct {
				I int `json:"i"`
				R T   `json:"r"`
			}{i, r}); err != nil {
				fmt.Fprintln(os.Stderr, "worker encode:", err)
				os.Exit(3)
			}
		}
		out.Flush()
		os.Exit(0)
	}
	W := Workers()
	if W > n {
		W = n
	}
	if W <= 1 || os.Getenv("VERIF_NOPROC") != "" {
		for i := 0; i < n; i++ {
			handle(i, eval(i))
		}
		return nil
	}
	exe, err := os.Executable()
	if err != nil {
		return err
	}
	var (
		wg   sync.WaitGroup
		mu   sync.Mutex
		errs []string
		seen = make([]bool, n)
	)
	for w := 0; w < W; w++ {
		wg.Add(1)
		go func(w int) {
			defer wg.Done()
			cmd := exec.Command(exe, os.Args[1:]...)
			cmd.Env = append(os.Environ(), fmt.Sprintf("VERIF_WORKER=%d/%d", w, W), "GOMAXPROCS=2")
			cmd.Stderr = os.Stderr
			stdout, err := cmd.StdoutPipe()
			if err != nil {
				mu.Lock()
				errs = append(errs, err.Error())
				mu.Unlock()
				return
			}
			if err := cmd.Start(); err != nil {
				mu.Lock()
				errs = append(errs, err.Error())
				mu.Unlock()
				return
			}
			dec := json.NewDecoder(bufio.NewReaderSize(stdout, 1<<20))
			for {
				var m struct {
					I int `json:"i"`
					R T   `json:"r"`
				}
				if err := dec.Decode(&m); err != nil {
					break
				}
				mu.Lock()
				if m.I >= 0 && m.I < n && !seen[m.I] {
					seen[m.I] = true
					handle(m.I, m.R)
				}
				mu.Unlock()
			}
			if err := cmd.Wait(); err != nil {
				mu.Lock()
				errs = append(errs, fmt.Sprintf("worker %d: %v", w, err))
				mu.Unlock()
			}
		}(w)
	}
	wg.Wait()
	missing := 0
	for _, s := range seen {
		if !s {
			missing++
		}
	}
	if len(errs) > 0 || missing > 0 {
		return fmt.Errorf("process sharding failed: %d results missing; %s", missing, strings.Join(errs, "; "))
	}
	return nil
}
