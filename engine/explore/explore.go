// Package explore is a stateless, deviation-bounded depth-first explorer over
// choice points. The body under test calls X.Choose wherever the environment
// answers (fail this statement? crash here? which rotation?). A run replays a
// prefix of choices and then answers 0 (the default) everywhere. All executions
// with at most Bound non-default answers are enumerated, each exactly once.
package explore

import (
	"fmt"
)

type Point struct {
	Label  string
	N      int
	Choice int
}

// X is one execution.
type X struct {
	prefix []int
	Points []Point
}

// Diverged is panicked when a replayed prefix does not fit the execution.
type Diverged struct{ Msg string }

func (d Diverged) Error() string { return "explore: replay diverged: " + d.Msg }

// Choose returns the environment's answer in [0,n) at this point.
func (x *X) Choose(label string, n int) int {
	if n <= 0 {
		panic(Diverged{fmt.Sprintf("point %q with n=%d", label, n)})
	}
	i := len(x.Points)
	c := 0
	if i < len(x.prefix) {
		c = x.prefix[i]
		if c >= n {
			panic(Diverged{fmt.Sprintf("point %d %q: choice %d out of range %d", i, label, c, n)})
		}
	}
	x.Points = append(x.Points, Point{label, n, c})
	return c
}

// Choices returns the choice list of the execution so far.
func (x *X) Choices() []int {
	cs := make([]int, len(x.Points))
	for i, p := range x.Points {
		cs[i] = p.Choice
	}
	return cs
}

// Deviations is the number of non-default answers taken.
func (x *X) Deviations() int {
	n := 0
	for _, p := range x.Points {
		if p.Choice != 0 {
			n++
		}
	}
	return n
}

// Trim drops trailing default choices (canonical, shortest replay list).
func Trim(cs []int) []int {
	for len(cs) > 0 && cs[len(cs)-1] == 0 {
		cs = cs[:len(cs)-1]
	}
	return cs
}

type Stats struct {
	Executions int
	Points     int
	MaxDepth   int
	Bound      int
}

// Replay returns a fresh execution that will answer with the given choices and
// then with the default.
func Replay(choices []int) *X { return &X{prefix: choices} }

// Run executes body once with the given choice prefix.
func Run(prefix []int, body func(*X)) *X {
	x := &X{prefix: prefix}
	body(x)
	if len(x.Points) < len(prefix) {
		panic(Diverged{fmt.Sprintf("execution ended after %d points, prefix has %d", len(x.Points), len(prefix))})
	}
	return x
}

// Explore enumerates every execution of body with at most bound deviations and
// hands each finished execution to visit.
func Explore(bound int, body func(*X), visit func(*X)) Stats {
	st := Stats{Bound: bound}
	var rec func(prefix []int)
	rec = func(prefix []int) {
		x := Run(prefix, body)
		st.Executions++
		st.Points += len(x.Points)
		if len(x.Points) > st.MaxDepth {
			st.MaxDepth = len(x.Points)
		}
		visit(x)
		dev := 0
		for i := 0; i < len(x.Points); i++ {
			if i >= len(prefix) && dev < bound {
				for alt := 1; alt < x.Points[i].N; alt++ {
					np := make([]int, i+1)
					for j := 0; j < i; j++ {
						np[j] = x.Points[j].Choice
					}
					np[i] = alt
					rec(np)
				}
			}
			if x.Points[i].Choice != 0 {
				dev++
			}
		}
	}
	rec(nil)
	return st
}
