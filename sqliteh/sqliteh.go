// Package sqliteh opens real in-process SQLite engines and reads their state
// through our own database/sql connection (never through atlas).
package sqliteh

import (
	"context"
	"database/sql"
	"fmt"
	"regexp"
	"sort"
	"strconv"
	"strings"
	"sync/atomic"

	"ariga.io/atlas/sql/sqlclient"
	_ "ariga.io/atlas/sql/sqlite"

	_ "github.com/mattn/go-sqlite3"
)

var seq atomic.Int64

// Engine is one private in-memory SQLite database with two handles: Own (ours)
// and Atlas (a sqlclient.Client the code under test uses).
type Engine struct {
	Name  string
	Own   *sql.DB
	Atlas *sqlclient.Client
}

// Open creates a fresh in-memory engine.
func Open(ctx context.Context) (*Engine, error) {
	name := fmt.Sprintf("verif%d", seq.Add(1))
	dsn := fmt.Sprintf("file:%s?mode=memory&cache=shared&_fk=1", name)
	own, err := sql.Open("sqlite3", dsn)
	if err != nil {
		return nil, err
	}
	own.SetMaxOpenConns(1)
	if err := own.PingContext(ctx); err != nil {
		return nil, err
	}
	c, err := sqlclient.Open(ctx, fmt.Sprintf("sqlite://%s?mode=memory&cache=shared&_fk=1", name))
	if err != nil {
		own.Close()
		return nil, err
	}
	return &Engine{Name: name, Own: own, Atlas: c}, nil
}

func (e *Engine) Close() {
	e.Atlas.Close()
	e.Own.Close()
}

// Exec runs statements on our own connection.
func (e *Engine) Exec(ctx context.Context, stmts ...string) error {
	for _, s := range stmts {
		if _, err := e.Own.ExecContext(ctx, s); err != nil {
			return fmt.Errorf("%w (statement: %s)", err, s)
		}
	}
	return nil
}

func query(ctx context.Context, db *sql.DB, q string, args ...any) ([][]string, error) {
	rows, err := db.QueryContext(ctx, q, args...)
	if err != nil {
		return nil, err
	}
	defer rows.Close()
	cols, _ := rows.Columns()
	var out [][]string
	for rows.Next() {
		vals := make([]sql.NullString, len(cols))
		ptrs := make([]any, len(cols))
		for i := range vals {
			ptrs[i] = &vals[i]
		}
		if err := rows.Scan(ptrs...); err != nil {
			return nil, err
		}
		r := make([]string, len(cols))
		for i, v := range vals {
			if v.Valid {
				r[i] = v.String
			} else {
				r[i] = "\x00NULL"
			}
		}
		out = append(out, r)
	}
	return out, rows.Err()
}

var (
	reWS      = regexp.MustCompile(`\s+`)
	reAutoIdx = regexp.MustCompile(`^sqlite_autoindex_`)
)

// Catalog is a canonical dump of the engine's schema catalogue read through pragmas:
// tables (options), columns (name, declared type, notnull, default, pk position, hidden/generated),
// indexes (unique, origin, partial, parts with direction/expression), foreign keys, and the
// CHECK / generated-expression texts recovered from the stored CREATE statement.
// Auto-index names are normalised (their name depends on creation order).
type Catalog struct {
	Lines []string
}

func (c Catalog) String() string { return strings.Join(c.Lines, "\n") }

// Options controls catalogue comparison.
type DumpOptions struct {
	SkipTables map[string]bool
	// NamedUniqueAsAuto renders a UNIQUE index created by a constraint (origin u) the same as a
	// user-created unique index on the same parts: atlas manages both as plain unique indexes.
	UniqueOriginInsensitive bool
}

func Dump(ctx context.Context, db *sql.DB, o DumpOptions) (Catalog, error) {
	var c Catalog
	tabs, err := query(ctx, db, "SELECT name, type, wr, strict FROM pragma_table_list WHERE schema = 'main' AND name NOT LIKE 'sqlite_%' ORDER BY name")
	if err != nil {
		return c, err
	}
	for _, t := range tabs {
		name := t[0]
		if o.SkipTables[name] {
			continue
		}
		c.Lines = append(c.Lines, fmt.Sprintf("table %s type=%s without_rowid=%s strict=%s", name, t[1], t[2], t[3]))
		cols, err := query(ctx, db, fmt.Sprintf("SELECT name, upper(type), \"notnull\", dflt_value, pk, hidden FROM pragma_table_xinfo(%q) ORDER BY cid", name))
		if err != nil {
			return c, err
		}
		// column order is not managed by atlas (an added column is appended): sorted by name.
		var clines []string
		for _, col := range cols {
			clines = append(clines, fmt.Sprintf("  column %s type=%s notnull=%s default=%s pk=%s hidden=%s", col[0], reTypeParams.ReplaceAllString(col[1], ""), col[2], normExpr(col[3]), col[4], col[5]))
		}
		sort.Strings(clines)
		c.Lines = append(c.Lines, clines...)
		idx, err := query(ctx, db, fmt.Sprintf("SELECT name, \"unique\", origin, partial FROM pragma_index_list(%q)", name))
		if err != nil {
			return c, err
		}
		var ilines []string
		for _, ix := range idx {
			parts, err := query(ctx, db, fmt.Sprintf("SELECT name, desc, cid FROM pragma_index_xinfo(%q) WHERE key = 1 ORDER BY seqno", ix[0]))
			if err != nil {
				return c, err
			}
			var ps []string
			for _, p := range parts {
				n := p[0]
				if p[2] == "-2" {
					n = "<expr>"
				}
				ps = append(ps, n+":"+p[1])
			}
			iname, origin := ix[0], ix[2]
			sqlText := ""
			if r, _ := query(ctx, db, "SELECT sql FROM sqlite_master WHERE type='index' AND name=?", ix[0]); len(r) == 1 && r[0][0] != "\x00NULL" {
				// keep only what follows the table name: expression parts and WHERE clause.
				s := r[0][0]
				if i := strings.Index(s, "("); i >= 0 {
					// (the direction of each part is in the parts list: the keywords are dropped from the text.)
					sqlText = reKwWhere.ReplaceAllString(reKwDir.ReplaceAllString(normExpr(s[i:]), "$2"), ") WHERE ")
				}
			}
			expr := false
			for _, p := range ps {
				expr = expr || strings.HasPrefix(p, "<expr>")
			}
			if !expr && ix[3] == "0" {
				sqlText = "" // plain column index: parts say it all
			}
			if reAutoIdx.MatchString(iname) {
				iname = "<auto>"
			}
			if o.UniqueOriginInsensitive && origin == "u" {
				origin, iname = "c", "<auto>"
			}
			if o.UniqueOriginInsensitive && origin == "c" && ix[1] == "1" {
				iname = "<uniq>"
			}
			ilines = append(ilines, fmt.Sprintf("  index %s unique=%s origin=%s partial=%s parts=%s def=%s", iname, ix[1], origin, ix[3], strings.Join(ps, ","), sqlText))
		}
		sort.Strings(ilines)
		c.Lines = append(c.Lines, ilines...)
		fks, err := query(ctx, db, fmt.Sprintf("SELECT id, seq, \"table\", \"from\", \"to\", on_update, on_delete FROM pragma_foreign_key_list(%q) ORDER BY id, seq", name))
		if err != nil {
			return c, err
		}
		byID := map[string][]string{}
		var ids []string
		for _, f := range fks {
			if _, ok := byID[f[0]]; !ok {
				ids = append(ids, f[0])
				byID[f[0]] = []string{f[2], f[5], f[6]}
			}
			to := f[4]
			if to == "\x00NULL" {
				// REFERENCES parent without a column list: the parent's primary key, in key order.
				if pk, err := query(ctx, db, fmt.Sprintf("SELECT name FROM pragma_table_info(%q) WHERE pk > 0 ORDER BY pk", f[2])); err == nil {
					if seq, err := strconv.Atoi(f[1]); err == nil && seq < len(pk) {
						to = pk[seq][0]
					}
				}
			}
			byID[f[0]] = append(byID[f[0]], f[3]+"->"+to)
		}
		var flines []string
		for _, id := range ids {
			flines = append(flines, "  fk "+strings.Join(byID[id], " "))
		}
		sort.Strings(flines)
		c.Lines = append(c.Lines, flines...)
		// CHECK constraints and generated expressions live only in the CREATE text.
		if r, _ := query(ctx, db, "SELECT sql FROM sqlite_master WHERE type='table' AND name=?", name); len(r) == 1 {
			for _, ck := range Checks(r[0][0]) {
				c.Lines = append(c.Lines, "  check "+ck)
			}
			for _, g := range Generated(r[0][0]) {
				c.Lines = append(c.Lines, "  generated "+g)
			}
			for _, n := range ConstraintNames(r[0][0]) {
				c.Lines = append(c.Lines, "  constraint-name "+n)
			}
			if regexp.MustCompile(`(?i)\bAUTOINCREMENT\b`).MatchString(r[0][0]) {
				c.Lines = append(c.Lines, "  autoincrement")
			}
		}
	}
	rest, err := query(ctx, db, "SELECT type, name FROM sqlite_master WHERE type IN ('view','trigger') ORDER BY type, name")
	if err != nil {
		return c, err
	}
	for _, r := range rest {
		c.Lines = append(c.Lines, r[0]+" "+r[1])
	}
	return c, nil
}

var (
	// the keyword that separates the parts of a partial index from its predicate, in any case.
	reKwWhere = regexp.MustCompile(`(?i)\)\s*where\s+`)
	// size / precision parameters of a declared type: ignored by SQLite (type affinity follows the
	// name) and left out by atlas' type formatter by design ("a lowered format").
	reTypeParams = regexp.MustCompile(`\s*\([^)]*\)`)
)

var reKwDir = regexp.MustCompile(`(?i)\s+(ASC|DESC)\s*(,|\)|$)`)

func normExpr(s string) string {
	// a default spelled as a double-quoted token is the same string as its single-quoted spelling.
	if t := strings.TrimSpace(s); len(t) >= 2 && t[0] == '"' && t[len(t)-1] == '"' && !strings.Contains(t[1:len(t)-1], "\"") {
		return "'" + strings.ReplaceAll(t[1:len(t)-1], "'", "''") + "'"
	}
	s = reWS.ReplaceAllString(strings.TrimSpace(s), " ")
	s = strings.NewReplacer("`", "", "\"", "", "( ", "(", " )", ")").Replace(s)
	// drop redundant outer parentheses
	for len(s) > 1 && s[0] == '(' && matching(s) == len(s)-1 {
		s = strings.TrimSpace(s[1 : len(s)-1])
	}
	return s
}

// matching returns the index of the paren closing the one at s[0], quote aware.
func matching(s string) int {
	depth := 0
	for i := 0; i < len(s); i++ {
		switch s[i] {
		case '\'':
			for i++; i < len(s) && s[i] != '\''; i++ {
			}
		case '(':
			depth++
		case ')':
			depth--
			if depth == 0 {
				return i
			}
		}
	}
	return -1
}

var reCheck = regexp.MustCompile(`(?i)\bCHECK\s*\(`)

// Checks extracts the sorted CHECK expressions (with constraint name if any) from a CREATE TABLE text.
func Checks(create string) []string {
	var out []string
	for _, loc := range reCheck.FindAllStringIndex(create, -1) {
		open := loc[1] - 1
		end := matching(create[open:])
		if end < 0 {
			continue
		}
		out = append(out, normExpr(create[open:open+end+1]))
	}
	sort.Strings(out)
	return out
}

var reGen = regexp.MustCompile("(?i)[`\"]?(\\w+)[`\"]?\\s+[\\w() ,]*?\\s*(?:GENERATED\\s+ALWAYS\\s+)?AS\\s*\\(")

// Generated extracts "col=expr kind" for generated columns.
func Generated(create string) []string {
	var out []string
	for _, loc := range reGen.FindAllStringSubmatchIndex(create, -1) {
		open := loc[1] - 1
		end := matching(create[open:])
		if end < 0 {
			continue
		}
		rest := strings.ToUpper(strings.TrimSpace(create[open+end+1:]))
		kind := "VIRTUAL"
		if strings.HasPrefix(rest, "STORED") {
			kind = "STORED"
		}
		out = append(out, create[loc[2]:loc[3]]+"="+normExpr(create[open:open+end+1])+" "+kind)
	}
	sort.Strings(out)
	return out
}

var reConstraint = regexp.MustCompile("(?i)\\bCONSTRAINT\\s+[`\"]?(\\w+)[`\"]?\\s+(CHECK|FOREIGN|UNIQUE|PRIMARY|REFERENCES)")

// ConstraintNames extracts named constraints "name kind".
func ConstraintNames(create string) []string {
	var out []string
	for _, m := range reConstraint.FindAllStringSubmatch(create, -1) {
		if _, err := strconv.Atoi(m[1]); err == nil && strings.EqualFold(m[2], "FOREIGN") {
			continue // atlas spells an unnamed SQLite foreign key by its ordinal
		}
		kind := strings.ToUpper(m[2])
		if kind == "REFERENCES" {
			kind = "FOREIGN"
		}
		out = append(out, m[1]+" "+kind)
	}
	sort.Strings(out)
	return out
}

// Rows dumps every user table: per table the sorted list of rows rendered with quote().
func Rows(ctx context.Context, db *sql.DB, table string, cols []string) ([]string, error) {
	q := make([]string, len(cols))
	for i, c := range cols {
		q[i] = fmt.Sprintf("quote(%q)", c)
	}
	rows, err := query(ctx, db, fmt.Sprintf("SELECT %s FROM %q", strings.Join(q, ", "), table))
	if err != nil {
		return nil, err
	}
	out := make([]string, len(rows))
	for i, r := range rows {
		out[i] = strings.Join(r, "|")
	}
	sort.Strings(out)
	return out, nil
}

// Columns returns the non-hidden... all column names of a table in cid order with declared type.
func Columns(ctx context.Context, db *sql.DB, table string) (names, types []string, hidden []string, err error) {
	rows, err := query(ctx, db, fmt.Sprintf("SELECT name, upper(type), hidden FROM pragma_table_xinfo(%q) ORDER BY cid", table))
	if err != nil {
		return nil, nil, nil, err
	}
	for _, r := range rows {
		names, types, hidden = append(names, r[0]), append(types, r[1]), append(hidden, r[2])
	}
	return
}

// Query exposes the raw helper.
func Query(ctx context.Context, db *sql.DB, q string, args ...any) ([][]string, error) {
	return query(ctx, db, q, args...)
}
