#!/bin/bash
# tools/confirm_seed.sh <ID> <name> <patch> <demo_test.go> <pkgdir-relative-to-repo> <go-module-dir-relative> <run-regex>
# Confirms a sub-agent's seeded defect in its scratch worktree (/tmp/seed/<ID>) rebased on /repo HEAD:
#  demo passes clean, demo fails patched, full suites of both modules pass patched (modulo tests failing on the clean worktree too).
# On success stores /verif/seeded/<name>/{patch.diff,demo,meta.json}.
set -u
ID=$1; NAME=$2; PATCH=$(realpath $3); DEMO=$(realpath $4); PKG=$5; MOD=$6; RX=$7
. /verif/env.sh
WT=/tmp/seed/$ID
[ -d $WT ] || git -C /repo worktree add -q --detach $WT HEAD
cd $WT && git checkout -q -- . && git clean -fdq && git checkout -q --detach $(git -C /repo rev-parse HEAD) || exit 2
demo_dst=$WT/$PKG/zz_seed_demo_test.go
run_demo() { cp $DEMO $demo_dst; (cd $WT/$MOD && go test -vet=off -count=1 -run "$RX" ./${PKG#$MOD/} 2>&1 | tail -15); local rc=${PIPESTATUS[0]}; rm -f $demo_dst; return $rc; }
echo "== demo on clean tree"; out=$(run_demo); echo "$out" | tail -3
echo "$out" | grep -q "^ok" || { echo "CONFIRM-FAIL: demo does not pass on clean tree"; exit 1; }
git apply $PATCH || { echo "CONFIRM-FAIL: patch does not apply to HEAD"; exit 1; }
echo "== demo on patched tree"; out=$(run_demo); echo "$out" | tail -5
echo "$out" | grep -q "^FAIL\|^--- FAIL\|panic:" || { echo "CONFIRM-FAIL: demo does not fail with patch"; exit 1; }
echo "== existing suites on patched tree"
fails=""
for m in . cmd/atlas; do
  o=$(cd $WT/$m && go test -vet=off -count=1 ./... 2>&1 | grep -E "^(FAIL|--- FAIL|panic)" | grep -v "TestGitChangeDetector" | grep -v "TestFormatters" | grep -v "sql/sqltool\s" | grep -v "internal/migratelint\s" | grep -v "^FAIL$" )
  [ -n "$o" ] && fails="$fails\n[$m] $o"
done
# migratelint: only TestGitChangeDetector may fail (fails in any git worktree checkout, also unpatched)
o=$(cd $WT/cmd/atlas && go test -vet=off -count=1 -skip TestGitChangeDetector ./internal/migratelint/ 2>&1 | grep -E "^(FAIL|--- FAIL|panic)")
[ -n "$o" ] && fails="$fails\n[migratelint] $o"
# sql/sqltool: TestFormatters is listed as flaky by the baseline (file names stamped with the wall clock); the rest must pass
o=$(cd $WT && go test -vet=off -count=1 -skip TestFormatters ./sql/sqltool/ 2>&1 | grep -E "^(FAIL|--- FAIL|panic)")
[ -n "$o" ] && fails="$fails\n[sqltool] $o"
if [ -n "$fails" ]; then echo -e "CONFIRM-FAIL: existing tests fail with patch:$fails"; git checkout -q -- .; exit 1; fi
echo "existing suites pass with patch"
mkdir -p /verif/seeded/$NAME
git diff > /verif/seeded/$NAME/patch.diff
cp $DEMO /verif/seeded/$NAME/$(basename $DEMO)
git checkout -q -- .
echo "CONFIRMED $NAME"
