#!/bin/bash
# proc.sh Cxx : confirm round-13 seed of property Cxx
P=$1; O=/tmp/seed/out13-$P
name=$(jq -r .name $O/meta.json); name=${name#$P-}
pkg=$(jq -r .demo_pkg_dir $O/meta.json); mod=$(jq -r .demo_module_dir $O/meta.json); rx=$(jq -r .demo_run $O/meta.json)
rx=${rx#-run }; rx=${rx#-run=}
export TMPDIR=$O/tmp
/verif/tools/confirm_seed.sh R13-$P $P-$name $O/patch.diff $O/demo_test.go ${pkg%/} $mod "$rx" > $O/confirm.log 2>&1
tail -1 $O/confirm.log
