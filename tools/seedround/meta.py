import json,sys,os
P,first,hist=sys.argv[1],sys.argv[2],sys.argv[3]
check=sys.argv[4] if len(sys.argv)>4 else P
O=f'/tmp/seed/out13-{P}'
a=json.load(open(O+'/meta.json'))
name=a['name']; name=name[len(P)+1:] if name.startswith(P+'-') else name
full=f'{P}-{name}'
m={"property":P,"name":full,"round":13,
 "origin":"independent sub-agent given only the property text, the short names of earlier rounds' changes to avoid, and a scratch worktree",
 "summary":a.get('summary'),"needs":a.get('needs'),"files":a.get('files'),"demo":"demo_test.go",
 "demo_how":f"copy demo_test.go into {a.get('demo_pkg_dir')} (module {a.get('demo_module_dir')}) and run go test -vet=off -count=1 -run '{a.get('demo_run')}' there: passes on the clean tree, fails with the patch",
 "agent_meta":{"property":P,"tests_run":a.get('tests_run')},
 "confirmed_by_me":"tools/confirm_seed.sh in a scratch worktree at /repo HEAD: demo passes on the clean tree, fails with the patch; `go test -vet=off -count=1 ./...` of the root and cmd/atlas modules pass with the patch (TestGitChangeDetector fails with and without the patch in this sandbox)",
 "detection":{"check":check,"result":"DETECTED" if first.startswith('DETECTED') else "MISSED","first_violation":first,"history":hist},
 "ran":f"tools/run_mutant.sh seeded/{full}/patch.diff {check}"}
json.dump(m,open(f'/verif/seeded/{full}/meta.json','w'),indent=1)
print(full)
