#!/bin/bash
# tools/run_mutant.sh <patch.diff> <ID> [<ID>...] : apply a deliberate property-breaking patch to /repo,
# run the quick checks, always revert. Prints DETECTED/MISSED per check.
patch="$(realpath "$1")"; shift
cd /repo || exit 2
if [ -n "$(git status --porcelain --untracked-files=no)" ]; then echo "repo dirty; refusing" >&2; exit 2; fi
git apply "$patch" || { echo "patch does not apply: $patch" >&2; exit 2; }
trap 'git -C /repo checkout -- . ; (cd /verif && . ./env.sh && go build -o bin/check ./cmd/check; ./build_atlas.sh)' EXIT
for id in "$@"; do
  out=$(cd /verif && VERIF_ROOT=/verif/scratch/mut ./check "$id" --tier "${TIER:-quick}" 2>&1); rc=$?
  if [ $rc -eq 1 ] && echo "$out" | grep -q "^VIOLATION property=$id"; then
    echo "DETECTED $id $(basename $patch): $(echo "$out" | grep -A1 '^VIOLATION' | sed -n 2p | cut -c1-220)"
  elif [ $rc -eq 0 ]; then echo "MISSED   $id $(basename $patch)"
  else echo "ERROR($rc) $id $(basename $patch): $(echo "$out" | tail -3 | cut -c1-300)"; fi
done
