#!/usr/bin/env python3
"""Regenerates /verif/MANIFEST.json from the table below and validates it."""
import json, os, sys
ROOT = os.path.dirname(os.path.dirname(os.path.abspath(__file__)))
BASELINE = json.load(open('/root/.vp/BASELINE.json'))['cmd'] if os.path.exists('/root/.vp/BASELINE.json') else ''

# id -> (category, technique, text, note)
CHECKS = {
 "C01": ("exploration",
   "bounded-exhaustive enumeration of (current, desired) schema pairs executed on a real SQLite engine through the schema-apply flow, judged by re-diff and by an independent engine-catalogue comparison",
   "All ordered pairs of schema states built from <=1 feature (quick; plus 2-feature states against their sub-states) or <=2 features (thorough, ~460k pairs) out of 57 elementary SQLite features: the current state is created by our own DDL (two spellings), the desired one is HCL from our own writer; the real inspect/diff/plan/apply runs in a transaction; the second diff must be empty, no statement may be rejected, and the engine catalogue read by our own pragma dump must equal that of the desired schema created directly. The desired state is also taken from atlas' own export of an inspected database, the database may hold a view over the changed table, and a CLI slice runs the real `atlas schema apply --auto-approve` (HCL file and live database as sources), `schema diff` (must report synced) and a second apply (must be a no-op).",
   "SQLite only (no MySQL/PostgreSQL server in the sandbox); the feature catalogue bounds the schemas."),
 "C02": ("exploration",
   "bounded-exhaustive enumeration of edit sets over independently built schema graphs for the three real differs, judged by ground-truth change descriptors the generator knows",
   "For MySQL, PostgreSQL and SQLite differs in the CLI's normalized mode: every elementary edit of a ~70-edit catalogue (incl. composite foreign-key column permutations) (one per change kind / kind bit the community build emits, plus multi-bit combinations) alone under 5 listing orders, every compatible pair (thorough: permuted too, and every compatible triple), documented spelling equivalences, identity/deep-copy/permuted copies and schema add/drop: the flattened change tree must equal exactly the expected descriptors (path, type, kind bits); RealmDiff/TableDiff must agree and a repeated diff must not change.",
   "Connection-less DefaultDiff (no server): version-dependent behaviour is pinned to what the drivers assume offline."),
 "C03": ("exploration",
   "bounded-exhaustive enumeration of database states on a real SQLite engine; both exports are re-materialised on fresh engines and compared by atlas' differ and by an independent catalogue dump",
   "Every engine-valid state with <=2 (thorough <=3) features x 2 DDL spellings is created on a real engine; the HCL export is evaluated, diffed both ways and applied to an empty engine; the SQL export (dump-mode plan, default formatter, read back by the SQLite scanner) is executed on an empty engine and diffed both ways; both recreated catalogues must equal the original; two inspections must produce identical bytes. A CLI slice runs the real `atlas schema inspect` (HCL and `{{ sql . }}` formats), re-creates both exports on fresh files and requires `schema diff` to report synced both ways.",
   "SQLite only; comparison normalises auto-index names, unique-index origin, column order."),
 "C04": ("exploration",
   "exhaustive enumeration of all foreign-key digraphs up to a size bound x table splits, planned by the real MySQL/PostgreSQL planners and replayed from statement text by a reference catalogue",
   "All directed graphs with self loops over n<=3 tables (thorough: also all 65536 graphs on 4 tables) x every split of the tables into kept/created/dropped x edge modes between kept tables x {MySQL, PostgreSQL} x plan modes {unset, deferred, in-place, dump} x {one schema, tables spread over two schemas that share table names}: the change set comes from the real differ, the plan from the real planner (every change set is planned twice: identical plans required); a reference catalogue replays the statements from their text and requires: a table exists before any foreign key pointing at it is declared, no table is dropped while a foreign key of another table points at it, every table is created/dropped at most once, the final catalogue equals the desired one, and the planner neither fails, panics nor hangs. For n<=3 the kept tables' foreign keys are also retargeted (ModifyForeignKey: another target in the current state) and, in the two-schema layout, a schema that loses all its tables is dropped.",
   "n=4 covers all splits with added kept-kept edges only (stated in evidence); random larger graphs are not claimed."),
 "C05": ("exploration",
   "bounded-exhaustive enumeration of (populated current, desired) pairs executed on a real SQLite engine; rows read before/after by an independent connection",
   "The C01 pair space with the current database populated (3 rows per table, two NULL variants, child rows referencing the parent through an ON DELETE CASCADE foreign key), applied inside and outside a transaction, desired state from HCL or from atlas' own export: after the real apply every row of the changed table is present and every surviving same-typed column holds the same value (NULL back-filled by a new NOT NULL DEFAULT excepted), untouched tables are byte-identical; a plan may fail only when a reference rule says the desired schema cannot hold the data.",
   "SQLite only; value conversion on type changes is not judged."),
 "C06": ("model_checking",
   "explicit-state BFS over directory-writer histories with canonical-state dedup (invariant: Validate==nil) plus exhaustive single-edit tamper neighbourhood of every small reached state, judged by a reference materiality model",
   "BFS to depth 3 (thorough 4) over the real writers (WritePlan x 6 formatters, WriteCheckpoint, CopyFiles; MemDir and LocalDir) checks that every reachable directory validates; for every small reached state and 8 hand-built ones (sum-ignored files, awkward names) every single edit - each byte of each file and of atlas.sum substituted/deleted/inserted, file add/remove/rename/swap/move-tail, sum line operations, bytes moved between a name and its hash in a sum line - is applied and the real Validate must fail with a checksum error exactly when the reference model says the edit is material. A BFS to depth 3 (thorough 4) over CLI histories {migrate new, migrate diff x 2 desired schemas, migrate hash, 5 hand edits} on a real directory (clock seam VERIF_NOW) checks that writer commands refuse and leave untouched a directory whose sum does not match, leave a valid directory otherwise, and that `migrate validate` / `migrate apply` accept the directory exactly when it was not edited since atlas last wrote or re-hashed it, in agreement with migrate.Validate(LocalDir) and with `schema inspect --url file://...` (absolute and relative). `migrate import` of 5 third-party formats x version sets (incl. flyway repeatable/baseline/undo files) must write a directory that validates.",
   "third-party directory formats are covered in process only (their file names come from the wall clock); bodies of sum-ignored files and whitespace-only sum edits are immaterial by design and not judged."),
 "C07": ("exploration",
   "bounded-exhaustive enumeration of adversarial strings x slots x change kinds x formatters x indents x delimiters; each plan of the real planners is formatted, read back with the matching reader and dialect scanner and compared with the planned statements",
   "Plans of the real MySQL/PostgreSQL/SQLite planners over a two-table schema in which one slot (thorough: every pair of slots) of 13 holds each of 32 adversarial strings (quotes, comment markers, delimiters, LF, CR LF, CR, ...), for create/drop/alter/alter-back change sets x 6 formatters x 2 indents x 4 plan delimiters (atlas format): the statements read back with the matching directory reader and the dialect's scanner must equal Plan.Changes[].Cmd in count, order and text, and no text of a comment line may reach a statement. The atlas formatter is also exercised through Planner.WriteCheckpoint, and for create plans with at most one adversarial slot the directory written by each third-party formatter is imported by the real `atlas migrate import` and must again yield exactly the planned statements. Hand-written third-party files (3 statements x 4 terminator spellings x 3 file endings x 5 formats) are read through the format's own reader and through `migrate import`.",
   "The schema shape is fixed (the strings and slots vary); random schemas are not claimed."),
 "C08": ("exploration",
   "bounded-exhaustive enumeration of all token strings up to a length bound and of all generated well-formed scripts, each scanned by the real Scanner and judged by an independent gap lexer / known split",
   "Every string of <=4 (thorough <=5) tokens over a 27-token alphabet of scanner-relevant fragments (incl. a multi-byte rune and non-ASCII white space) x the 4 option sets the drivers use (plus a T-SQL-like set for totality) is scanned: no panic, no hang, and on success every statement text sits at its reported position, spans are disjoint and increasing, and everything between statements is accepted by a reference gap lexer (white space, comments, delimiter, DELIMITER/GO commands). All scripts of <=2 (thorough <=3) statements from 17 statement shapes x leads/separators/tails x 7 delimiter modes must scan to exactly the intended statements on the intended lines.",
   "Arbitrary byte strings beyond the token alphabet/length bound and coverage-guided fuzzing are not claimed (sampling is a different family)."),
 "C09": ("fault_enumeration",
   "stateless deviation-bounded DFS over fault/crash choice points on the real migrate.Executor, judged by a reference executor model",
   "Every placement of up to 2 (thorough: 3) faults - failing statement, failing revision write, simulated process death before/after either - over all 39 directory shapes (1-3 files x 1-3 statements) is executed on the real Executor with clean re-runs; order, no-skip, at-most-once-except-lost-bookkeeping and 'history never ahead of reality' are checked at every write and at the end. A store slice runs the real Executor over the real SQLite driver and the CLI's own revision store (cmd/atlas/internal/migrate.EntRevisions, compiled in through a build overlay) on 5 shapes x every statement failing once x every placement of up to 2 (thorough: 3) failing database calls of the store - reads as well as writes - over the runs, the database itself observed after every run: no claim beyond what was executed, effects in order, no repeat without a faulted write, convergence.",
   "In the main enumeration an in-process recording driver and revision store stand in for the database (the property is about the executor's ordering of the two stores); a failed write persists nothing. The store slice uses the real store on SQLite only."),
 "C10": ("fault_enumeration",
   "exhaustive enumeration of every instrumented crash point x occurrence x transaction mode x directory shape on the real CLI binary and a real SQLite file; the process is killed and the command re-run",
   "For tx-mode file/all/none and 7 (thorough 17) directory shapes incl. per-file txmode directives and checkpoint files, a counting run lists every crash point the real `atlas migrate apply` passes (before/after each statement, each revision write, each commit); for each one the process is killed there (exit 137, no deferred code) on a fresh SQLite file and the same command is run again: after the crash no file may be half applied in file/all mode and no revision may record more statements than took effect; after the re-run every statement's effect is present exactly once (none mode: at most the one in-flight statement twice) and all revisions are complete.",
   "SQLite file engine only; kill = os.Exit at a hook (not a torn disk write - SQLite's journal recovery is trusted); the advisory lock of the killed process is assumed expired."),
 "C11": ("model_checking",
   "exhaustive enumeration of (directory, revision table, options) configurations on the real Executor.Pending/ExecuteN against an executable set-based reference model, plus breadth-first search over CLI operation histories (add/apply/set/fix/remove) on the real binary with the same model as oracle",
   "Every directory over a universe of 4 (thorough: 5) versions (absent/migration/checkpoint) x every revision table (any subset applied, last optionally partial, with or without a recorded error) x exec order x {none, allow-dirty, baseline=v} x {clean, dirty} is decided by the real Executor.Pending and compared - error class, out-of-order set and exact file list - with refPending written from the documented semantics; ExecuteN(n) for every n and ExecuteTo(v) for every v must run exactly the decided prefix and leave none of it pending, and the same executor must decide afterwards like a fresh one. A BFS to depth 4 (thorough 5) over CLI histories {start with two applied, add file, add failing file, add checkpoint file, add out-of-order (failing) file, apply, apply 1, apply non-linear / linear-skip, set 1..4, fix, remove newest} on a real SQLite file checks in every reached state that `migrate status` reports the model's pending/out-of-order files for the actual revision rows, that `migrate apply [n]` executes exactly the statements the decision implies, and that nothing up to v is pending after `migrate set v`.",
   "Recording driver/store in process for the configuration sweep, SQLite file for the CLI BFS; fixed-width versions; cases the documentation does not define are counted, not judged."),
 "C12": ("model_checking",
   "exhaustive enumeration of (file, progress, edit) histories executed on the real migrate.Executor, judged by the prefix-equality rule",
   "All files of n<=5 statements x every partial progress k (revision produced by a real failing run) x every single edit (thorough: every pair of edits for n<=4) x 2 directory layouts x {fresh, reused} executor are re-hashed and re-run on the real Executor: a changed applied prefix must give HistoryChangedError, zero executed statements, untouched history and no panic; a changed tail must resume with exactly the new tail and leave the version done for a following Pending. A CLI slice repeats the rule on a real SQLite file: n in 2..4 x k x {no / `migrate set` on the partially applied version} x 6 edits, with the partial revision produced by the real `migrate apply --tx-mode none`; a panic of the CLI is a violation.",
   "Recording driver/store in process, SQLite file for the CLI slice; timestamps and operator version excluded from 'untouched'."),
 "C13": ("fault_enumeration",
   "exhaustive enumeration of failing-statement positions x transaction modes x per-file directives x apply counts on the real CLI and a real SQLite file, judged by a reference model of each mode and by differential full dumps",
   "`migrate apply`: 5 (thorough 12) directory shapes x a really failing statement at every position x tx-mode file/all/none x txmode directives on the failing or preceding file x apply count: (also a constraint violation with the SQLite conflict clause OR ROLLBACK) the journal rows written by the statements and the revision rows, read by our own connection, must equal what the mode promises; after repairing the file the full dump must equal that of a run that never failed. `--dry-run` of migrate apply from 5 reached states x modes x counts x baseline/allow-dirty and of schema apply must leave dump and directory byte-identical. `schema apply`: 3 hand-written and 24 generated scenarios (every subset of {add table, add column, NOT NULL rebuild, unique index, drop table} holding a change that fails on the data, including plans of a single multi-statement change) x {default, file, none, dry-run}: a plan failing midway must leave the database unchanged in the default and file modes.",
   "SQLite file engine only; statement failure = a statement the engine really rejects."),
 "C14": ("fault_enumeration",
   "exhaustive enumeration of dev-database commands x dev states x failing-statement positions on the real CLI with a SQLite file as dev database; dev dump and directory bytes compared before/after",
   "Commands migrate diff / validate / lint --latest N and schema apply|diff|inspect with SQL (and HCL) sources x dev state {empty, table with rows, view only, FTS/R-tree virtual tables only, table named sqlitefoo, thorough: table+trigger} x directory / schema-file shapes (creating tables, indexes, views and triggers) with, at every position (and nowhere), a statement the engine rejects or one it accepts but atlas cannot inspect (replay succeeds, reading the state back fails): a non-empty dev database must be refused and left byte-identical; an empty one must be handed back with no tables, indexes, views or triggers whether the command succeeded or failed; the migration directory must not be written by a replay (migrate diff may add one file and refresh the sum on success). Driver-level slice: the real MySQL and PostgreSQL drivers on a mocked connection with an in-memory catalogue as Inspector/PlanApplier, about 500 (catalogue, binding, replay effect) cases: Snapshot must refuse a scope that holds a table and the restore function (its changes planned by the real planner, the statements run against the catalogue as a server would, incl. foreign-key cycles and dependent objects that need CASCADE) must hand the catalogue back as it was.",
   "SQLite file as dev database for the CLI slice (MySQL/PostgreSQL only at driver level, catalogue mocked); commands that do not use the dev database for a given source (HCL on SQLite) are only required to leave it untouched."),
 "C15": ("exploration",
   "bounded-exhaustive enumeration over the exported type registries x parameter grid and over the differ universe states, each pushed through MarshalHCL/EvalHCL of the real codecs and compared by differ, formatted types, own structural comparison and byte fixpoint",
   "For the MySQL, PostgreSQL and SQLite codecs: every registered type spec x parameter grid (size, precision/scale, time precision, unsigned, enum/set values, PostgreSQL arrays) must be a FormatType/ParseType fixpoint and survive MarshalHCL -> EvalHCLBytes as a column type with empty diff both ways and identical bytes on re-marshal; every state of the differ universe (base, +1 edit or equivalence; thorough +2 edits) must round-trip with empty diff both ways, equal element lists / attribute sets / formatted types by our own comparison, and byte-identical re-marshal; a type whose bare spelling means 'unlimited' must not collide with a parameterised spelling.",
   "Types are enumerated through the registry's own spec list; values outside the parameter grid are not claimed."),
 "C16": ("exploration",
   "bounded-exhaustive enumeration of change sets x qualifier x plan mode through the real MySQL/PostgreSQL planners; every forward and reverse statement tokenised by an independent quoted-identifier scanner",
   "For the MySQL and PostgreSQL planners: change sets from the real differ (every single edit of the differ universe, thorough every compatible pair; create-all, drop-all) and hand-built schema-level / two-schema change sets x qualifier {not requested, empty, custom, marker, other schema} x 4 plan modes: with the empty qualifier no Cmd or reverse statement may mention the marker-named schema or create/drop/alter a schema, schema-level and cross-schema change sets must be rejected; with a custom qualifier every table, enum-type and (PostgreSQL) index reference must carry exactly that qualifier.",
   "Connection-less DefaultPlan planners; identifier recognition relies on the universe's names being collision-free."),
 "C17": ("exploration",
   "bounded-exhaustive enumeration of plans; reversible ones are executed up and down on a real SQLite engine and the catalogue compared; down files of all formatters compared with the reverse statements",
   "The C01 pair space x 2 indent settings x desired state {evaluated from HCL, inspected from a live database}: Reversible must hold exactly when every schema-changing statement has a reverse, a table rebuild is never reversible, the down part written by each of the 5 third-party formatters equals the reverse statements in reverse change order (per changeset for Liquibase), and for every reversible plan up followed by down on the real engine restores the catalogue and leaves no atlas diff in either direction. At planner level (MySQL, PostgreSQL, TiDB through a mocked connection) every reverse statement of the differ universe's plans must alter something (no bare ALTER TABLE) and carry as many clauses as the forward statement changes.",
   "Engine execution is SQLite only; MySQL/PostgreSQL plans are covered for the flag and down-file parts by the planner-level checks."),
 "C18": ("model_checking",
   "explicit-state BFS over schema-evolution histories (canonical schema model as state); every history is materialised as a migration directory and analysed by the real `atlas migrate lint` against a real SQLite dev database, judged by a reference model of what each file destroys",
   "BFS to depth 2 (thorough 3) over 25 evolutions (additive, destructive by DROP / ALTER DROP COLUMN / table rebuild, a column or table dropped and added back in the same file, non-destructive rebuilds, virtual-column drop, temporary table/column inside one file, rebuild followed by DROP TABLE, two rebuilds in one file, copy-and-drop without rename, long files, CRLF line endings): the last file of each history is hand-written SQL and, where expressible, also produced by the real `atlas migrate diff`; for every --latest N the real lint must exit non-zero with DS102/DS103 positioned on the causing statement for exactly the files inside the window that remove a pre-existing table or non-virtual column, and report no DS1xx elsewhere.",
   "SQLite dev database; evolutions are drawn from the stated alphabet (not random schemas)."),
 "C19": ("exploration",
   "bounded-exhaustive enumeration of exclude patterns on a real SQLite engine against a reference of the glob semantics, and of all subsets of skippable change kinds through the three real differs against the filtered unskipped diff",
   "(a) every pattern table[.child][type selector] from a 10 x 8 x 9 grid (thorough: every unordered pair of patterns) is applied through InspectSchema and InspectRealm on a real SQLite database with colliding names; every table, column, index, foreign key and check must be absent iff the reference (path.Match + selectors) says a pattern matches it. (b) for MySQL, PostgreSQL and SQLite differs a change set with every skippable kind at every nesting level is diffed under all 2^15 subsets of the policy kinds; the result must equal the unskipped diff with those kinds filtered out recursively (empty ModifyTable/ModifySchema vanish). (c) end to end: the real `atlas schema apply --auto-approve` on a SQLite file whose current and desired states disagree on 3 tables and 3 columns x every set of <=2 of 9 exclude patterns x {--exclude flags, env exclude} x {dev database, none} x desired state {HCL file, database URL}, and all 15 non-empty subsets of diff.skip {add_table, drop_table, add_column, drop_column} given by {project file, env block with its own diff}: a resource stays exactly as it was iff a pattern matches it / its change kind is skipped, everything else reaches the desired state, rows survive, a second apply is a no-op.",
   "The fate of indexes/foreign keys built on an excluded column is unspecified by the documentation and not judged; the CLI slice uses one fixed pair of schemas."),
 "C20": ("exploration",
   "stateless exploration with Go's map-iteration order turned into a harness-chosen environment answer (runtime overlay): deviation-bounded enumeration of iteration starts per call site, hash seeds per process, operation sequences and declaration-order permutations, all compared byte for byte with the default run",
   "The check binary is linked against a Go runtime whose map-iteration start (per call site) and per-map hash seed are chosen by the harness. For 19 operations over the real planners/differs/codecs/formatters/directories (incl. the replay of two migration directories on one process-wide SQLite dev connection) the baseline output must be byte-identical under: every site shifted at once (14 values), one site at a time (bound 1; thorough: pairs of atlas sites, bound 2), worker processes with different hash seeds, and really random processes; planning the same change set twice in one process must give the same plan; every sequence of <=2 (thorough 3) operations must leave the last operation's output equal to its solo output in a fresh process; all permutations of top-level and index blocks (and reversed FK/check blocks) of an HCL source must give the same statements (as clause multisets) and the same SQLite catalogue. Every unordered pair of the operations (and each with itself) is additionally run at the same time in a separate binary built with -race: outputs must equal the solo outputs and the race detector must stay silent. 10 real CLI commands (binary built with the same runtime) x hash seeds x iteration starts must print byte-identical output.",
   "The operations have no synchronisation below operation granularity, so a controlled scheduler has nothing to interleave: unsynchronised sharing is decided by the free-running -race pass over all operation pairs (its interleavings are the ones that occurred, not an enumeration); the Go toolchain plus a one-function runtime patch is trusted."),
}
NOT_APPLICABLE = {}

def main():
    checks = []
    for pid in sorted(CHECKS):
        cat, tech, text, note = CHECKS[pid]
        checks.append({
            "property_id": pid,
            "quick_cmd": f"./check {pid} --tier quick",
            "thorough_cmd": f"./check {pid} --tier thorough",
            "evidence_file": f"/verif/evidence/{pid}.json",
            "replay_cmd_template": f"./check {pid} --replay {{path}}",
            "engine": "verif-explorer",
            "level_claimed": {"category": cat, "text": text, "design_ref": f"DESIGN.md §{pid}"},
            "level_note": note,
            "technique": tech,
        })
    hooks_commits = []
    hc = os.path.join(ROOT, 'hooks_commits.txt')
    if os.path.exists(hc):
        hooks_commits = [l.strip() for l in open(hc) if l.strip()]
    all_ids = [json.loads(l)['id'] for l in open(os.path.join(ROOT, 'properties.jsonl'))]
    na = []
    for pid in all_ids:
        if pid not in CHECKS:
            na.append({"property_id": pid, "reason": NOT_APPLICABLE.get(pid, "check not built yet in this session (planned; see DESIGN.md §%s) - not claimed until it exists and passes on the unchanged tree" % pid)})
    m = {
        "version": 1,
        "setup_cmd": "./setup.sh",
        "hooks": {
            "guard": "verif",
            "enable": "go build -tags verif (bin/atlas is built by ./build_atlas.sh from /repo/cmd/atlas with -tags verif)",
            "baseline_off_cmd": BASELINE,
            "source_commits": hooks_commits,
            "add_only": True,
        },
        "engines": [{
            "name": "verif-explorer", "path": "/verif/engine",
            "serves_properties": sorted(CHECKS),
            "kind_free_text": "hand-written Go explorer: stateless deviation-bounded DFS over choice points (engine/explore), explicit-state BFS over operation histories with canonical-state dedup (in the C06/C11/C18 checks), bounded-exhaustive enumerators (engine/enum); all drive the real atlas code (in-process packages or the real CLI binary) and judge every execution with an independent reference model",
        }],
        "checks": checks,
        "not_applicable": na,
        "notes": "All checks rebuild from /repo's working tree via ./check (go build with replace => /repo; bin/atlas with -tags verif). Nothing is random; VERIF_SEED is recorded only. VERIF_DEADLINE_S=<n> makes a check stop enumerating after n seconds and exit 0 with exhaustive:false.",
    }
    out = os.path.join(ROOT, 'MANIFEST.json')
    json.dump(m, open(out, 'w'), indent=1)
    try:
        import jsonschema
        jsonschema.validate(m, json.load(open('/root/.vp/MANIFEST.schema.json')))
        print("MANIFEST.json valid;", len(checks), "checks,", len(na), "not_applicable")
    except ImportError:
        print("MANIFEST.json written (jsonschema not available to validate)")

if __name__ == '__main__':
    main()
