#!/bin/bash
# Generates build/overlay.json replacing $GOROOT/src/runtime/map.go by a copy in which the random
# start of map iteration and the per-map hash seed can be chosen by the harness (see c20rt/hook.go).
cd "$(dirname "$0")/.." || exit 2
. ./env.sh
set -e
GR=$(go env GOROOT)
mkdir -p build
python3 - "$GR/src/runtime/map.go" build/runtime_map_patched.go <<'PY'
import sys
src, dst = sys.argv[1], sys.argv[2]
s = open(src).read()
old = "\tr := uintptr(rand())\n\tit.startBucket = r & bucketMask(h.B)"
assert s.count(old) == 1, "mapiterinit patch point not found"
s = s.replace(old, "\tr := verifIterStart(getcallerpc())\n\tit.startBucket = r & bucketMask(h.B)")
n = s.count("h.hash0 = uint32(rand())")
assert n >= 3, "hash0 patch points not found"
s = s.replace("h.hash0 = uint32(rand())", "h.hash0 = verifHash0()")
s += '''

// ---- verification hook (added by /verif/c20rt/gen_overlay.sh; not part of Go) ----

// VerifMap is the control block shared with the harness through a push linkname.
type verifMapCtl struct {
	Mode   uint32        // 0: real randomness; 1: controlled
	Hash0  uint32        // hash seed given to every map created while controlled
	R      uintptr       // iteration start used at every site ...
	SitePC [4]uintptr    // ... except at these call sites,
	SiteR  [4]uintptr    // which use these values
	Inited uint32        // environment consulted
	Log    uint32        // 1: record distinct call sites
	NSites uint32
	Sites  [512]uintptr
	Calls  uint64
}

//go:linkname verifMap
var verifMap verifMapCtl

// verifInit switches control on from the environment (VERIF_MAPCTL=1, VERIF_MAPHASH0=<n>, VERIF_MAPR=<n>) as soon as
// the runtime has read it, so that maps built by package initialisers are covered too.
func verifInit() {
	if verifMap.Inited != 0 || envs == nil {
		return
	}
	verifMap.Inited = 1
	if gogetenv("VERIF_MAPCTL") == "1" {
		verifMap.Mode = 1
		h := uint32(0)
		for _, c := range []byte(gogetenv("VERIF_MAPHASH0")) {
			if c >= '0' && c <= '9' {
				h = h*10 + uint32(c-'0')
			}
		}
		verifMap.Hash0 = h
		// VERIF_MAPR=<n>: iteration start used at every site (for binaries that do not link the harness,
		// e.g. the atlas CLI built with this overlay).
		r := uintptr(0)
		for _, c := range []byte(gogetenv("VERIF_MAPR")) {
			if c >= '0' && c <= '9' {
				r = r*10 + uintptr(c-'0')
			}
		}
		verifMap.R = r
	}
}

func verifIterStart(pc uintptr) uintptr {
	verifInit()
	if verifMap.Mode == 0 {
		return uintptr(rand())
	}
	verifMap.Calls++
	if verifMap.Log != 0 {
		found := false
		for i := uint32(0); i < verifMap.NSites; i++ {
			if verifMap.Sites[i] == pc {
				found = true
				break
			}
		}
		if !found && verifMap.NSites < uint32(len(verifMap.Sites)) {
			verifMap.Sites[verifMap.NSites] = pc
			verifMap.NSites++
		}
	}
	for i := range verifMap.SitePC {
		if verifMap.SitePC[i] != 0 && verifMap.SitePC[i] == pc {
			return verifMap.SiteR[i]
		}
	}
	return verifMap.R
}

func verifHash0() uint32 {
	verifInit()
	if verifMap.Mode == 0 {
		return uint32(rand())
	}
	return verifMap.Hash0
}
'''
open(dst, "w").write(s)
PY
cat > build/overlay.json <<JSON
{"Replace": {"$GR/src/runtime/map.go": "$PWD/build/runtime_map_patched.go"}}
JSON
echo "overlay ready: build/overlay.json"
