// Package c20rt exposes the control block of the patched runtime (see gen_overlay.sh). It only links
// when the binary is built with -overlay build/overlay.json.
package c20rt

import (
	_ "unsafe" // linkname
)

type Ctl struct {
	Mode   uint32
	Hash0  uint32
	R      uintptr
	SitePC [4]uintptr
	SiteR  [4]uintptr
	Inited uint32
	Log    uint32
	NSites uint32
	Sites  [512]uintptr
	Calls  uint64
}

//go:linkname Map runtime.verifMap
var Map Ctl
