#!/bin/bash
# Builds the real atlas CLI from /repo's working tree with the verif hooks enabled.
cd "$(dirname "$0")" || exit 2
. ./env.sh
mkdir -p bin
cd /repo/cmd/atlas && go build -tags verif -o /verif/bin/atlas . 
